#!/usr/bin/env python3
"""Regenerate lean/Marwood/Gen/Tables.lean from the data-like parts of the Rust source:
   lex.rs character-class predicates, char.rs named characters, opcode.rs / lex.rs enums,
   cell.rs PRIMITIVE_SYMBOLS.  Deliberately dumb: every extractor fails loudly (exit 1) when its
   pattern no longer matches.  The file is rewritten only when its content changes, so an unchanged
   source costs no Lean rebuild.  `Marwood/Proofs/Tables.lean` proves that the regenerated
   definitions agree with the hand-written model for every character / entry."""
import os, re, sys

REPO = os.environ.get("VERIF_REPO", "/repo")
VERIF = os.path.dirname(os.path.dirname(os.path.abspath(__file__)))
OUT = os.path.join(VERIF, "lean", "Marwood", "Gen", "Tables.lean")


def die(msg):
    print("translate/tables.py: " + msg, file=sys.stderr)
    sys.exit(1)


def read(rel):
    p = os.path.join(REPO, rel)
    if not os.path.exists(p):
        die("missing source file " + p)
    return open(p, encoding="utf-8").read()


def fn_body(src, name):
    m = re.search(r"(?:pub )?fn %s\(c: char\) -> bool \{(.*?)\n\}" % name, src, re.S)
    if not m:
        die("cannot find `fn %s(c: char) -> bool`" % name)
    return m.group(1)


# ---- a tiny evaluator for the boolean expressions the character-class predicates are written in.
# Grammar: or := and ('||' and)* ; and := not ('&&' not)* ; not := '!' not | atom ;
# atom := '(' or ')' | matches!(c, pat ('|' pat)*) | c == 'x' | c != 'x' | c.is_ascii_digit() | c.is_ascii_hexdigit()
#       | c.is_alphabetic() | c.is_ascii_alphabetic() | c.is_ascii_alphanumeric() | c.is_whitespace() | c as u32 (>|>=|<|<=|==) N | ident(c)
# pat := 'x' | 'x'..='y'.   Anything else makes the translator fail loudly.
TOK = re.compile(r"""\s*(matches!|\|\||&&|!=|==|>=|<=|\.\.=|[()!|,<>]|'(?:\\.|[^'\\])'|0x[0-9a-fA-F]+|\d+|c\.\w+\(\)|c as u32|\w+)""")

L1_ALPHABETIC = set(range(65, 91)) | set(range(97, 123)) | {0xAA, 0xB5, 0xBA} | set(range(0xC0, 0xD7)) | set(range(0xD8, 0xF7)) | set(range(0xF8, 0x100))
L1_WHITESPACE = set(range(9, 14)) | {32, 0x85, 0xA0}


def tokenize(text, name):
    pos, out = 0, []
    text = text.strip()
    while pos < len(text):
        m = TOK.match(text, pos)
        if not m:
            die("%s: cannot tokenize %r" % (name, text[pos:pos + 30]))
        out.append(m.group(1))
        pos = m.end()
    return out


def char_of(lit, name):
    body = lit[1:-1]
    esc = {"\\\\": "\\", "\\'": "'", "\\n": "\n", "\\t": "\t", "\\r": "\r", "\\0": "\0"}
    if body in esc:
        return ord(esc[body])
    if len(body) == 1:
        return ord(body)
    die("%s: unsupported character literal %s" % (name, lit))


class Ev:
    """evaluates one predicate at one code point; `high` = a code point above 0xFF (std's own tables would be
    needed there, so methods that consult them refuse)"""

    def __init__(self, src, name, toks, cp, stack):
        self.src, self.name, self.t, self.i, self.cp, self.stack = src, name, toks, 0, cp, stack

    def peek(self):
        return self.t[self.i] if self.i < len(self.t) else None

    def eat(self, x=None):
        tok = self.peek()
        if tok is None or (x is not None and tok != x):
            die("%s: expected %r, found %r" % (self.name, x, tok))
        self.i += 1
        return tok

    def or_(self):
        v = self.and_()
        while self.peek() == "||":
            self.eat()
            w = self.and_()
            v = v or w
        return v

    def and_(self):
        v = self.not_()
        while self.peek() == "&&":
            self.eat()
            w = self.not_()
            v = v and w
        return v

    def not_(self):
        if self.peek() == "!":
            self.eat()
            return not self.not_()
        return self.atom()

    def pat(self):
        lo = char_of(self.eat(), self.name)
        if self.peek() == "..=":
            self.eat()
            hi = char_of(self.eat(), self.name)
            return lo <= self.cp <= hi
        return self.cp == lo

    def method(self, tok):
        cp = self.cp
        if tok == "c.is_ascii_digit()":
            return 48 <= cp <= 57
        if tok == "c.is_ascii_hexdigit()":
            return 48 <= cp <= 57 or 65 <= cp <= 70 or 97 <= cp <= 102
        if tok == "c.is_ascii_alphabetic()":
            return 65 <= cp <= 90 or 97 <= cp <= 122
        if tok == "c.is_ascii_alphanumeric()":
            return 48 <= cp <= 57 or 65 <= cp <= 90 or 97 <= cp <= 122
        if tok in ("c.is_alphabetic()", "c.is_whitespace()"):
            if cp > 0xFF:
                return None     # unknown: only the Latin-1 part of std's tables is modelled
            return cp in (L1_ALPHABETIC if tok == "c.is_alphabetic()" else L1_WHITESPACE)
        die("%s: unsupported method %s" % (self.name, tok))

    def atom(self):
        tok = self.eat()
        if tok == "(":
            v = self.or_()
            self.eat(")")
            return v
        if tok == "matches!":
            self.eat("(")
            self.eat("c")
            self.eat(",")
            v = self.pat()
            while self.peek() == "|":
                self.eat()
                w = self.pat()
                v = v or w
            self.eat(")")
            return v
        if tok == "c":
            op = self.eat()
            if op not in ("==", "!="):
                die("%s: unsupported operator %r after c" % (self.name, op))
            x = char_of(self.eat(), self.name)
            return (self.cp == x) == (op == "==")
        if tok == "c as u32":
            op = self.eat()
            n = self.eat()
            n = int(n, 16) if n.startswith("0x") else int(n)
            return {">": self.cp > n, ">=": self.cp >= n, "<": self.cp < n, "<=": self.cp <= n, "==": self.cp == n}[op]
        if tok.startswith("c."):
            return self.method(tok)
        if re.fullmatch(r"\w+", tok) and self.peek() == "(":
            self.eat("(")
            self.eat("c")
            self.eat(")")
            if tok in self.stack:
                die("%s: recursive predicate %s" % (self.name, tok))
            return eval_pred(self.src, tok, self.cp, self.stack + [tok])
        die("%s: unsupported token %r" % (self.name, tok))


class Unknown(Exception):
    pass


def eval_pred(src, name, cp, stack=None):
    toks = tokenize(fn_body(src, name), name)
    ev = Ev(src, name, toks, cp, stack or [name])
    v = ev.or_()
    if ev.peek() is not None:
        die("%s: trailing tokens %r" % (name, ev.t[ev.i:]))
    return v


HIGH_SAMPLE = [0x100, 0x17F, 0x2B0, 0x300, 0x3BB, 0x660, 0x2028, 0x3000, 0x4E00, 0xD7FF, 0xE000, 0xFFFD, 0x1F600, 0x10FFFF]


def translate_pred(src, name):
    """canonical form: the set of Latin-1 code points on which the predicate is true + its (constant) value above
    0xFF.  Python's `or`/`and` short-circuit like Rust's, so an unknown (None) table lookup above 0xFF only matters
    when the rest of the expression does not already decide the result."""
    table = []
    for cp in range(0x100):
        v = eval_pred(src, name, cp)
        if v is None:
            die("%s: undecidable at U+%04X" % (name, cp))
        if v:
            table.append(cp)
    highs = set()
    for cp in HIGH_SAMPLE:
        v = eval_pred(src, name, cp)
        highs.add(v)
    if len(highs) != 1 or None in highs:
        die("%s depends on std's Unicode tables above U+00FF (values %r on the sample): the Latin-1 model no longer "
            "suffices" % (name, sorted(map(str, highs))))
    high = highs.pop()
    ln = lean_name(name)
    return ("def %sTable : List Nat :=\n  [%s]\n\ndef %sHigh : Bool := %s\n\n"
            "def %s (c : Char) : Bool :=\n  (decide (c.toNat > 0xFF) && %sHigh) || %sTable.contains c.toNat\n"
            % (ln, ", ".join(map(str, table)), ln, "true" if high else "false", ln, ln, ln))


def lean_name(rust):
    parts = rust.split("_")
    return parts[0] + "".join(p.capitalize() for p in parts[1:])


def enum_variants(src, name):
    m = re.search(r"pub enum %s \{(.*?)\n\}" % name, src, re.S)
    if not m:
        die("cannot find enum " + name)
    vs = []
    for line in m.group(1).splitlines():
        line = line.split("//")[0].strip()
        if not line or line.startswith("#"):
            continue
        mm = re.fullmatch(r"([A-Z]\w*),?", line)
        if not mm:
            die("enum %s: unexpected line %r" % (name, line))
        vs.append(mm.group(1))
    return vs


def named_chars(src):
    consts = {m.group(1): int(m.group(2), 16) for m in re.finditer(r"const (\w+): u32 = 0x([0-9a-fA-F]+);", src)}
    m = re.search(r"pub fn named_to_char\(text: &str\) -> Option<char> \{\s*match text \{(.*?)\n    \}", src, re.S)
    if not m:
        die("cannot find named_to_char")
    out = []
    for line in m.group(1).splitlines():
        line = line.strip().rstrip(",")
        if not line:
            continue
        if line.startswith("_ =>"):
            if line != "_ => None":
                die("named_to_char: unexpected default arm %r" % line)
            continue
        mm = re.fullmatch(r'"(\w+)" => (.*)', line)
        if not mm:
            die("named_to_char: unexpected arm %r" % line)
        name, rhs = mm.group(1), mm.group(2)
        c = re.fullmatch(r"(?:Some\()?char::from_u32\((\w+)\)(?:\.unwrap\(\)\))?", rhs)
        if c:
            if c.group(1) not in consts:
                die("named_to_char: unknown constant " + c.group(1))
            out.append((name, consts[c.group(1)]))
            continue
        c = re.fullmatch(r"Some\('(\\?.)'\)", rhs)
        if c:
            lit = c.group(1)
            code = {"\\n": 10, "\\t": 9, "\\r": 13}.get(lit, ord(lit) if len(lit) == 1 else None)
            if code is None:
                die("named_to_char: unsupported literal %r" % lit)
            out.append((name, code))
            continue
        die("named_to_char: cannot translate %r" % rhs)
    return out


def primitive_symbols(src):
    m = re.search(r"PRIMITIVE_SYMBOLS: HashSet<&'static str> = HashSet::from\(\[(.*?)\]\)", src, re.S)
    if not m:
        die("cannot find PRIMITIVE_SYMBOLS")
    return re.findall(r'"([^"]+)"', m.group(1))


def main():
    lex = read("marwood/src/lex.rs")
    ch = read("marwood/src/char.rs")
    op = read("marwood/src/vm/opcode.rs")
    cell = read("marwood/src/cell.rs")
    preds = ["is_initial_number", "is_subsequent_number", "is_initial_identifier", "is_special_subsequent",
             "is_subsequent_identifier"]
    body = ["import Marwood.Lex",
            "/-! GENERATED by translate/tables.py from marwood/src/{lex,char,cell}.rs and vm/opcode.rs — do not edit.",
            "Regenerated on every check; `Marwood/Proofs/Tables.lean` proves agreement with the hand-written model. -/",
            "namespace Marwood.Gen.Tables", "open Marwood", ""]
    for p in preds:
        body.append(translate_pred(lex, p))
    body.append("def namedChars : List (String × Nat) :=\n  [%s]\n" %
                ", ".join('("%s", %d)' % nc for nc in named_chars(ch)))
    body.append("def opcodes : List String :=\n  [%s]\n" % ", ".join('"%s"' % v for v in enum_variants(op, "OpCode")))
    body.append("def tokenTypes : List String :=\n  [%s]\n" % ", ".join('"%s"' % v for v in enum_variants(lex, "TokenType")))
    body.append("def primitiveSymbols : List String :=\n  [%s]\n" % ", ".join('"%s"' % v for v in primitive_symbols(cell)))
    body.append("end Marwood.Gen.Tables")
    text = "\n".join(body) + "\n"
    os.makedirs(os.path.dirname(OUT), exist_ok=True)
    if not os.path.exists(OUT) or open(OUT, encoding="utf-8").read() != text:
        open(OUT, "w", encoding="utf-8").write(text)
        print("translate/tables.py: wrote", OUT)
    else:
        print("translate/tables.py: unchanged")


if __name__ == "__main__":
    main()
