#!/usr/bin/env python3
"""Regenerate lean/Marwood/Gen/Tables.lean from the data-like parts of the Rust source:
   lex.rs character-class predicates, char.rs named characters, opcode.rs / lex.rs enums,
   cell.rs PRIMITIVE_SYMBOLS.  Deliberately dumb: every extractor fails loudly (exit 1) when its
   pattern no longer matches.  The file is rewritten only when its content changes, so an unchanged
   source costs no Lean rebuild.  `Marwood/Proofs/Tables.lean` proves that the regenerated
   definitions agree with the hand-written model for every character / entry."""
import os, re, sys

REPO = os.environ.get("VERIF_REPO", "/repo")
VERIF = os.path.dirname(os.path.dirname(os.path.abspath(__file__)))
OUT = os.path.join(VERIF, "lean", "Marwood", "Gen", "Tables.lean")


def die(msg):
    print("translate/tables.py: " + msg, file=sys.stderr)
    sys.exit(1)


def read(rel):
    p = os.path.join(REPO, rel)
    if not os.path.exists(p):
        die("missing source file " + p)
    return open(p, encoding="utf-8").read()


def fn_body(src, name):
    m = re.search(r"pub fn %s\(c: char\) -> bool \{(.*?)\n\}" % name, src, re.S)
    if not m:
        die("cannot find `pub fn %s(c: char) -> bool`" % name)
    return m.group(1)


def lean_char(lit):
    # Rust char literal body -> Lean char literal
    table = {"\\\\": "'\\\\'", "\\'": "'\\''", "\\n": "'\\n'", "\\t": "'\\t'", "\\r": "'\\r'"}
    if lit in table:
        return table[lit]
    if len(lit) == 1:
        return "'%s'" % lit
    die("unsupported character literal %r" % lit)


ATOMS = [
    (r"c\.is_alphabetic\(\)", "Marwood.isAlphabeticL1 c", "alphabetic"),
    (r"c as u32 > 0xFF", "c.toNat > 0xFF", "high"),
    (r"c\.is_ascii_digit\(\)", "Marwood.isAsciiDigit c", None),
    (r"c\.is_ascii_hexdigit\(\)", "Marwood.isAsciiHex c", None),
    (r"is_initial_identifier\(c\)", "isInitialIdentifier c", None),
    (r"is_special_subsequent\(c\)", "isSpecialSubsequent c", None),
]


def translate_pred(src, name):
    body = fn_body(src, name)
    parts = [p.strip() for p in body.split("||")]
    out, flags = [], set()
    for p in parts:
        m = re.fullmatch(r"c == '(\\?.)'", p)
        if m:
            out.append("c == " + lean_char(m.group(1)))
            continue
        for pat, lean, flag in ATOMS:
            if re.fullmatch(pat, p):
                out.append(lean)
                if flag:
                    flags.add(flag)
                break
        else:
            die("%s: cannot translate disjunct %r" % (name, p))
    if "alphabetic" in flags and "high" not in flags:
        # the model's Latin-1 table for is_alphabetic is only adequate because the predicate also
        # accepts everything above 0xFF
        die("%s uses is_alphabetic without the `c as u32 > 0xFF` disjunct: the Latin-1 table no longer suffices" % name)
    return "def %s (c : Char) : Bool :=\n  %s\n" % (lean_name(name), "\n    || ".join(out))


def lean_name(rust):
    parts = rust.split("_")
    return parts[0] + "".join(p.capitalize() for p in parts[1:])


def enum_variants(src, name):
    m = re.search(r"pub enum %s \{(.*?)\n\}" % name, src, re.S)
    if not m:
        die("cannot find enum " + name)
    vs = []
    for line in m.group(1).splitlines():
        line = line.split("//")[0].strip()
        if not line or line.startswith("#"):
            continue
        mm = re.fullmatch(r"([A-Z]\w*),?", line)
        if not mm:
            die("enum %s: unexpected line %r" % (name, line))
        vs.append(mm.group(1))
    return vs


def named_chars(src):
    consts = {m.group(1): int(m.group(2), 16) for m in re.finditer(r"const (\w+): u32 = 0x([0-9a-fA-F]+);", src)}
    m = re.search(r"pub fn named_to_char\(text: &str\) -> Option<char> \{\s*match text \{(.*?)\n    \}", src, re.S)
    if not m:
        die("cannot find named_to_char")
    out = []
    for line in m.group(1).splitlines():
        line = line.strip().rstrip(",")
        if not line:
            continue
        if line.startswith("_ =>"):
            if line != "_ => None":
                die("named_to_char: unexpected default arm %r" % line)
            continue
        mm = re.fullmatch(r'"(\w+)" => (.*)', line)
        if not mm:
            die("named_to_char: unexpected arm %r" % line)
        name, rhs = mm.group(1), mm.group(2)
        c = re.fullmatch(r"(?:Some\()?char::from_u32\((\w+)\)(?:\.unwrap\(\)\))?", rhs)
        if c:
            if c.group(1) not in consts:
                die("named_to_char: unknown constant " + c.group(1))
            out.append((name, consts[c.group(1)]))
            continue
        c = re.fullmatch(r"Some\('(\\?.)'\)", rhs)
        if c:
            lit = c.group(1)
            code = {"\\n": 10, "\\t": 9, "\\r": 13}.get(lit, ord(lit) if len(lit) == 1 else None)
            if code is None:
                die("named_to_char: unsupported literal %r" % lit)
            out.append((name, code))
            continue
        die("named_to_char: cannot translate %r" % rhs)
    return out


def primitive_symbols(src):
    m = re.search(r"PRIMITIVE_SYMBOLS: HashSet<&'static str> = HashSet::from\(\[(.*?)\]\)", src, re.S)
    if not m:
        die("cannot find PRIMITIVE_SYMBOLS")
    return re.findall(r'"([^"]+)"', m.group(1))


def main():
    lex = read("marwood/src/lex.rs")
    ch = read("marwood/src/char.rs")
    op = read("marwood/src/vm/opcode.rs")
    cell = read("marwood/src/cell.rs")
    preds = ["is_initial_number", "is_subsequent_number", "is_initial_identifier", "is_special_subsequent",
             "is_subsequent_identifier"]
    body = ["import Marwood.Lex",
            "/-! GENERATED by translate/tables.py from marwood/src/{lex,char,cell}.rs and vm/opcode.rs — do not edit.",
            "Regenerated on every check; `Marwood/Proofs/Tables.lean` proves agreement with the hand-written model. -/",
            "namespace Marwood.Gen.Tables", "open Marwood", ""]
    for p in preds:
        body.append(translate_pred(lex, p))
    body.append("def namedChars : List (String × Nat) :=\n  [%s]\n" %
                ", ".join('("%s", %d)' % nc for nc in named_chars(ch)))
    body.append("def opcodes : List String :=\n  [%s]\n" % ", ".join('"%s"' % v for v in enum_variants(op, "OpCode")))
    body.append("def tokenTypes : List String :=\n  [%s]\n" % ", ".join('"%s"' % v for v in enum_variants(lex, "TokenType")))
    body.append("def primitiveSymbols : List String :=\n  [%s]\n" % ", ".join('"%s"' % v for v in primitive_symbols(cell)))
    body.append("end Marwood.Gen.Tables")
    text = "\n".join(body) + "\n"
    os.makedirs(os.path.dirname(OUT), exist_ok=True)
    if not os.path.exists(OUT) or open(OUT, encoding="utf-8").read() != text:
        open(OUT, "w", encoding="utf-8").write(text)
        print("translate/tables.py: wrote", OUT)
    else:
        print("translate/tables.py: unchanged")


if __name__ == "__main__":
    main()
