#!/usr/bin/env python3
"""Regenerate lean/Marwood/Gen/Builtins.lean from $VERIF_REPO/marwood/src/vm/builtin/*.rs (default /repo).

For every `vm.load_builtin("name", func)` the arity window is taken from the first
`pop_argc(vm, min, max, ...)` in the body of `func` (or, when `func` only delegates, in the body of
the local helper function / macro it calls first).  Deliberately dumb: every pattern that no longer
matches is a loud failure (exit 1), reported by the pipeline as a broken correspondence.
The file is written only when its content changes.  Stdlib only.
"""
import glob, os, re, sys

REPO = os.environ.get("VERIF_REPO", "/repo")   # seeded-change runs point the check at a scratch worktree
SRC = os.path.join(REPO, "marwood", "src", "vm", "builtin")
OUT = os.path.join(os.path.dirname(os.path.dirname(os.path.abspath(__file__))),
                   "lean", "Marwood", "Gen", "Builtins.lean")

LOAD = re.compile(r'\bload_builtin\(\s*"([^"]+)"\s*,\s*([A-Za-z_][A-Za-z0-9_]*)\s*\)')
ITEM = re.compile(r'^(?:pub(?:\([a-z]+\))?\s+)?fn\s+([A-Za-z_][A-Za-z0-9_]*)|^macro_rules!\s+([A-Za-z_][A-Za-z0-9_]*)', re.M)
ARGC = re.compile(r'\bpop_argc\(\s*\$?[a-z_]+\s*,\s*(\d+)\s*,\s*(None|Some\(\s*(\d+)\s*\))\s*,\s*([^)]*?)\s*\)')
NOTES = []
CALL = re.compile(r'\b([A-Za-z_][A-Za-z0-9_]*)(!?)\(\s*vm\b')


def fail(msg):
    sys.stderr.write("translate/builtins.py: " + msg + "\n")
    sys.exit(1)


def strip_comments(text):
    return re.sub(r'//[^\n]*', '', text)


def items(text):
    """top-level fn / macro_rules! items: name -> body text (up to the next column-0 item)"""
    marks = [(m.start(), m.group(1) or m.group(2)) for m in ITEM.finditer(text)]
    out = {}
    for k, (pos, name) in enumerate(marks):
        end = marks[k + 1][0] if k + 1 < len(marks) else len(text)
        if name in out:
            fail("two top-level items named %s" % name)
        out[name] = text[pos:end]
    return out


def window(body):
    m = ARGC.search(body)
    if not m:
        return None
    lo = int(m.group(1))
    hi = None if m.group(2) == "None" else int(m.group(3))
    return lo, hi, m.group(4)


def translate():
    files = sorted(glob.glob(os.path.join(SRC, "*.rs")))
    if not files:
        fail("no source files under " + SRC)
    table, loads = {}, 0
    for path in files:
        text = strip_comments(open(path).read())
        its = items(text)
        regs = LOAD.findall(text)
        if "load_builtin(" in text and os.path.basename(path) != "mod.rs" and not regs:
            fail("%s mentions load_builtin but no registration matched" % path)
        # every textual load_builtin( call except the definition in mod.rs must have matched
        calls = len(re.findall(r'\.load_builtin\(', text))
        if calls != len(regs):
            fail("%s: %d load_builtin calls but %d matched the pattern" % (path, calls, len(regs)))
        for name, func in regs:
            loads += 1
            if func not in its:
                fail("%s: builtin %s is registered with %s, which is not a top-level fn of the file"
                     % (path, name, func))
            w = window(its[func])
            if w is None:
                # a pure delegation: first call of a local helper / macro that receives `vm`
                target = None
                body = its[func]
                for m in CALL.finditer(body[body.index("{"):]):
                    if m.group(1) in its and m.group(1) != func:
                        target = m.group(1)
                        break
                if target is None or window(its[target]) is None:
                    fail("%s: no pop_argc found for builtin %s (fn %s)" % (path, name, func))
                w = window(its[target])
            lo, hi, label = w
            if hi is not None and hi < lo:
                fail("%s: builtin %s has an empty arity window %d..%d" % (path, name, lo, hi))
            if label.startswith('"') and label.strip('"') != name:
                # registered under several names (call/cc, pow, %): the message names the first
                others = [n for n, f in regs if f == func]
                if label.strip('"') not in others:
                    # a wrong name in the error message is the code's business, not a pattern failure
                    NOTES.append("%s: builtin %s reports arity errors under the name %s"
                                 % (os.path.basename(path), name, label))
            if name in table and table[name] != (lo, hi):
                fail("builtin %s registered twice with different windows" % name)
            table[name] = (lo, hi)
    if loads < 100:
        fail("only %d registrations found; the load_builtin pattern no longer matches" % loads)
    return table


def lean_string(s):
    return '"' + s.replace("\\", "\\\\").replace('"', '\\"') + '"'


def render(table):
    rows = []
    for name in sorted(table):
        lo, hi = table[name]
        rows.append("  (%s, %d, %s)" % (lean_string(name), lo, "none" if hi is None else "some %d" % hi))
    return ("/-! GENERATED by translate/builtins.py from marwood/src/vm/builtin/*.rs — do not edit.\n"
            "`(name, min, max)`: the registered name of every Rust builtin and the window of its first\n"
            "`pop_argc` (`none` = no upper bound). -/\n"
            "namespace Marwood.Gen\n\n"
            "def builtins : List (String × Nat × Option Nat) := [\n" + ",\n".join(rows) + "\n]\n\n"
            "end Marwood.Gen\n")


def main():
    table = translate()
    text = render(table)
    os.makedirs(os.path.dirname(OUT), exist_ok=True)
    old = open(OUT).read() if os.path.exists(OUT) else None
    if old != text:
        open(OUT, "w").write(text)
        print("translate/builtins.py: wrote %s (%d builtins)" % (OUT, len(table)))
    else:
        print("translate/builtins.py: %s unchanged (%d builtins)" % (OUT, len(table)))
    for n in NOTES:
        print("translate/builtins.py: note: " + n)
    if "--print" in sys.argv:
        for name in sorted(table):
            lo, hi = table[name]
            print("gen %s\t%d %s" % (name, lo, "inf" if hi is None else hi))


if __name__ == "__main__":
    main()
