/-!
Design-time feasibility spike (NOT part of the verification framework; not referenced by
MANIFEST.json; kept only as evidence for the cost estimates in DESIGN.md §4 C04 / §5).

Question: how expensive is the instruction-level tail-call lemma T04.1 on a machine whose
stack is a total function `Nat → V` (different-argc path of run.rs:217-235 followed by ENTER)?
Answer: ~90 lines including the cut-down machine; six of the seven conjuncts close by
`simp [St.push, pushAll_sp] <;> omega`, the frame condition needs one helper lemma
(`pushAll_below`).  Builds in 2 s with core Lean only; axioms propext, Classical.choice,
Quot.sound.  `hle` is unused because Nat subtraction saturates; in the real model the
subtraction is checked (Rust would panic) and WF-stack supplies `frameArgc ≤ bp`.
Checked with: lake new Tc lib; copy to Tc/Basic.lean; lake build   (Lean 4.33.0)
-/

inductive V
  | val (n : Nat) | argc (n : Nat) | ep (n : Nat) | ip (l o : Nat) | bp (n : Nat) | undef
deriving DecidableEq, Repr

structure St where
  stack : Nat → V
  sp : Nat
  bp : Nat
  ep : Nat
  ip : Nat × Nat

def St.push (s : St) (v : V) : St :=
  { s with stack := fun i => if i = s.sp + 1 then v else s.stack i, sp := s.sp + 1 }

def asArgc : V → Option Nat | .argc n => some n | _ => none
def asBp : V → Option Nat | .bp n => some n | _ => none

/-- push `vals` left to right -/
def St.pushAll (s : St) : List V → St
  | [] => s
  | v :: vs => (s.push v).pushAll vs

/-- TCALL to a closure whose code is `lam`, different-argc path of run.rs:217-235,
    followed by ENTER (run.rs:252-253).  `argc` new args are on top, then `.argc argc`. -/
def tcallDiff (s : St) (lam : Nat) : Option St := do
  let argc ← asArgc (s.stack s.sp)
  let frameArgc ← asArgc (s.stack (s.bp + 1))
  let savedSp := s.sp
  let savedEp := s.stack (s.bp + 2)
  let savedIp := s.stack (s.bp + 3)
  let savedBp ← asBp (s.stack (s.bp + 4))
  -- the real code indexes `saved_sp - it - 1` for it in (0..argc).rev(): oldest first
  let args := (List.range argc).reverse.map (fun it => s.stack (savedSp - it - 1))
  let s1 : St := { s with sp := s.bp - frameArgc }
  let s2 := s1.pushAll args
  let s3 := ((s2.push (.argc argc)).push savedEp).push savedIp
  let s4 : St := { s3 with bp := savedBp, ip := (lam, 0) }
  -- ENTER
  let s5 := s4.push (.bp s4.bp)
  pure { s5 with bp := s5.sp - 4 }

theorem pushAll_sp (s : St) (vs : List V) : (s.pushAll vs).sp = s.sp + vs.length := by
  induction vs generalizing s with
  | nil => simp [St.pushAll]
  | cons v vs ih => simp [St.pushAll, ih, St.push]; omega

theorem pushAll_below (s : St) (vs : List V) (i : Nat) (h : i ≤ s.sp) :
    (s.pushAll vs).stack i = s.stack i := by
  induction vs generalizing s with
  | nil => simp [St.pushAll]
  | cons v vs ih =>
    simp only [St.pushAll]
    rw [ih]
    · simp [St.push]; omega
    · simp [St.push]; omega

/-- Frame replacement: the new frame's first argument sits where the old frame's first argument
    sat (index `bp - frameArgc + 1`), the saved ep/ip are the old frame's, and the saved bp pushed by
    ENTER is the old frame's saved bp: the control stack below the frame is untouched and the frame
    returns to the caller's caller. -/
theorem tcallDiff_replaces_frame (s s' : St) (lam argc frameArgc savedBp : Nat)
    (hargc : s.stack s.sp = .argc argc) (hf : s.stack (s.bp + 1) = .argc frameArgc)
    (hbp : s.stack (s.bp + 4) = .bp savedBp) (hle : frameArgc ≤ s.bp)
    (h : tcallDiff s lam = some s') :
    s'.bp + 1 = (s.bp - frameArgc) + argc + 1 ∧          -- argc slot right after the new args
    s'.stack (s'.bp + 1) = .argc argc ∧
    s'.stack (s'.bp + 2) = s.stack (s.bp + 2) ∧
    s'.stack (s'.bp + 3) = s.stack (s.bp + 3) ∧
    s'.stack (s'.bp + 4) = .bp savedBp ∧
    s'.sp = s'.bp + 4 ∧
    (∀ i, i ≤ s.bp - frameArgc → s'.stack i = s.stack i) := by
  simp only [tcallDiff, hargc, hf, hbp, asArgc, asBp, Option.bind_eq_bind, Option.bind_some,
    Option.pure_def, Option.some.injEq] at h
  subst h
  refine ⟨?_, ?_, ?_, ?_, ?_, ?_, ?_⟩ <;>
    simp [St.push, pushAll_sp] <;> try omega
  intro i hi
  have h1 : ¬ i = s.bp - frameArgc + argc + 1 + 1 + 1 + 1 := by omega
  have h2 : ¬ i = s.bp - frameArgc + argc + 1 + 1 + 1 := by omega
  have h3 : ¬ i = s.bp - frameArgc + argc + 1 + 1 := by omega
  have h4 : ¬ i = s.bp - frameArgc + argc + 1 := by omega
  simp only [h1, h2, h3, h4, if_false]
  rw [pushAll_below]
  simpa using hi

#print axioms tcallDiff_replaces_frame
