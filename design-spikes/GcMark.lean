/-!
Design-time feasibility spike (NOT part of the verification framework; not referenced by
MANIFEST.json; kept only as evidence for the cost estimates in DESIGN.md §4 C03 / §5).

Question: how expensive is T03.1 ("mark computes exactly the set reachable from its
roots") for a worklist formulation with fuel?  Answer: ~120 lines, first attempt, builds
in under 2 s with core Lean only, axioms [propext, Quot.sound].  Still to do in the real
model: the fuel-sufficiency lemma (measure = unmarked·(maxdeg+1) + |worklist|), the
per-kind child function of heap.rs, the 2-bit gc map instead of a list of marked nodes.
Checked with: lake new Gc lib; copy to Gc/Basic.lean; lake build   (Lean 4.33.0)
-/

structure G where
  n : Nat
  children : Nat → List Nat

inductive Reach (g : G) (roots : List Nat) : Nat → Prop
  | root {x} : x ∈ roots → x < g.n → Reach g roots x
  | step {x y} : Reach g roots x → y ∈ g.children x → y < g.n → Reach g roots y

def mark (g : G) : Nat → List Nat → List Nat → Option (List Nat)
  | 0, [], m => some m
  | 0, _ :: _, _ => none
  | _+1, [], m => some m
  | f+1, x :: w, m =>
      if x ∈ m ∨ g.n ≤ x then mark g f w m
      else mark g f (g.children x ++ w) (x :: m)

theorem reach_mono {g : G} {r₁ r₂ : List Nat} (h : ∀ x ∈ r₁, x < g.n → Reach g r₂ x) :
    ∀ {x}, Reach g r₁ x → Reach g r₂ x := by
  intro x hx
  induction hx with
  | root hm hl => exact h _ hm hl
  | step _ hc hl ih => exact Reach.step ih hc hl

/-- soundness: everything marked was already marked or is reachable from the worklist -/
theorem mark_sound (g : G) : ∀ (f : Nat) (w m r : List Nat), mark g f w m = some r →
    ∀ x ∈ r, x ∈ m ∨ Reach g w x := by
  intro f
  induction f with
  | zero =>
    intro w m r h x hx
    cases w with
    | nil => simp [mark] at h; subst h; exact Or.inl hx
    | cons a w => simp [mark] at h
  | succ f ih =>
    intro w m r h x hx
    cases w with
    | nil => simp [mark] at h; subst h; exact Or.inl hx
    | cons a w =>
      simp only [mark] at h
      split at h
      · rcases ih w m r h x hx with h1 | h1
        · exact Or.inl h1
        · exact Or.inr (reach_mono (fun y hy hl => Reach.root (List.mem_cons_of_mem _ hy) hl) h1)
      · rename_i hn
        have hn' : ¬ a ∈ m ∧ a < g.n := by
          constructor
          · intro hc; exact hn (Or.inl hc)
          · exact Nat.lt_of_not_le (fun hc => hn (Or.inr hc))
        rcases ih _ _ r h x hx with h1 | h1
        · rcases List.mem_cons.mp h1 with h2 | h2
          · subst h2; exact Or.inr (Reach.root (List.mem_cons_self) hn'.2)
          · exact Or.inl h2
        · refine Or.inr (reach_mono ?_ h1)
          intro y hy hl
          rcases List.mem_append.mp hy with h3 | h3
          · exact Reach.step (Reach.root (List.mem_cons_self) hn'.2) h3 hl
          · exact Reach.root (List.mem_cons_of_mem _ h3) hl

def ClosedIn (g : G) (w m : List Nat) : Prop :=
  ∀ x ∈ m, ∀ y ∈ g.children x, y < g.n → y ∈ m ∨ y ∈ w

/-- completeness: the result contains the marked set and the worklist and is closed under children -/
theorem mark_complete (g : G) : ∀ (f : Nat) (w m r : List Nat), mark g f w m = some r → ClosedIn g w m →
    (∀ x ∈ m, x ∈ r) ∧ (∀ x ∈ w, x < g.n → x ∈ r) ∧ ClosedIn g [] r := by
  intro f
  induction f with
  | zero =>
    intro w m r h hinv
    cases w with
    | nil =>
      simp [mark] at h; subst h
      exact ⟨fun _ h => h, by simp, hinv⟩
    | cons a w => simp [mark] at h
  | succ f ih =>
    intro w m r h hinv
    cases w with
    | nil =>
      simp [mark] at h; subst h
      exact ⟨fun _ h => h, by simp, hinv⟩
    | cons a w =>
      simp only [mark] at h
      split at h
      · rename_i hc
        have hinv' : ClosedIn g w m := by
          intro x hx y hy hl
          rcases hinv x hx y hy hl with h1 | h1
          · exact Or.inl h1
          · rcases List.mem_cons.mp h1 with h2 | h2
            · subst h2
              rcases hc with hc | hc
              · exact Or.inl hc
              · exact absurd hl (Nat.not_lt.mpr hc)
            · exact Or.inr h2
        obtain ⟨h1, h2, h3⟩ := ih w m r h hinv'
        refine ⟨h1, ?_, h3⟩
        intro x hx hl
        rcases List.mem_cons.mp hx with h4 | h4
        · subst h4
          rcases hc with hc | hc
          · exact h1 _ hc
          · exact absurd hl (Nat.not_lt.mpr hc)
        · exact h2 x h4 hl
      · have hinv' : ClosedIn g (g.children a ++ w) (a :: m) := by
          intro x hx y hy hl
          rcases List.mem_cons.mp hx with h1 | h1
          · subst h1; exact Or.inr (List.mem_append.mpr (Or.inl hy))
          · rcases hinv x h1 y hy hl with h2 | h2
            · exact Or.inl (List.mem_cons_of_mem _ h2)
            · rcases List.mem_cons.mp h2 with h3 | h3
              · subst h3; exact Or.inl (List.mem_cons_self)
              · exact Or.inr (List.mem_append.mpr (Or.inr h3))
        obtain ⟨h1, h2, h3⟩ := ih _ _ r h hinv'
        refine ⟨fun x hx => h1 x (List.mem_cons_of_mem _ hx), ?_, h3⟩
        intro x hx hl
        rcases List.mem_cons.mp hx with h4 | h4
        · subst h4; exact h1 _ (List.mem_cons_self)
        · exact h2 x (List.mem_append.mpr (Or.inr h4)) hl

/-- the marked set is exactly the reachable set -/
theorem mark_exact (g : G) (f : Nat) (roots r : List Nat) (h : mark g f roots [] = some r) :
    ∀ x, x ∈ r ↔ Reach g roots x := by
  intro x
  constructor
  · intro hx
    rcases mark_sound g f roots [] r h x hx with h1 | h1
    · simp at h1
    · exact h1
  · intro hx
    obtain ⟨_, h2, h3⟩ := mark_complete g f roots [] r h (by intro x hx; simp at hx)
    induction hx with
    | root hm hl => exact h2 _ hm hl
    | step _ hc hl ih =>
      rcases h3 _ ih _ hc hl with h4 | h4
      · exact h4
      · simp at h4

#print axioms mark_exact
