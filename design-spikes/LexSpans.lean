/-!
Design-time feasibility spike (NOT part of the verification framework; not referenced by
MANIFEST.json; kept only as evidence for the cost estimates in DESIGN.md §4 C11 / §5).

Question: can the span discipline of T11.2 (tokens non-empty, on character boundaries, strictly
ordered, separated only by whitespace and comments) be stated and proved without index
arithmetic pain?  Answer: yes — state it as ONE inductive relation `Lexed pos text tokens`
(text = gap ++ body ++ rest, offsets are byte lengths of prefixes) and prove
`scan fuel pos text = ok tokens → Lexed pos text tokens` by induction on fuel with one split
lemma per token scanner.  180 lines for a cut-down scanner (parens, symbols incl. the
`c > 0xFF` rule, whitespace, comments); written and closed in one sitting, builds in 2 s,
core Lean only, axioms [propext, Quot.sound].  Still to do in the real model: the other
token scanners (each needs only its `consumed ++ rest = input ∧ consumed ≠ []` lemma) and
fuel adequacy (`scan (length+1) 0 text ≠ error fuel`).
Checked with: lake new Lx lib; copy to Lx/Basic.lean; lake build   (Lean 4.33.0)
-/

abbrev Text := List Char
def byteLen (cs : Text) : Nat := (cs.map Char.utf8Size).sum

inductive Ty | lparen | rparen | symbol deriving DecidableEq, Repr
structure Token where
  lo : Nat
  hi : Nat
  ty : Ty
deriving Repr

def isSym (c : Char) : Bool := c.isAlpha || c.val > 0xFF || c == '!' || c == '?' || c == '-'

/-- `scan_symbol`: first character taken unconditionally, then while `isSym`. Returns the consumed
    characters and the rest. -/
def takeSym : Text → Text × Text
  | [] => ([], [])
  | c :: cs => if isSym c then let (a, r) := takeSym cs; (c :: a, r) else ([], c :: cs)

def scanSymbol : Text → Text × Text
  | [] => ([], [])
  | c :: cs => let (a, r) := takeSym cs; (c :: a, r)

/-- `scan_comment`: up to and including the newline -/
def takeComment : Text → Text × Text
  | [] => ([], [])
  | c :: cs => if c == '\n' then ([c], cs) else let (a, r) := takeComment cs; (c :: a, r)

/-- text that may separate tokens: whitespace and comments -/
inductive Gap : Text → Prop
  | nil : Gap []
  | ws {c cs} : c.isWhitespace = true → Gap cs → Gap (c :: cs)
  | comment {a cs} : (∃ b, a = ';' :: b ∧ (∀ x ∈ b.dropLast, x ≠ '\n')) → Gap cs → Gap (a ++ cs)

inductive LexErr | unexpected (c : Char) | fuel deriving Repr

def scan : Nat → Nat → Text → Except LexErr (List Token)
  | 0, _, _ => .error .fuel
  | _+1, _, [] => .ok []
  | f+1, pos, c :: cs =>
    if c == '(' then (scan f (pos + c.utf8Size) cs).map (⟨pos, pos + c.utf8Size, .lparen⟩ :: ·)
    else if c == ')' then (scan f (pos + c.utf8Size) cs).map (⟨pos, pos + c.utf8Size, .rparen⟩ :: ·)
    else if isSym c then
      let (a, r) := scanSymbol (c :: cs)
      (scan f (pos + byteLen a) r).map (⟨pos, pos + byteLen a, .symbol⟩ :: ·)
    else if c == ';' then
      let (a, r) := takeComment (c :: cs)
      scan f (pos + byteLen a) r
    else if c.isWhitespace then scan f (pos + c.utf8Size) cs
    else .error (.unexpected c)

/-- The span discipline: tokens are non-empty, start where the previous one ended plus a gap,
    offsets are byte lengths of prefixes (hence character boundaries), and everything that is not
    a token is gap text. -/
inductive Lexed : Nat → Text → List Token → Prop
  | done {pos cs} : Gap cs → Lexed pos cs []
  | tok {pos g body rest t ts} : Gap g → body ≠ [] →
      t.lo = pos + byteLen g → t.hi = t.lo + byteLen body →
      Lexed t.hi rest ts → Lexed pos (g ++ body ++ rest) (t :: ts)

theorem byteLen_cons (c : Char) (cs : Text) : byteLen (c :: cs) = c.utf8Size + byteLen cs := by
  simp [byteLen]

theorem byteLen_append (a b : Text) : byteLen (a ++ b) = byteLen a + byteLen b := by
  simp [byteLen]

theorem takeSym_split (cs : Text) : (takeSym cs).1 ++ (takeSym cs).2 = cs := by
  induction cs with
  | nil => simp [takeSym]
  | cons c cs ih =>
    simp only [takeSym]; split <;> simp_all

theorem takeSym_len (cs : Text) : (takeSym cs).2.length ≤ cs.length := by
  induction cs with
  | nil => simp [takeSym]
  | cons c cs ih => simp only [takeSym]; split <;> simp_all <;> omega

theorem takeComment_split (cs : Text) : (takeComment cs).1 ++ (takeComment cs).2 = cs := by
  induction cs with
  | nil => simp [takeComment]
  | cons c cs ih => simp only [takeComment]; split <;> simp_all

theorem takeComment_body (cs : Text) : ∀ x ∈ (takeComment cs).1.dropLast, x ≠ '\n' := by
  induction cs with
  | nil => simp [takeComment]
  | cons c cs ih =>
    simp only [takeComment]; split
    · simp
    · rename_i h
      intro x hx
      cases hA : (takeComment cs).1 with
      | nil => simp [hA] at hx
      | cons a as =>
        simp [hA, List.dropLast] at hx
        rcases hx with rfl | hx
        · simpa using h
        · exact ih x (by simpa [hA, List.dropLast] using hx)

/-- prepend gap text to a lexing -/
theorem Lexed.gap_ws {pos c cs ts} (hc : c.isWhitespace = true)
    (h : Lexed (pos + c.utf8Size) cs ts) : Lexed pos (c :: cs) ts := by
  cases h with
  | done hg => exact .done (.ws hc hg)
  | tok hg hb hlo hhi hrest =>
    rename_i g body rest t ts
    have : c :: (g ++ body ++ rest) = (c :: g) ++ body ++ rest := by simp
    rw [this]
    refine .tok (.ws hc hg) hb ?_ hhi hrest
    rw [hlo, byteLen_cons]; omega

theorem Lexed.gap_comment {pos a cs ts} (ha : ∃ b, a = ';' :: b ∧ (∀ x ∈ b.dropLast, x ≠ '\n'))
    (h : Lexed (pos + byteLen a) cs ts) : Lexed pos (a ++ cs) ts := by
  cases h with
  | done hg => exact .done (.comment ha hg)
  | tok hg hb hlo hhi hrest =>
    rename_i g body rest t ts
    have : a ++ (g ++ body ++ rest) = (a ++ g) ++ body ++ rest := by simp
    rw [this]
    refine .tok (.comment ha hg) hb ?_ hhi hrest
    rw [hlo, byteLen_append]; omega

theorem scan_lexed : ∀ (f pos : Nat) (cs : Text) (ts : List Token),
    scan f pos cs = .ok ts → Lexed pos cs ts := by
  intro f
  induction f with
  | zero => intro pos cs ts h; simp [scan] at h
  | succ f ih =>
    intro pos cs ts h
    cases cs with
    | nil => simp [scan] at h; subst h; exact .done .nil
    | cons c cs =>
      simp only [scan] at h
      split at h
      · -- '('
        cases hr : scan f (pos + c.utf8Size) cs with
        | error e => simp [hr, Except.map] at h
        | ok ts' =>
          simp [hr, Except.map] at h; subst h
          have := ih _ _ _ hr
          have e : c :: cs = [] ++ [c] ++ cs := by simp
          rw [e]
          exact .tok .nil (by simp) (by simp [byteLen]) (by simp [byteLen]) this
      · split at h
        · cases hr : scan f (pos + c.utf8Size) cs with
          | error e => simp [hr, Except.map] at h
          | ok ts' =>
            simp [hr, Except.map] at h; subst h
            have := ih _ _ _ hr
            have e : c :: cs = [] ++ [c] ++ cs := by simp
            rw [e]
            exact .tok .nil (by simp) (by simp [byteLen]) (by simp [byteLen]) this
        · split at h
          · -- symbol
            simp only [scanSymbol] at h
            cases hr : scan f (pos + byteLen (c :: (takeSym cs).1)) (takeSym cs).2 with
            | error e => simp [hr, Except.map] at h
            | ok ts' =>
              simp [hr, Except.map] at h; subst h
              have := ih _ _ _ hr
              have e : c :: cs = [] ++ (c :: (takeSym cs).1) ++ (takeSym cs).2 := by
                simp [takeSym_split]
              rw [e]
              exact .tok .nil (by simp) (by simp [byteLen]) (by simp) this
          · split at h
            · -- comment
              rename_i hsemi
              have hc : c = ';' := by simpa using hsemi
              have hsplit := takeComment_split (c :: cs)
              rw [← hsplit]
              refine Lexed.gap_comment ?_ (ih _ _ _ h)
              subst hc
              simp only [takeComment]
              split
              · rename_i hnl; simp at hnl
              · refine ⟨(takeComment cs).1, rfl, takeComment_body cs⟩
            · split at h
              · rename_i hws
                exact Lexed.gap_ws hws (ih _ _ _ h)
              · simp at h

#print axioms scan_lexed
