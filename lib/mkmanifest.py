#!/usr/bin/env python3
"""Regenerate MANIFEST.json from the META blocks of lib/props/*.py."""
import json, os, sys, importlib, glob
HERE = os.path.dirname(os.path.abspath(__file__))
VERIF = os.path.dirname(HERE)
sys.path.insert(0, HERE); sys.path.insert(0, os.path.join(HERE, "props"))
ALL = ["C%02d" % i for i in range(1, 21)]
checks, na, engines_props = [], [], []
CLAIMED = set(open(os.path.join(HERE, "claimed.txt")).read().split())
for pid in ALL:
    path = os.path.join(HERE, "props", pid.lower() + ".py")
    meta = None
    if pid in CLAIMED and os.path.exists(path):
        mod = importlib.import_module(pid.lower())
        meta = getattr(mod, "META", None)
    if not meta:
        na.append({"property_id": pid, "reason": "not claimed yet: model, theorems and correspondence for this property are still under construction in this round (see DESIGN.md §5 for the build order); nothing is asserted about it"})
        continue
    engines_props.append(pid)
    checks.append({
        "property_id": pid,
        "quick_cmd": "./check %s --tier quick" % pid,
        "thorough_cmd": "./check %s --tier thorough" % pid,
        "evidence_file": "/verif/evidence/%s.json" % pid,
        "replay_cmd_template": "./check replay {path}",
        "engine": "lean+mwv",
        "level_claimed": {"category": "proof", "text": meta["text"], "design_ref": meta.get("design_ref", "DESIGN.md §4 " + pid)},
        "level_note": meta["note"],
        "technique": meta["technique"],
    })
src = json.load(open(os.path.join(VERIF, "known_findings.json")))
commits = src.get("hook_commits", [])
man = {
    "version": 1,
    "setup_cmd": "./check setup",
    "hooks": {
        "guard": "marwood_verif",
        "enable": "RUSTFLAGS=\"--cfg marwood_verif\" (set in /verif/harness/.cargo/config.toml; the harness depends on /repo/marwood by path)",
        "baseline_off_cmd": "cd /repo && cargo test --workspace --no-fail-fast --offline",
        "source_commits": commits,
        "add_only": True,
    },
    "engines": [
        {"name": "lean", "path": "/verif/lean", "serves_properties": engines_props,
         "kind_free_text": "Lean 4 lake project: hand-written executable models of marwood components, specifications, property theorems (Marwood/Proofs/C*.lean), and the line-protocol driver executable"},
        {"name": "mwv", "path": "/verif/harness", "serves_properties": engines_props,
         "kind_free_text": "Rust harness crate built against /repo/marwood (path dependency, hooks on): generators and canonicalisers producing request/implementation-response lines for the correspondence"},
        {"name": "check", "path": "/verif/check", "serves_properties": engines_props,
         "kind_free_text": "Python pipeline: rebuild, lake build + axiom audit, correspondence diff, property oracle, known-finding matching, evidence"},
    ],
    "checks": checks,
    "not_applicable": na,
    "notes": "Technique: machine-checked proof in Lean 4 about hand-written models, tied to /repo by correspondence runs on every check (see DESIGN.md).",
}
json.dump(man, open(os.path.join(VERIF, "MANIFEST.json"), "w"), indent=1)
print("claimed:", engines_props)
