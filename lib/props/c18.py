"""C18 — symbols are interned: same name iff eq?, across collections and conversions."""
from pipeline import *
from print_util import *

META = {
    "text": "Lean 4 theorems about the heap model (heap.rs: symbol table, put/maybe_put, collector) and a model of "
            "builtin/symbol.rs: in a heap satisfying the Interned invariant two allocated symbol cells are the same "
            "cell iff they hold the same spelling, and eq? (Vm::eqv) answers exactly that; every production of a symbol "
            "value ends in put/maybe_put, which returns the cell already holding the spelling or a fresh one, keeps the "
            "invariant and moves no existing symbol; a collection keeps every reachable symbol at its address with its "
            "spelling (invariant preservation by new/alloc/put/maybe_put/free/sweep/grow/run_gc is cited from the C03 "
            "lemmas, not re-proved); (symbol->string (string->symbol s)) = s for every string (all scalar values, all "
            "positions, by induction through the \\x<hex>; escape decoder of parse_string). The converse "
            "(string->symbol (symbol->string y)) = y is proved for every spelling string->symbol can build and for plain "
            "identifiers, and refuted at the witnesses + and a\\x41;b. The models are tied to the code by differential "
            "runs through the VM; eq?/string=? of symbols produced by 8 routes (source literal, quoted datum, "
            "string->symbol, macro template, eval, eval of string->symbol, car of a quoted list, re-conversion) under "
            "collection schedules (none, every k-th instruction, forced between evaluations, drop-and-reintern) are "
            "compared with the heap model and with the specification 'eq? iff names equal'.",
    "note": "Closed theorems: T18.1 (interned_ptr_eq_iff, interned_eqv_iff, production_interns, "
            "maybePut_production_interns, two_productions_eq_iff, collection_keeps_symbol; machine level: "
            "symbols_interned_in_every_reachable_state, symbol_addresses_interned_in_every_reachable_state, "
            "symbols_interned_of_goodI, symbol_production_interns_machine, put_symbol_interns_concrete, "
            "maybePut_symbol_interns_concrete), T18.3 "
            "(symbol_string_roundtrip). Partial: T18.4 (string_symbol_roundtrip_encoder_partial, "
            "string_symbol_roundtrip_plain_partial) with proved negations peculiar_identifier_not_fixed and "
            "escaped_literal_not_fixed: a reader spelling that is not the spelling string->symbol builds for its name "
            "(first character not an initial identifier character: + - ... 1+ 12foo; or an escape inside: a\\x41;b) is "
            "a second symbol with the same name — known finding C18-reader-spelling-not-canonical (the suite pins "
            "(string->symbol \"12foo\") => \\x31;2foo, so the encoder cannot simply keep reader spellings). The backslash "
            "defect of the pinned string->symbol was repaired (fix commit b17ac76) and is kept as proved counterexamples "
            "pinned_*. MACHINE LEVEL (closed theorems about executions, not about the heap API): for the concrete machine "
            "(Vm/ConcreteHeap.lean: run_one over the heap with its real free list and symbol table, run_gc = the C03 "
            "collector model) started in a state satisfying the invariant GoodI, "
            "symbols_interned_in_every_reachable_state says that in EVERY reachable state - after any number of "
            "instructions and of collections at any boundaries - two values sitting in acc, a stack cell <= sp, a global "
            "slot, a boxed cell, the car/cdr of a pair, a vector element, an environment slot or a saved continuation "
            "stack that point to symbol cells are equal iff the names are equal "
            "(symbol_addresses_interned_in_every_reachable_state: the same on addresses the collector's roots or an "
            "allocated cell refer to, with eqvSym = decide(names equal)); symbol_production_interns_machine: after any "
            "instruction from a reachable state every allocated symbol cell - so every cell the instruction created - "
            "is the unique allocated cell of its name and the table maps the name to it; put_symbol_interns_concrete / "
            "maybePut_symbol_interns_concrete: the concrete allocator returns the existing cell (heap unchanged) or, "
            "only when no allocated cell holds the name, a fresh one. These follow from goodI_reaches (GoodI is "
            "preserved by each of the 16 opcodes and by run_gc) + Interned. Their hypotheses are those of T03.5/T13.3 "
            "(DESIGN 7.5): ExtLaws/ExtGood (the 142 generic builtins incl. string->symbol, eval's compiler and VPUSH are "
            "parameters that keep the heap invariant - a builtin storing a second cell for a name would violate "
            "ExtGood; that the Rust builtins satisfy it is what the 8-routes exploration tests), SizeBounded, "
            "StackDiscAlong; hypotheses shown satisfiable on the HALT demo state. What is still carried by the "
            "correspondence only: that the reader/compiler (prepare_eval, outside run_one) routes quoted data through "
            "put_cell, i.e. that the initial state of each evaluation satisfies GoodI (CompGood). "
            "Trusted: Lean kernel; axioms propext, Classical.choice, Quot.sound; models tied to the code by differential "
            "testing only; character classes of the scanner (is_alphabetic on Latin-1) are the table of Marwood.Lex, "
            "compared exhaustively with Rust by the C11 stream and here through string->symbol of every scalar value.",
    "technique": "Lean 4 proof (interning invariant => pointer identity iff spelling identity; escape decoder inverts encoder by "
                 "induction) + model-vs-implementation correspondence through the VM + routes x collection-schedules "
                 "exploration against the specification",
}
MODULE = "Marwood.Proofs.C18"
THEOREMS = ["Marwood.Proofs.C18." + t for t in [
    "interned_ptr_eq_iff", "interned_eqv_iff", "production_interns", "maybePut_production_interns",
    "two_productions_eq_iff", "collection_keeps_symbol", "symbol_string_roundtrip",
    "string_symbol_roundtrip_encoder_partial", "string_symbol_roundtrip_plain_partial",
    "peculiar_identifier_not_fixed", "escaped_literal_not_fixed",
    "pinned_backslash_not_inverse", "pinned_backslash_unreadable", "pinned_two_spellings_one_name",
    "symbols_interned_of_goodI", "symbol_addresses_interned_in_every_reachable_state",
    "symbols_interned_in_every_reachable_state", "symbol_production_interns_machine",
    "put_symbol_interns_concrete", "maybePut_symbol_interns_concrete"]]


def nontrivial(req, impl):
    return impl.startswith("ok")


def not_encoder_spelling(y):
    """the spelling differs from what string->symbol builds for its name: an escape (or stray
    backslash) inside, or a first character that is not an initial identifier character"""
    if y is None or y == "":
        return False
    return "\\" in y or not is_initial_identifier(y[0])


@predicate("reader_spelling_not_encoder_spelling")
def reader_spelling_not_encoder_spelling(case, m):
    f = case["request"].split(" ")
    if f[0] == "sym-rt2":
        return not_encoder_spelling(dec_text(f[1]))
    if f[0] == "c18-eq":
        # the two symbols have one name but different spellings, one of them not the encoder's
        if not case["impl"].startswith("ok b0 b1"):
            return False
        # ... and at least one of the two was produced by a READER route (literal, quoted datum, macro template,
        # eval of a datum): two string->symbol productions of one name that are not eq? are a different violation
        # (seed C18d-1), never this finding
        routes = f[4].split("/")[0].split("+") if len(f) > 4 else []
        S2S = ("s2s", "eval-s2s", "re-s2s")
        if len(routes) == 2 and all(r in S2S for r in routes):
            return False
        return not_encoder_spelling(dec_text(f[2])) or not_encoder_spelling(dec_text(f[3]))
    return False


def eq_spec_equal(req, impl, spec):
    # spec: `ok <names equal> <names equal> canon=..`, or `ok <spellings equal> err canon=..` when a
    # spelling has no name (malformed escape); impl: `ok <eq?> <string=? of the names | err>`
    s = spec.split(" ")
    return impl == " ".join(s[:3])


def route_stats(ctx, stream, cases):
    routes, shapes, sched, modes, outcomes = {}, {}, {}, {}, {}
    for req, impl, _ in cases:
        f = req.split(" ")
        if f[0] != "c18-eq" or len(f) < 5:
            continue
        modes[f[1]] = modes.get(f[1], 0) + 1
        tag = f[4].split("/")
        if len(tag) == 4:
            for r in tag[0].split("+"):
                routes[r] = routes.get(r, 0) + 1
            shapes[tag[1]] = shapes.get(tag[1], 0) + 1
            sched[tag[2]] = sched.get(tag[2], 0) + 1
        outcomes[impl] = outcomes.get(impl, 0) + 1
    st = ctx.streams.setdefault(stream, {})
    st.update({"routes": routes, "session_shapes": shapes, "schedules": sched, "model_modes": modes,
               "outcomes": outcomes})


def name_stats(ctx, stream, cases):
    """distribution of the strings / spellings: length, and which special characters occur"""
    lens, feats = {}, {}
    for req, _, _ in cases:
        f = req.split(" ")
        t = dec_text(f[1]) if len(f) > 1 else None
        if t is None:
            continue
        k = "0" if len(t) == 0 else "1" if len(t) == 1 else "2-4" if len(t) <= 4 else "5-8" if len(t) <= 8 else "9+"
        lens[k] = lens.get(k, 0) + 1
        for name, test in (("backslash", "\\" in t), ("whitespace", any(c.isspace() for c in t)),
                           ("delimiter", any(c in "()[]{}\"';`,#" for c in t)),
                           ("digit-or-sign-initial", t[:1] != "" and t[0] in "0123456789+-."),
                           ("control", any(ord(c) < 32 or 127 <= ord(c) < 160 for c in t)),
                           ("non-latin1", any(ord(c) > 255 for c in t)), ("astral", any(ord(c) > 0xFFFF for c in t))):
            if test:
                feats[name] = feats.get(name, 0) + 1
    st = ctx.streams.setdefault(stream, {})
    st.update({"input_lengths": lens, "input_features": feats})


def run_stream(ctx, name, args, spec_equal=None, stats=name_stats):
    cases = gen_cases("print", args, ctx.seed)
    md, sd = correspond(ctx, name, cases, nontrivial, spec_equal=spec_equal)
    settle(ctx, md, sd)
    stats(ctx, name, cases)
    for req, impl, sreq in cases:
        if impl.startswith("panic"):
            report_case(ctx, {"stream": name, "request": req, "impl": impl, "model": None,
                              "spec_request": sreq, "spec": "a value or an error"})


def streams(ctx):
    q = ctx.quick()
    for path in corpus_files("C18", "*.txt"):
        run_stream(ctx, "corpus", ["sym-corpus", path])
    run_stream(ctx, "string->symbol-spelling", ["sym-enc", 20000 if q else 300000])
    run_stream(ctx, "symbol->string-of-spellings", ["sym-dec", 20000 if q else 300000])
    run_stream(ctx, "symbol->string-after-string->symbol", ["sym-rt", 20000 if q else 300000])
    run_stream(ctx, "every-scalar-value-through-string->symbol", ["sym-chars", "quick" if q else "full"])
    ctx.streams["every-scalar-value-through-string->symbol"]["exhaustive"] = not q
    run_stream(ctx, "string->symbol-after-symbol->string", ["sym-rt2", 10000 if q else 150000])
    run_stream(ctx, "routes-x-collection-schedules", ["sym-eq", 1200 if q else 16000],
               spec_equal=eq_spec_equal, stats=route_stats)


def run(ctx):
    return standard_run(
        ctx, MODULE, THEOREMS, ["print"], streams,
        rule="strings over Unicode (empty, delimiters, backslash, digit/sign-initial, whitespace, controls, astral; every "
             "scalar value in initial and subsequent position in the thorough tier) through string->symbol, "
             "symbol->string and both compositions, evaluated by the VM on argument values; spellings: reader "
             "symbols (plain, peculiar, number-like, escaped), encoder outputs, malformed escapes; pairs of symbols "
             "produced by 8 routes x {same name, different/near-miss names, same spelling, reader spelling vs "
             "string->symbol of its name} x session shapes {two evaluations, forced collections and garbage between, "
             "within one evaluation, first production dropped and swept then re-interned} x schedules {none, every "
             "1/2/3/5/7/16/50 instructions}: eq? and string=? of the names vs heap model and vs 'eq? iff names equal'; "
             "a swept symbol must leave the table (hook). Non-trivial = a value came back; distinct by request text",
        trusted_extra=["that every production route ends in Heap::put / maybe_put of the spelling is observed "
                       "(exploration over routes), not proved"])


# ROUND 8: the Ext laws are theorems for a table of real builtins (lib/props/procinv_util.py, Lemmas/ListExtC18.lean)
import procinv_util as _pv8
MODULE = _pv8.listext_module("C18")
THEOREMS = THEOREMS + [t for t in _pv8.LISTEXT_LAWS + _pv8.LISTEXT["C18"] if t not in THEOREMS]
META["note"] = META["note"] + _pv8.LISTEXT_NOTE
