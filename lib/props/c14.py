"""C14 — list and vector procedures match their specification and preserve identity."""
from pipeline import *
import store_util

META = {
    "text": "Lean 4 theorems about an executable model of the heap (pairs as mutable cells with addresses, "
            "vectors/strings as objects with identity) and of list.rs, vector.rs, vm/vector.rs, compare.rs, "
            "list? and the Scheme-defined library procedures of prelude.scm: for cons car cdr set-car! set-cdr! "
            "list length append reverse list-tail list-ref memq/memv/member assq/assv/assoc list? vector make-vector "
            "vector-length/-ref/-set!/-fill! vector->list list->vector vector-copy (start) vector-copy! — result on "
            "every valid argument in terms of abstract list/vector views, `err` for every invalid index / improper "
            "list, frame (nothing that existed changes except the one addressed cell or vector), identity (element "
            "references are preserved; append shares its last argument; reverse/list/append/vector->list build new "
            "pairs; vector-ref of vector-set! is the stored value itself; vector-copy! reads the original source "
            "also when it overlaps the target). The model is tied to the Rust code by random operation sequences "
            "(setup 3-7 ops + up to 12 ops over a pool with shared tails, improper lists, nested and empty vectors; "
            "indices -1..len+1 and 2^63, 2^64) executed as Scheme text in a real Vm in release AND debug profile, "
            "reading back every pool object after every operation as a graph with sharing labels; the same "
            "sequences are compared against an independent reference store with R7RS meanings (property oracle). "
            "map and for-each (Scheme definitions of prelude.scm, fix 71c917c: at least one list) have SPECIFICATION theorems, "
            "parametric in the procedure argument as a store transformer g under an explicit callee law (MapCallee g M I: "
            "in every store satisfying a caller-chosen invariant I that survives allocation, g returns on each argument "
            "tuple it is given, writes of what existed only the cells M — M below the heap size at the call and off the "
            "spines of the input lists — and re-establishes I): map_spec / forEach_spec — for proper lists l1..lk (k>=1) "
            "with element references as1..ask, m = min |asi| and fuel >= m+k+2 the answer is ok; the m calls happen in list "
            "order with the store threaded left to right (MapRun: a fold over j, between two calls the store only grows by "
            "map's own pairs), the j-th call receives the references of the j-th elements themselves (map_args_identity, "
            "map_tuples_get/_length/_single: pointers, not copies), the result of map is a proper list ALL of whose pairs "
            "were allocated during the call (fresh, shares nothing) whose j-th element denotes the value the j-th call "
            "returned, for-each returns the unspecified value, the input lists have the same views afterwards and of the "
            "cells that existed only M may differ (Keeps M; map_spec_pure / forEach_spec_pure: Extends, nothing changed at "
            "all, for callees that only allocate); map_improper_err — when the improper tail is reached before any list "
            "ends both answer the `expected pair` error (after the calls for the elements before it; when a proper list "
            "ends first the tail is never inspected and the answer is ok, as in the Rust VM); map_callee_failure — a "
            "callee that fails at call j (error, panic, no return) makes map/for-each fail the same way, so the order of "
            "calls is observable; map_spec_wf — well-formedness under C06's CalleeLaw. equal?: "
            "for every store and every two values that have an abstract tree view (View s v t, an inductive relation "
            "without fuel unfolding pairs, vectors, strings by content and the scalars booleans / characters / () / exact "
            "integers / symbols by name into an address-free tree; defined exactly on acyclic data, sharing allowed) "
            "equal? returns #t iff the two views are the same tree (equal_iff_same_view), i.e. R7RS equal? on trees "
            "(Tree.equiv: same shape, strings by content, leaves eqv?, the leaf relation proved to be the model's "
            "eqvCells on scalar cells and equality of the scalar); member / assoc return the first element / entry "
            "whose view is the key's view (member_view, assoc_view); equal? after its repair (dfd9e81, terminates on "
            "circular structure) is proved to give the outcome the pinned function gave wherever that one returns.",
    "note": "Trusted: Lean kernel; axioms propext, Classical.choice, Quot.sound; the hand-written model Marwood.Store is "
            "tied to the Rust code by differential testing only; prelude.scm definitions are transcribed by hand; the "
            "library procedures of prelude.scm are REGENERATED on every run as data (translate/prelude_procs.py -> "
            "Gen.PreludeProcs.procs) and the theorems prelude_source_* / prelude_sources_agree prove that each modelled "
            "procedure (caar list length memq memv member assq assv assoc any? map1 map for-each) is still the top-level "
            "form its model was transcribed from (Store.Prelude.sourceOf, committed) — a changed library procedure "
            "breaks a proof, the op-sequence correspondence exhibits the behavioural difference; moreover the theorems "
            "prelude_image_* prove, for every fuel, store and argument, that each hand-written model (length, mem x3, "
            "ass x3, anyNull, map1, map/mapAll, for-each/forEachAll, list; caar = car.car) EQUALS the image of the "
            "regenerated definition under the explicitly defined interpretation function of "
            "lean/Marwood/Store/PreludeInterp.lean (parseDef: Datum -> first-order syntax; evalE/interp: operands left to "
            "right, test true unless #f, lexical operator resolution, one fuel unit per call of a Scheme-defined "
            "procedure) — so the transcription itself is no longer trusted; trusted instead: that ~150-line interpreter's "
            "reading of if/cond/and/or/begin/letrec/apply (cond/and/or are prelude MACROS whose expansion is C01/C17's "
            "business) and its builtin table `prims`; the whitespace-normalised "
            "source text is additionally hash-checked on every run (second line of defence, also covers `void`); allocation is modelled as append (no free list/GC: C03); "
            "numbers are exact integers only IN THE STORE MODEL and the store streams (c14-sequences-*); the numeric leaf test "
            "of eqv?/eq?/equal?/memv/member/assv/assoc in every representation (fixnum, bignum, Ratio<i32>, double) is "
            "covered by the second proof module Proofs/C14Eqv.lean and the stream `eqv-numbers` (see the last paragraph "
            "of this note); circular structures are outside the property and never generated — except for "
            "`length`, whose repaired definition (fix 08d0569: two cursors + accumulator) has the extra clause "
            "length_cyclic_err / length_total: on every well-formed store a cdr chain that never ends is answered by the "
            "`expected pair` error within |cells|+2 units of fuel, never `diverge` (proof only; cyclic inputs are exercised by "
            "C06); length_ok / length_err keep their statements (fuel bound now |as|/2+1 < fuel: one unit for length, one per "
            "call of its local count, which advances two pairs); `(map f)` / `(for-each f)` without a list are the arity error "
            "in model and code since fix 71c917c (map_without_list; prelude_image_map / _forEach cover the empty list of "
            "lists too); "
            "map / for-each specification (Lemmas/StoreMap{Defs,Steps,Main,Plan}.lean, core Lean only): closed theorems about "
            "Store.map / Store.forEach for EVERY callee g, store, fuel and argument lists under the stated hypotheses; what is "
            "assumed and not proved: the callee law MapCallee (satisfiable: mapCallee_car, mapCallee_cons, and the writing "
            "callee exSetCar9 = (lambda (p) (set-car! p 9)) with M = {the element}, all instantiated on exStore), i.e. a "
            "callee that redirects a pair of a list being traversed, writes a cell it allocated in an earlier call, or "
            "escapes (call/cc) is outside the theorems; a by-value pair or a symbol/string/vector immediate as list argument "
            "is outside SpineOff (stack values are references or scalar immediates); the Scheme closure passed as procedure "
            "argument in the real VM is tied to `g` only through the builtin callees of the op-sequence correspondence "
            "(car cdr cons list vector length reverse equal? set-car! set-cdr! vector-fill! vector-set!); the mixed case "
            "(some list improper but a proper one ends first) is map_plan + plan_ok in Lemmas/StoreMapPlan.lean, not "
            "re-exported; "
            "`equal?` (fix dfd9e81: compare.rs threads a set of pairs of heap locations whose comparison has begun; the model "
            "Store.equalSeen carries it as a list, the functions before the repair are kept as Store.Pinned.equal / "
            "comparePair / compareVector): equal_agrees_pinned — for every store and arguments, if the pinned equal returns "
            "with fuel n (a boolean, an error or a panic; it fails to return for every n exactly when the comparison runs "
            "round a cycle for ever) the repaired one has the same outcome with every fuel >= n (Lemmas/EqualAgree.lean: fuel "
            "monotonicity of the pinned loops, least fuel of an in-progress pair of locations; core Lean only); "
            "equalB_agrees_pinned is the builtin's form; member / assoc call the repaired equal (prelude_image_member / "
            "_assoc unchanged); circular inputs for equal? are exercised by C06 (equal_total there); "
            "equal? AGAINST THE SPECIFICATION (closed theorems, no hypothesis on the store beyond the two views): "
            "Spec/StoreTree.lean defines Atom (bool char nil num sym), Tree (leaf | str chars | pair | vec), the mutual "
            "inductive View / ViewAll (no fuel; a derivation is finite, so only acyclic data has a view; view_unique: it is "
            "a function of the value), Tree.equiv (R7RS equal? on trees; tree_equiv_iff: it is equality of trees; "
            "leaf_eqv_is_eqvCells: on two scalar cells the model's eqvCells computes the leaf relation Atom.eqv; "
            "leaf_eqv_iff: that is equality of the scalar for symbols, booleans, (), characters, exact integers; strings "
            "compare by content) and Tree.size. equal_same_view_equiv / equal_iff_same_view: View s l tl, View s r tr, "
            "2*size tl <= fuel => equal fuel s l r = ok (Tree.equiv tl tr) = ok (decide (tl = tr)) — proved for "
            "Pinned.equal / comparePair / compareVector by induction on the fuel (Lemmas/EqualViewMain.pinned_view; "
            "pinned_equal_iff_same_view) and transferred with equal_agrees; equal_iff_same_view_total: the same for every "
            "fuel >= equalFuel s on a Shaped store and two values (equal_total + fuel monotonicity of the repaired loops, "
            "seen_step) — needed because a DAG unfolds into a tree exponentially larger than the store while the fuel is a "
            "nesting depth; equalB_iff_same_view is the builtin's form. member_view / assoc_view instantiate mem_spec / "
            "ass_spec at the test equal?: first sublist / first entry (the entry itself) whose car / key has the view of "
            "the searched object, #f when none on a proper list, entries that are not pairs skipped (EntryKey). Scalars "
            "outside the property's quantifier (void, undefined, builtin procedure values, inexact numbers) have no view. "
            "Non-vacuity: exTreeStore holds (1 #(2 \"ab\") x) built two ways (boxed vs immediate vector slot, two string "
            "objects) and (1 #(2) x): ex_view1/2/3, equal? = #t / #f by the theorem. "
            "readings of R7RS 'it is an error' cases are listed at the top of lean/Marwood/Spec/Store.lean "
            "(lazy traversal for memq..assoc/list-tail/list-ref/map, non-pair alist entries skipped, list-tail needs "
            "a pair or () as first argument); optional range arguments of vector->list / vector-fill! are not "
            "implemented by marwood (arity error) and are not generated; vector-copy's end argument is excluded by the "
            "property; theorems quantify over explicit fuel > list length, the driver passes a fuel derived from the "
            "heap size. "
            "NUMBERS UNDER eqv? (fix 22cce75; Num/Eqv.lean, Spec/NumEqv.lean, Lemmas/NumEqv.lean, Proofs/C14Eqv.lean — a "
            "second proof module because it rests on C09's Cmp.eq_spec, whose lemma file imports single Mathlib modules, "
            "while Proofs/C14.lean is core-only): Eqv.eqvNum is the number arm of Vm::eqv written arm by arm (two doubles: "
            "same bits; a double and anything else: #f; two exact numbers: C09's model Cmp.eq of PartialEq for Number, "
            "representation pair by representation pair); NumSpec.eqvSpec is R7RS 6.1 (same exactness; both exact: same "
            "value in Q; both inexact: same bit pattern). CLOSED theorems, no guard, for all well-formed numbers in all 16 "
            "representation pairs: eqvNum_iff_spec (model = spec; the `false` that number.rs answers for an integer outside "
            "i32 against a Ratio<i32> is correct because a reduced ratio that is an integer lies inside i32 — no "
            "representation pair deviates), eqvNum_eq_oracle (= the executable oracle eqvSpecB the driver runs), "
            "eqvNum_trans, eqvNum_representation_independent / eqvNum_exact_value; without any well-formedness hypothesis: "
            "eqvNum_exactness, eqvNum_mixed, eqvNum_refl (NaN included: same bits), eqvNum_symm, eqvNum_inexact; "
            "eqvNum_inexact_iff_equal_and_same_sign (Lemmas/NumEqvBits.lean): for two well-formed doubles that are not NaN "
            "`same bits` is `= holds (C09's model of == on doubles, IEEE equality of the exactly decoded values) and the "
            "sign bits agree` — the decoder Fl.classify is injective up to 0.0 / -0.0 — which is R7RS's wording "
            "`numerically equal and indistinguishable` as far as the decoded value and the sign can express it; literal "
            "witnesses eqv_zero_negzero, eqv_exact_inexact, eqv_half_and_ratio; eqvNumPinned_violates: the arm before the "
            "fix (numeric equality) answers #t on (2, 2.0), which the spec forbids. Lift: NumSpec.NTree (number | () | pair "
            "| vector) with NTree.equal parametrised by the leaf test, memTest/assTest for a one-element list: equal_num_leaf, "
            "equal_num_in_list_and_vector, mem_ass_num (each of the eight forms of the stream reduces to eqvNum x y), "
            "equal_num_tree_refl, equal_num_leaf_spec; atom_num_eqv_is_eqvNum: the store model's integer leaf test Atom.eqv "
            "is eqvNum on fixnum/bignum carriers. NOT proved: that Store.eqvCells / Store.equal extended with inexact "
            "leaves would compute NTree.equal (the store model's VCell.num stays Int; View/Tree.equiv and the 113 theorems "
            "above are unchanged); the decoding of doubles plays no role here (bit patterns are compared as naturals). "
            "R7RS leaves (eqv? NaN NaN) unspecified: eqvSpec reads it as `same NaN`, the stream's oracle answers `outside "
            "nan-nan` for such pairs and accepts any eight booleans (model correspondence still exact: same bits). eq? on "
            "numbers is unspecified by R7RS: reported as information (stream statistic eq-differs-from-eqv; in marwood eq? "
            "is the same Rust function as eqv?), judged only by eq? => eqv?. "
            "Stream eqv-numbers (harness num eqv): operands are injected as self-evaluating constants of the intended "
            "representation (plus 40 operands produced by the VM's own reader/arithmetic — (/ 4 2) -> ratio 2/1, bignum "
            "arithmetic that cancels -> bignum 2, -0.0, 1e400 -> +inf … — held in global variables and read back to learn "
            "their representation); per pair ONE evaluation of (list (eqv? x y) (equal? x y) (equal? (list 1 x) (list 1 y)) "
            "(equal? (vector x) (vector y)) (if (memv x (list y)) #t #f) (if (member …)) (if (assv x (list (cons y 1))) …) "
            "(if (assoc …)) (eq? x y) (= x y)) on the real VM.",
    "technique": "Lean 4 proof (heap model vs abstract list/vector views, for all stores and arguments) + randomized "
                 "operation-sequence correspondence model-vs-implementation and reference-store-vs-implementation",
}
MODULE = ["Marwood.Proofs.C14", "Marwood.Proofs.C14Eqv"]
P = "Marwood.Proofs.C14."
THEOREMS = [P + t for t in """vectorRef_ok vectorRef_err_range vectorRef_err_index vectorSet_ok vectorSet_err_range
vectorSet_err_index vectorRef_vectorSet vectorFill_ok vectorLength_ok vectorLength_err vector_ok makeVector_ok
makeVector_err vectorCopy_ok vectorCopy_all vectorCopy_err_range vectorCopyBang_ok vectorCopyBang_ok_start
vectorCopyBang_ok_whole vectorCopyBang_err cons_ok car_ok cdr_ok car_err cdr_err car_cons setCar_ok setCdr_ok
setCar_err setCdr_err setCar_visible reverse_ok reverse_err list_ok vectorToList_ok listToVector_ok listToVector_err
length_ok length_err length_cyclic_err length_total map_without_list map_spec forEach_spec map_spec_pure
forEach_spec_pure map_tuples_length map_tuples_get map_tuples_single map_args_identity map_improper_err
map_callee_failure map_spec_wf mapCallee_exSetCar9 ex_alist isList_spec listTail_ok listTail_err listTail_err_index listRef_ok listRef_err eqv_key
eqv_symbol mem_spec ass_spec append_ok append_err
prelude_source_caar prelude_source_list prelude_source_length prelude_source_memq prelude_source_memv
prelude_source_member prelude_source_assq prelude_source_assv prelude_source_assoc prelude_source_anyP
prelude_source_map1 prelude_source_map prelude_source_forEach prelude_sources_agree prelude_modelled_defined
prelude_mem_family
prelude_image_length prelude_image_memq prelude_image_memv prelude_image_member prelude_image_assq
prelude_image_assv prelude_image_assoc prelude_image_anyNull prelude_image_map1 prelude_image_map
prelude_image_forEach prelude_image_caar prelude_image_list equal_agrees_pinned equalB_agrees_pinned
view_unique leaf_eqv_is_eqvCells leaf_eqv_iff tree_equiv_iff equal_same_view_equiv equal_iff_same_view
equal_iff_same_view_total equalB_iff_same_view pinned_equal_iff_same_view member_view assoc_view
ex_view1 ex_view2 ex_view3 exTree_size
eqvNum_iff_spec eqvNum_eq_oracle eqvNum_exactness eqvNum_refl eqvNum_symm eqvNum_trans
eqvNum_representation_independent eqvNum_exact_value eqvNum_inexact eqvNum_inexact_iff_equal_and_same_sign
eqvNum_mixed eqv_zero_negzero
eqv_exact_inexact eqv_half_and_ratio eqvNumPinned_violates atom_num_eqv_is_eqvNum equal_num_leaf
equal_num_in_list_and_vector equal_num_tree_refl mem_ass_num equal_num_leaf_spec""".split()]

# sha256[:16] of the whitespace-normalised text of the prelude definitions transcribed in
# lean/Marwood/Store/Prelude.lean (and ListOps.list for `list`)
PRELUDE_HASHES = {
    "void": "d330565d8086fa4f", "list": "1f41e1548aa0a901", "length": "0d305a98172a22bb",
    "memq": "1098d263c38980bc", "memv": "2bb1fbe2a677a8a9", "member": "4c15d01b0749c1e0",
    "assq": "5bce373d2e2f82b9", "assv": "45160c0d81306f9e", "assoc": "1eb3c5d72a70c0cc",
    "caar": "4563d3d567626967", "any?": "402f887b896dfdb1", "map1": "c200aac41ca27ade",
    "map": "73b03e403869e26c", "for-each": "df7d036dd9b91399",
}


def nontrivial(req, impl):
    # a sequence is non-trivial when at least three of its operations succeeded and the last
    # rendered state contains an aggregate (a pair, a vector) that is referenced more than once
    steps = impl[3:].split("|")
    oks = sum(1 for s in steps if s.startswith("ok"))
    last = steps[-1] if len(steps[-1]) > 8 else (steps[-2] if len(steps) > 1 else "")
    import re
    shared = re.search(r"(?<![(\[{])#\d+", last) is not None
    return oks >= 3 and shared


def op_stats(ctx, stream, cases):
    ops, errs = {}, {}
    for req, impl, _ in cases:
        toks = req.split(" ")[1:]
        steps = impl[3:].split("|")
        for t, s in zip(toks, steps):
            name = t.split(",")[0]
            ops[name] = ops.get(name, 0) + 1
            if not s.startswith("ok"):
                errs[name] = errs.get(name, 0) + 1
    ctx.streams[stream]["ops"] = ops
    ctx.streams[stream]["ops_failed"] = errs
    ctx.streams[stream]["steps"] = sum(ops.values())


def corpus_cases(prop, binname, profile="release"):
    """corpus/<prop>/*.ops: one sequence per line (`c14 op op …`), replayed through the harness."""
    out = []
    d = os.path.join(VERIF, "corpus", prop)
    for p in sorted(glob.glob(os.path.join(d, "*.ops"))):
        for line in open(p):
            line = line.strip()
            if not line or line.startswith("#"):
                continue
            w = line.split(" ")
            r = subprocess.run([harness_bin(binname, profile), "replay", w[0]] + w[1:],
                               capture_output=True, text=True, env=ENV)
            for l in r.stdout.split("\n"):
                if l:
                    f = l.split("\t")
                    out.append((f[0], f[1], f[2] if len(f) > 2 else None))
    return out


def eqv_core(resp):
    """the eight specified truth values of an `eqv` answer (tokens with `:` are informational)"""
    return " ".join(t for t in resp.split(" ") if ":" not in t)


def eqv_info(resp, key):
    for t in resp.split(" "):
        if t.startswith(key + ":"):
            return t[len(key) + 1:]
    return None


def eqv_model_equal(req, impl, model):
    return eqv_core(impl) == model


def eqv_spec_equal(req, impl, spec):
    # R7RS 6.1: the eight forms are decided by eqv? on the two numbers (NumSpec.eqvSpecB); eqv? of two NaNs is
    # unspecified (`outside nan-nan`: any eight booleans are accepted, but not an error or a panic);
    # eq? on numbers is unspecified except that eq? => eqv?
    if not impl.startswith("ok b"):
        return False
    if spec.startswith("outside"):
        return True
    if eqv_core(impl) != spec:
        return False
    return not (eqv_info(impl, "eq") == "b1" and spec.split(" ")[1] == "b0")


def eqv_nontrivial(req, impl):
    # eqv? holds, or the operands are numerically equal (=) and eqv? tells them apart
    return "b1" in impl


def eqv_stats(ctx, stream, cases):
    st = ctx.streams[stream]
    kinds = {}
    classes = {"eqv-true": 0, "eqv-true-other-representation": 0, "numerically-equal-not-eqv": 0,
               "eq-differs-from-eqv": 0, "nan-nan": 0}
    for req, impl, _ in cases:
        t = req.split(" ")
        k = t[1][:3] + "/" + t[2][:3]
        kinds[k] = kinds.get(k, 0) + 1
        holds = impl.startswith("ok b1")
        if holds:
            classes["eqv-true"] += 1
            if t[1] != t[2]:
                classes["eqv-true-other-representation"] += 1
        if not holds and eqv_info(impl, "=") == "b1":
            classes["numerically-equal-not-eqv"] += 1
        if impl.startswith("ok b") and eqv_info(impl, "eq") != impl.split(" ")[1]:
            classes["eq-differs-from-eqv"] += 1
        if t[1].startswith("flo:7ff8") or t[1].startswith("flo:fff8") or t[1] == "flo:7ff0000000000001":
            if t[2].startswith("flo:7ff8") or t[2].startswith("flo:fff8") or t[2] == "flo:7ff0000000000001":
                classes["nan-nan"] += 1
    st["representation_pairs"] = kinds
    st["classes"] = classes


def eqv_stream(ctx):
    """C14 leaf test on numbers: eqv?/eq?/equal?/memv/member/assv/assoc on pairs of numbers in every representation
    (fix 22cce75), implementation vs Eqv.eqvNum (model of the number arm of Vm::eqv) and vs NumSpec.eqvSpecB (R7RS 6.1)"""
    ok, log = build_harness(["num"])
    if not ok:
        report_broken(ctx, "harness-build-num", log[-3000:])
        return
    corpus = os.path.join(VERIF, "corpus", "C14", "eqv-numbers.txt")
    if os.path.exists(corpus):
        cases = gen_cases("num", ["corpus", corpus], ctx.seed)
        md, sd = correspond(ctx, "eqv-numbers-corpus", cases, eqv_nontrivial, spec_equal=eqv_spec_equal,
                            model_equal=eqv_model_equal)
        settle(ctx, md, sd)
    #                 NI  NR  NF  RATSTEP STRIDE NRANDOM
    args = ["eqv", 4, 4, 10, 8, 3, 500] if ctx.quick() else ["eqv", 40, 40, 200, 2, 1, 20000]
    cases = gen_cases("num", args, ctx.seed)
    md, sd = correspond(ctx, "eqv-numbers", cases, eqv_nontrivial, spec_equal=eqv_spec_equal,
                        model_equal=eqv_model_equal)
    eqv_stats(ctx, "eqv-numbers", cases)
    settle(ctx, md, sd)


def streams(ctx):
    eqv_stream(ctx)
    bad = store_util.check_prelude(PRELUDE_HASHES)
    for name, want, got in bad:
        report_broken(ctx, "prelude-correspondence",
                      "prelude.scm definition of %s changed (hash %s, modelled %s): "
                      "lean/Marwood/Store/Prelude.lean no longer describes it" % (name, got, want))
    ok, log = build_harness(["store"], "debug")
    if not ok:
        report_broken(ctx, "harness-build-debug", log[-3000:])
    for profile in ("release", "debug"):
        cases = corpus_cases("C14", "store", profile)
        if cases:
            md, sd = correspond(ctx, "c14-corpus-" + profile, cases, nontrivial)
            settle(ctx, md, sd)
    n = 25000 if ctx.quick() else 150000
    cases = gen_cases("store", ["c14", n], ctx.seed)
    md, sd = correspond(ctx, "c14-sequences-release", cases, nontrivial)
    op_stats(ctx, "c14-sequences-release", cases)
    settle(ctx, md, sd)
    if ok:
        n = 5000 if ctx.quick() else 30000
        cases = gen_cases("store", ["c14", n], ctx.seed + 1000, profile="debug")
        md, sd = correspond(ctx, "c14-sequences-debug", cases, nontrivial)
        op_stats(ctx, "c14-sequences-debug", cases)
        settle(ctx, md, sd)


def run(ctx):
    return standard_run(
        ctx, MODULE, THEOREMS, ["store", "num"], streams,
        rule="eqv-numbers: pairs of numbers in every representation that can carry them — boundary integers (0, 2^31, "
             "2^32, 2^53, 2^63, 2^64 +-2 and small ones) as fixnum / bignum / integer-valued ratio, boundary ratios, "
             "doubles (+-0.0, +-1, +-0.5, 0.1, 2^31, 2^32, 2^53, 2^63, 2^64, MAX/MIN, MIN_POSITIVE, subnormals, +-inf "
             "and their 2-ulp neighbourhoods, four NaN payloads): all pairs of that core palette (every third pair in "
             "the quick tier); every member of the larger C08/C09 palette (random integers/ratios/doubles included) "
             "against every other carrier of its value, the five doubles around it, its successor and its negation, "
             "both orders; random pairs (half of them the same value in another representation); 40x40 operands built "
             "by the VM's reader and arithmetic; each pair: ten forms on the real VM vs Eqv.eqvNum vs NumSpec.eqvSpecB; "
             "non-trivial = eqv? or = holds. Store streams: random operation sequences: 3-7 setup operations (list, cons onto an existing list or a scalar, "
             "vector, make-vector, alist, append) followed by 1-12 operations drawn uniformly from the 31 procedures of "
             "the property, arguments mostly of the right kind (85-95%) chosen among pool variables and scalar literals "
             "(symbols, booleans, '(), characters of 1-4 bytes, small integers), indices -1..len+1 plus len+5, 2^63-1, "
             "2^63, 2^64-1, 2^64, -2^63 and non-numbers; map/for-each with builtin callees (car cdr cons list vector "
             "length reverse equal? set-car! set-cdr! vector-fill! vector-set!); mutations that would close a cycle are "
             "replaced; each operation is (define p<k> (proc arg ...)) evaluated with eval_text in a real Vm (release "
             "and debug profile, a VM serves 25 sequences so collections happen), after every operation every pool "
             "variable is read back from the global environment/heap and rendered with sharing labels; "
             "implementation vs Lean model and vs the R7RS reference store; non-trivial = at least 3 successful "
             "operations and a final state in which some pair/vector is referenced twice; distinct by request text",
        trusted_extra=["reference store Marwood.Spec (RStore) used as property oracle: independent of the heap model, "
                       "its reading of R7RS is documented in lean/Marwood/Spec/Store.lean",
                       "prelude.scm library procedures: regenerated as data and proved equal to the recorded transcription "
                       "source (Lemmas/PreludeAgree.lean), and every model proved equal to the image of the regenerated "
                       "definition under Store/PreludeInterp.lean (Lemmas/PreludeInterp*.lean); trusted: that "
                       "interpretation function; source hash kept as a second check"])
