"""Helpers shared by the PRINT area plugins (C10, C18)."""
import glob, os, re
from fractions import Fraction
from pipeline import *


def dec_text(s):
    if s == "-":
        return ""
    try:
        return "".join(chr(int(x)) for x in s.split(","))
    except ValueError:
        return None


def canon_tok(w):
    """wire token -> the token with numbers as value + exactness (lean: Driver.Reader.canonNum)"""
    if w.startswith("fix:") or w.startswith("big:"):
        return "exact:%d/1" % int(w[4:])
    if w.startswith("rat:"):
        n, d = w[4:].split("/")
        fr = Fraction(int(n), int(d))
        return "exact:%d/%d" % (fr.numerator, fr.denominator)
    if w.startswith("flo:"):
        return "inexact:" + w[4:]
    return w


def canon_datum(enc):
    return " ".join(canon_tok(w) for w in enc.split(" "))


# ---- structure of a wire datum (for the input distribution printed into the evidence)

def _kind(w):
    for p, k in (("b0", "bool"), ("b1", "bool"), ("nil", "nil"), ("fix:", "fixnum"), ("big:", "bignum"),
                 ("rat:", "rational"), ("flo:", "double"), ("pair", "pair"), ("str:", "string"),
                 ("sym:", "symbol"), ("vec", "vector"), ("cont", "opaque"), ("macro", "opaque"),
                 ("proc", "opaque"), ("undef", "opaque"), ("void", "opaque")):
        if w.startswith(p):
            return k
    if w.startswith("c"):
        return "char"
    return "other"


def datum_stats(tokens, kinds, depths):
    """walk one prefix-encoded datum; count node kinds; record the nesting depth (a list along the
    cdr spine is one level, like the generator's depth)"""
    pos = [0]

    def node(in_cdr):
        w = tokens[pos[0]]
        pos[0] += 1
        k = _kind(w)
        kinds[k] = kinds.get(k, 0) + 1
        if k == "pair":
            da = node(False)
            dd = node(True)
            return max(da + 1, dd) if in_cdr else max(da + 1, dd, 1)
        if k == "vector":
            cnt = int(w[3:])
            d = 1
            for _ in range(cnt):
                d = max(d, node(False) + 1)
            return d
        return 0

    d = node(False)
    depths[d] = depths.get(d, 0) + 1


def record_distribution(ctx, stream, cases, datum_from_request):
    kinds, depths = {}, {}
    for req, _, _ in cases:
        toks = datum_from_request(req)
        if toks:
            try:
                datum_stats(toks, kinds, depths)
            except Exception:
                pass
    st = ctx.streams.setdefault(stream, {})
    st["input_kinds"] = dict(sorted(kinds.items()))
    st["input_depths"] = {str(k): v for k, v in sorted(depths.items())}


def corpus_files(prop, pattern):
    return sorted(glob.glob(os.path.join(VERIF, "corpus", prop, pattern)))


# ---- symbol spellings

def is_initial_identifier(c):
    o = ord(c)
    if o > 0xFF:
        return True
    return c.isalpha() or c in "!$%&*/\\:<=>?^_~"


NUM_RE = re.compile(r"^[+-]?(\d+|(\d+\.\d*|\.\d+|\d+)([eE]\d+)?)$")
RAT_RE = re.compile(r"^[+-]?\d+/(\d+)$")


def spelled_as_decimal_number(s):
    if NUM_RE.match(s):
        return True
    m = RAT_RE.match(s)
    return bool(m) and int(m.group(1)) != 0
