"""Helpers of the Scope area (C02): run several harness shards in parallel."""
import os, subprocess, tempfile, time
from pipeline import ENV, harness_bin


def gen_parallel(binname, arglists, seed, timeout=3000):
    """Run the generator once per argument list, all at once; returns one case list per run
    (same shape as pipeline.gen_cases)."""
    return collect(binname, start(binname, arglists, seed), timeout)


def start(binname, arglists, seed):
    """Start one generator process per argument list. Output goes through temporary files, not
    pipes, so that no process waits for its output to be consumed."""
    env = dict(ENV, VERIF_SEED=str(seed))
    runs = []
    for args in arglists:
        out = tempfile.TemporaryFile(mode="w+")
        err = tempfile.TemporaryFile(mode="w+")
        p = None
        for attempt in range(60):
            try:
                p = subprocess.Popen([harness_bin(binname)] + [str(a) for a in args], stdout=out, stderr=err,
                                     text=True, env=env)
                break
            except (FileNotFoundError, PermissionError, OSError):
                # the binary is being relinked by a concurrent `cargo build` of another check
                time.sleep(1)
        if p is None:
            raise RuntimeError("harness binary %s not available" % harness_bin(binname))
        runs.append((args, p, out, err))
    return runs


def collect(binname, runs, timeout=3000):
    result = []
    for args, p, out, err in runs:
        p.wait(timeout=timeout)
        if p.returncode != 0:
            err.seek(0)
            raise RuntimeError("harness %s %s failed rc=%s: %s" % (binname, args, p.returncode, err.read()[:2000]))
        out.seek(0)
        cases = []
        for line in out:
            line = line.rstrip("\n")
            if not line:
                continue
            f = line.split("\t")
            cases.append((f[0], f[1] if len(f) > 1 else "", f[2] if len(f) > 2 else None))
        out.close()
        err.close()
        result.append(cases)
    return result
