"""C09 — numeric comparison is one consistent total order across representations."""
from pipeline import *
from num_util import *

META = {
    "text": "Lean 4 theorems over a model of PartialEq/PartialOrd for Number (all 16 representation pairs, doubles "
            "decoded exactly from their bit pattern), num_comp, min, max, zero? positive? negative?: for all "
            "well-formed non-NaN numbers = holds iff the values in Q+-inf are equal, partial_cmp is the three-way "
            "comparison of the values (so exactly one of < = > holds, <= >= are consistent with them, = and < are "
            "transitive), the variadic procedures are the conjunction over adjacent pairs, min/max return an "
            "argument that no argument is below/above, and the sign predicates compare with 0. The model is tied to "
            "number.rs/builtin/number.rs by comparing every answer over the C08 palette extended with doubles "
            "(neighbours of every exact member, 2^53, 2^63, +-0.0, subnormals, +-inf) squared, through Number directly "
            "and through the Scheme procedures; the implementation is also judged against exact comparison.",
    "note": "Trusted: Lean kernel; axioms propext, Classical.choice, Quot.sound; the hand-written model is tied to the "
            "Rust code by differential testing only; Ratio::cmp (continued-fraction comparison) and BigRational "
            "comparison are modelled by the order of the cross products / of the values; the decoding of a double's "
            "bit pattern into a rational (Fl.classify / Fl.magRat / Fl.toRat?) is a definition (sign, biased exponent, "
            "significand with the hidden bit, subnormals) and is not proved against the text of IEEE-754; what IS "
            "proved about it (Marwood.Proofs.C08.rnd_exact_on_doubles, rnd_monotone, rnd_relative_error, "
            "Lemmas/NumRnd*.lean) is its consistency with the pure round-to-nearest-even function Fl.rnd of "
            "Num/F64.lean: the decoded value of every finite double rounds back to a double with that same value, "
            "rounding then decoding is monotone, and in the normal range the decoded result is within 2^-53 relative of the "
            "rational that was rounded — statements about the pure implementation; that the hardware's f64 comparison (and "
            "whatever number.rs does with a mixed exact/inexact pair) agrees with comparing these decoded values is "
            "validated by the comparison streams on every pair of the palette, not proved. "
            "The comparison theorems themselves never use Fl.rnd: every representation pair is compared through the "
            "exact decoded values. NaN operands are outside the property (model correspondence only). min/max return the "
            "winning argument unchanged (no inexact contagion), which the property does not ask for.",
    "technique": "Lean 4 proof (comparison model = order of exact values, all representation pairs, no guard) + "
                 "model-vs-implementation correspondence + exact-comparison oracle on the implementation",
}
MODULE = "Marwood.Proofs.C09"
THEOREMS = [
    "Marwood.Proofs.C09.eq_iff_value_eq",
    "Marwood.Proofs.C09.cmp_is_value_cmp",
    "Marwood.Proofs.C09.trichotomy",
    "Marwood.Proofs.C09.relations_consistent",
    "Marwood.Proofs.C09.lt_trans",
    "Marwood.Proofs.C09.eq_trans",
    "Marwood.Proofs.C09.variadic_is_adjacent_conjunction",
    "Marwood.Proofs.C09.variadic_value_chain",
    "Marwood.Proofs.C09.sign_predicates",
    "Marwood.Proofs.C09.min_is_least",
    "Marwood.Proofs.C09.max_is_greatest",
]


def nontrivial(req, impl):
    # a comparison that holds, or a min/max answer
    return impl == "ok b1" or (impl.startswith("ok ") and not impl.startswith("ok b"))


def run_stream(ctx, name, cases):
    md, sd = correspond(ctx, name, cases, nontrivial, spec_equal=conforms)
    settle_all(ctx, md, sd)


def streams(ctx):
    q = ctx.quick()
    run_stream(ctx, "corpus", corpus_cases("C09", ctx.seed))
    run_stream(ctx, "cmp-pairs", gen_cases("num", ["cmp-pairs", 4 if q else 20, 4 if q else 20, 20 if q else 100, 131 if q else 11], ctx.seed))
    run_stream(ctx, "cmp-neighbours", gen_cases("num", ["cmp-neighbours", 10 if q else 60, 10 if q else 60], ctx.seed))
    run_stream(ctx, "cmp-triples", gen_cases("num", ["cmp-triples", 6000 if q else 60000], ctx.seed))
    ok, log = build_harness(["num"], "dev")
    if not ok:
        report_broken(ctx, "harness-build-dev", log[-3000:])
        return
    run_stream(ctx, "corpus-debug", corpus_cases("C09", ctx.seed, profile="debug"))
    run_stream(ctx, "cmp-neighbours-debug", gen_cases("num", ["cmp-neighbours", 0, 0], ctx.seed, profile="debug"))


def run(ctx):
    return standard_run(
        ctx, MODULE, THEOREMS, ["num"], streams,
        rule="C08 palette (boundary integers as fixnum / bignum / integer-valued rational, boundary and random "
             "rationals) extended with doubles: +-0.0, +-1, +-0.5, 0.1, 2^31, 2^32, 2^53, 2^63, 2^64, f64::MAX/MIN, "
             "MIN_POSITIVE, smallest/largest subnormal, +-inf, the doubles within 2 ulp of every exact member, "
             "random bit patterns; all pairs (strided in the quick tier) x {= < > <= >=, min, max} through Number "
             "and through the procedures; every exact member against its neighbouring doubles in both orders; random "
             "triples (sorted, reversed, repeated values in other representations) for the variadic forms; sign "
             "predicates on every member; NaN only against the model; non-trivial = the relation holds or a "
             "min/max value was returned; distinct by request text",
        trusted_extra=["decoding of binary64 bit patterns Marwood.Fl.classify/magRat: a definition, proved consistent with the "
                       "pure rounding function Fl.rnd (C08: rnd_exact_on_doubles, rnd_monotone, rnd_relative_error) and "
                       "validated against the hardware by the comparisons; not proved against the text of the standard"])
