"""C11 — reader discipline: total, exact spans, one datum per parse, incompleteness found."""
from pipeline import *

META = {
    "text": "Lean 4 theorems about executable models of lex.rs and parse.rs, for every text / token list: the "
            "scanner and the parser never exhaust their fuel (termination); scanned tokens are non-empty, inside the "
            "text, on character boundaries (byte lengths of prefixes), strictly ordered, and separated (also before "
            "the first and after the last) only by whitespace and ;-comments; a successful parse consumes a non-empty "
            "prefix of the tokens that yields the same datum whatever follows it; every proper prefix of that prefix "
            "is reported Incomplete and the prefix itself is not; parse_text returns as remaining text exactly the "
            "suffix at the first remaining token (none iff none remains), that suffix re-scans to the remaining tokens "
            "shifted, so the read loop visits each datum once and ends within |tokens| rounds; and no panic branch of "
            "the parser model (slices on token spans, unwraps, subtractions) is reachable on scanner output. The "
            "models are tied to the Rust code by "
            "differential runs on generated programs, token soup, random Unicode, mutations of valid programs and "
            "every token-boundary prefix of generated datum sequences (datum in wire form, remaining text, error "
            "class), and the implementation is additionally compared with a token-level specification of 'one "
            "datum' on well-formed inputs.",
    "note": "Trusted: Lean kernel; axioms propext, Classical.choice, Quot.sound; the hand-written models Marwood.Lex, "
            "Marwood.Parse, Marwood.Num.Text are tied to the code only by differential testing; float parsing and "
            "exact<->inexact conversion are not modelled (values observed by the harness are passed to the model as "
            "an oracle table, a missing entry is reported, never defaulted); error message text is not compared. "
            "Closed theorems (all inputs, no excluded cases): T11.1 scan_total, parse_total, parse_fuel_irrelevant; "
            "T11.2 scan_discipline; T11.3 parse_one_datum, parse_result_stable; T11.5 parse_cut_incomplete, "
            "parse_complete_not_incomplete; T11.4 (a) parse_text_remaining (remaining text = the suffix at the span "
            "start of the first remaining token, none iff no token remains), (b) scan_suffix_at_token, "
            "scan_offset_shift, parse_text_rescan, parse_suffix_agrees (the suffix re-scans to the remaining tokens "
            "shifted by the cut offset, strictly fewer than before, and parses as the shifted tokens do over the whole "
            "text), (c) read_loop_tokenwise, read_loop_each_datum_once, read_loop_terminates, read_loop_lex_error (the "
            "model's read loop readAllF over the remaining texts equals the loop over the one token list, the tokens "
            "are the concatenation of the token groups of the data read, and the loop ends within max(1,|tokens|) "
            "rounds); panic freedom of the parser model on scanner output: scan_tokens_sliceable, "
            "parse_never_panics_on_scan, parse_scan_never_panics, parse_text_never_panics, read_loop_never_panics "
            "(every panic site of the model - token-span slices, &span[2..], &span[1..len-1] and its usize "
            "subtraction, the bracket unwrap, the number-prefix panic!, the radix assertion, i32 negation in "
            "Ratio::new, &text[span.0..] in parse_text, the model's fuel - is unreachable when the tokens are the "
            "scanner's for the same text). No _partial theorems. Carried only by the correspondence: that the models "
            "are the code (in particular that the Rust slices panic exactly where the model's checked slices do: "
            "debug profile, overflow checks on, every observed panic reported), float text, and the REPL/wasm "
            "front-end loops being the two-line loop readAllF models (replayed in the harness). The scanner model "
            "follows fix c1c04ca (1e-7, 2.5E+3, .5e-1 are one Number token: numberTail / dotNumberTail carry the three "
            "booleans mantissa, digits, marker of the Rust loops; the former loops are kept as numberTailPinned / "
            "dotNumberTailPinned for C16's counter-witness); every theorem above holds unchanged for the new loops "
            "(they rest on the per-piece invariant Piece.Good), the token-level statement about the new spellings is "
            "C16's signed_exponent_is_number_token, and the generators (token soup pieces, mutation pieces, number "
            "spellings, well-formed atoms, and an exhaustive mantissa x marker x sign x digits x follower grid) "
            "exercise them on purpose.",
    "technique": "Lean 4 proof (fuel adequacy, span discipline, token consumption by mutual induction, scanner shift/suffix lemmas, token-shape invariant for panic freedom) + randomized model-vs-implementation correspondence + implementation-vs-specification oracle",
}
MODULE = "Marwood.Proofs.C11"
THEOREMS = [
    "Marwood.Proofs.C11.scan_total",
    "Marwood.Proofs.C11.parse_total",
    "Marwood.Proofs.C11.parse_fuel_irrelevant",
    "Marwood.Proofs.C11.scan_discipline",
    "Marwood.Proofs.C11.parse_one_datum",
    "Marwood.Proofs.C11.parse_cut_incomplete",
    "Marwood.Proofs.C11.parse_complete_not_incomplete",
    "Marwood.Proofs.C11.parse_result_stable",
    # T11.4
    "Marwood.Proofs.C11.scan_suffix_at_token",
    "Marwood.Proofs.C11.scan_offset_shift",
    "Marwood.Proofs.C11.parse_text_remaining",
    "Marwood.Proofs.C11.parse_text_rescan",
    "Marwood.Proofs.C11.parse_suffix_agrees",
    "Marwood.Proofs.C11.read_loop_tokenwise",
    "Marwood.Proofs.C11.read_loop_each_datum_once",
    "Marwood.Proofs.C11.read_loop_terminates",
    "Marwood.Proofs.C11.read_loop_lex_error",
    # panic freedom of the parser model on scanner output
    "Marwood.Proofs.C11.scan_tokens_sliceable",
    "Marwood.Proofs.C11.parse_never_panics_on_scan",
    "Marwood.Proofs.C11.parse_scan_never_panics",
    "Marwood.Proofs.C11.parse_text_never_panics",
    "Marwood.Proofs.C11.read_loop_never_panics",
    # regenerated from lex.rs / char.rs / opcode.rs / cell.rs on every run (translate/tables.py)
    "Marwood.Proofs.Tables.char_classes_agree",
    "Marwood.Proofs.Tables.named_chars_sound",
    "Marwood.Proofs.Tables.named_chars_complete",
    "Marwood.Proofs.Tables.token_types_agree",
    "Marwood.Proofs.Tables.opcodes_agree",
    "Marwood.Proofs.Tables.primitive_symbols_agree",
]
PROFILE = "debug"   # overflow checks on: arithmetic overflow is an observable panic


def nontrivial(req, impl):
    return impl.startswith("ok ") and len(impl) > 12


def project(impl):
    """implementation answer -> what the token-level specification speaks about"""
    if impl.startswith("ok "):
        if req_is_readall(impl):
            f = impl.split(" | ")
            return "ok %s %s" % (impl.split(" ")[1], "end" if f[-1] == "end" else
                                 "incomplete" if f[-1] in ("err Incomplete", "err Lex:Incomplete") else "other")
        return "ok-rest " + impl.rsplit(" | ", 1)[1]
    if impl in ("err Incomplete", "err Lex:Incomplete"):
        return "incomplete"
    return "other"


def req_is_readall(impl):
    # read-all answers are `ok <n> | … | <end>`
    f = impl.split(" ")
    return len(f) > 1 and f[1].isdigit()


def spec_equal(req, impl, spec):
    # the inputs of the spec streams are well formed: the reader must agree with the token-level
    # specification exactly (remaining text / Incomplete / number of data)
    return project(impl) == spec


@predicate("impl_panics")
def impl_panics(case, m):
    return case["impl"].startswith("panic")


def panics(ctx, stream, cases):
    """a panic of the reader is a violation of C11 (total) even when the model predicts it"""
    for req, impl, sreq in cases:
        if impl.startswith("panic"):
            report_case(ctx, {"stream": stream, "request": req, "impl": impl, "model": None,
                              "spec_request": sreq, "spec": "total: tokens/datum or an error"})


def run_stream(ctx, name, args, with_spec=False):
    cases = gen_cases("reader", args, ctx.seed, profile=PROFILE)
    md, sd = correspond(ctx, name, cases, nontrivial, spec_equal=spec_equal if with_spec else None)
    settle(ctx, md, sd)
    panics(ctx, name, cases)


def streams(ctx):
    q = ctx.quick()
    run_stream(ctx, "scan-character-classes", ["scan-classes"])
    run_stream(ctx, "scan-random-unicode", ["scan-rand", 30000 if q else 400000])
    # fix c1c04ca (the sign of an exponent belongs to the number token): exhaustive grid around the new behaviour
    run_stream(ctx, "scan-signed-exponent-grid", ["scan-exp"])
    run_stream(ctx, "parse-signed-exponent-grid", ["parse-exp"])
    run_stream(ctx, "parse-generated-programs", ["parse-gen", 40000 if q else 400000])
    run_stream(ctx, "parse-token-soup", ["parse-soup", 40000 if q else 400000])
    run_stream(ctx, "parse-mutated-programs", ["parse-mut", 40000 if q else 400000])
    run_stream(ctx, "parse-every-token-boundary-prefix", ["parse-cut", 3000 if q else 40000])
    run_stream(ctx, "wellformed-prefixes-vs-token-spec", ["cut-wf", 3000 if q else 40000], with_spec=True)
    run_stream(ctx, "read-all-generated", ["readall-gen", 15000 if q else 150000])
    run_stream(ctx, "read-all-mutated", ["readall-mut", 15000 if q else 150000])
    run_stream(ctx, "read-all-token-soup", ["readall-soup", 15000 if q else 150000])
    run_stream(ctx, "read-all-wellformed-vs-token-spec", ["readall-wf", 15000 if q else 150000], with_spec=True)


def run(ctx):
    return standard_run(
        ctx, MODULE, THEOREMS, ["reader"], streams,
        rule="scanner: every scalar value < 0x300 (+2000 sampled) alone and after 7 contexts, random Unicode token "
             "soup; the grid mantissa x exponent marker x sign x digits x following text (21120 texts, scanner and "
             "reader) around fix c1c04ca; parser: generated datum sequences (all literal kinds, valid and invalid spellings, three bracket "
             "kinds, dotted tails, vectors, quote marks, comments), token soup, 1-3 random edits of generated "
             "programs, and every token-boundary prefix of generated sequences; compared: datum in wire form, "
             "remaining text, error class, panic; plus well-formed inputs against the token-level specification; "
             "non-trivial = the reader returned a datum; distinct by request text",
        trusted_extra=["float oracle: doubles produced by f64 parsing / to_exact / to_inexact are observed on the "
                       "Rust side and passed to the model (not modelled)"],
        profile=PROFILE)
