"""C19 — depth is limited by memory, not by the host's native stack."""
from pipeline import *

META = {
    "text": "Native stack use = recursion depth x frame size; the depth as a function of the input is logic and is what "
            "the Lean side carries. Marwood.Depth models, with an explicit frame counter that follows the Rust call "
            "structure (recursive call = new frame, loop = same frame), the reader (parse / parse_list / parse_vector / "
            "parse_improper_list_tail), put_cell / maybe_put_cell, get_as_cell, the marker (mark / mark_vcell), "
            "equal? (equal / compare_pair / compare_vector), Display for Cell, the derived drop glue and the compiler's "
            "core forms. Theorems: for every one of the 7 functions x 6 directions (car, cdr = flat list of atoms, "
            "vector, quote chain, cdr-of-pairs = flat list of n separately allocated shallow aggregates (1 . 2) / "
            "#(1 2), cdr-dotted = flat list (1 ... 1 . 2) with an improper end) the model's depth on the family nest dir "
            "n equals a closed form for EVERY n (closedForm_eq_model); from it T19.b (the fifteen loop cells — reader, "
            "get_as_cell, marker, equal?, printer along the three flat directions — never exceed 6 frames, for every "
            "length; equal? on two separately built lists of pairs: 5 frames, not 2n) and T19.u (every other (function, direction) "
            "pair needs at least n frames: no finite native stack suffices, so the property cannot hold there); plus "
            "the dotted-tail reader, nested applications and nested lambdas through the reader / compiler. The models "
            "are tied to the code by depth counters compiled into the real functions (hook verif::depth) compared "
            "with the model at depths 10/100/1000 (exact equality), by native stack bytes of the drop glue (affine in "
            "the model's frame count), and the decision at 10^3/10^4/10^5 is made by one isolated child process per "
            "scenario of the grid operation x direction x depth x {main thread 8 MiB, 2 MiB thread} x {release, "
            "debug}: exit status ok / error value / abort by stack overflow / slow. A child that completes also reports "
            "its counters, which must equal the closed forms at that depth.",
    "note": "Closed theorems (for every n / every datum): closedForm_eq_model (42 function x direction closed forms), "
            "T19_b_cdr_of_pairs / T19_b_cdr_dotted (the two flat directions added in round 4: constants 6/6/3/5/3 and "
            "4/4/2/3/2 for reader/get_as_cell/marker/equal?/printer, n frames for drop glue and maybe_put_cell), "
            "T19_b_shallow_lists (EVERY proper or dotted list of any length whose elements are car-nested <= k: "
            "marker/get_as_cell/equal?/printer bounded by k alone — association lists, lists of lists, lists of "
            "vectors), "
            "T19_b_cdr, T19_u_unbounded, bounded_iff_closedForm_le, the dotted-tail / nested-application reader and "
            "nested application / lambda compiler closed forms, T19_u_quote_evaluate, T19_b_mark_every_datum (marker "
            "depth between carNest+1 and 2 carNest+1 for EVERY datum, whatever its list lengths), "
            "T19_b_every_datum / T19_b_flat_lists (get_as_cell, equal?, printer likewise bounded by the car/vector nesting "
            "alone; constants 3/6/8/4 for every list of atoms of any length), "
            "T19_u_drop_put_every_list (every list of n elements needs n frames in drop glue and in maybe_put_cell). "
            "The property at the level the model can state it (C19_depth: every function bounded in every direction) "
            "is FALSE on the pinned tree: C19_depth_partial is the proved part (explicit decidable hypothesis bounded f "
            "d = true: the five loop directions), C19_depth_fails / C19_depth_false are the proved negations (every "
            "excluded pair; witness reader x car). Each aborting scenario is a known finding (50, none fixed: the "
            "recursion is systemic - reader, compiler, put_cell, get_as_cell, marker, equal?, printer, derived "
            "Drop/Clone - no few-line local repair makes a scenario pass) keyed by (operation, direction) with the "
            "smallest aborting depth per thread/profile, so a scenario that starts to abort at a smaller depth, or a "
            "new (operation, direction), is still a violation; the 6 findings of the directions cdr-of-pairs / "
            "cdr-dotted (quote-evaluate: maybe_put_cell; drop and write: drop glue of the list / of the converted "
            "datum, 2 MiB thread at 10^5 only) and write/cdr also name the stage in which the child dies, so an abort "
            "of the same cell in another stage (get_as_cell, Cell::new_improper_list, fmt) is a violation. Passing on "
            "the whole grid (must-pass cells, all depths x threads x profiles): read/build/gc/equal along cdr, "
            "cdr-of-pairs and cdr-dotted (equal? on two separately built copies; the dotted list goes through "
            "parse_improper_list_tail / Cell::new_improper_list) and non-tail recursion (incl. an error raised 10^5 "
            "frames deep); write in the three flat directions completes everywhere except the drop-glue cells. Carried only "
            "by correspondence/exploration, not by a theorem: (a) that the Rust functions have the call structure of "
            "the models (hook counters vs model, exact, depths 10/100/1000; drop glue only through stack bytes because "
            "derived drop glue cannot carry a counter); (b) macro-using nested "
            "expressions (let), free-variable analysis: measured affine depth with a fixed slope (oracle lines), no "
            "Lean model. Closure and continuation CHAINS now have a model and theorems: Marwood.Depth.markDepthHeap is "
            "the marker on the C03 heap model's graph (cells of Heap/Cell.lean, mark bits included) with the recursion "
            "structure of heap.rs - mark is ONE frame looping along Pair cdr and Ptr and recursing for a pair's car, a "
            "closure's code and environment, an EnvironmentPointer; environment slots, vector elements, bytecode cells "
            "(jump operands skipped) and saved stack cells go through mark_vcell; mark_lambda and mark_continuation "
            "are frames of their own - with fuel; closureChain n / contChain n are built through Heap.put "
            "(Lemmas/DepthGraph.lean proves what the puts leave in the heap: chain_cells); closed theorems "
            "T19_u_closure_chain (exactly 5n frames on a chain of n >= 1 closures: closure -> environment -> "
            "LexicalEnvPtr -> activation environment -> Ptr -> closure) and T19_u_continuation_chain (exactly 3n + 3 "
            "on n >= 1 continuations each saved on the stack of the next), both unbounded. Tie: `measure mark "
            "closure|cont n` - the harness builds the chain at run time with (define (wrap acc) (lambda () acc)) / "
            "(define (wrap acc) (call/cc (lambda (k) k))) applied n times in a tail loop, collects, calls Heap::mark "
            "on the outermost object and reads the hook counter; the driver runs markDepthHeap on the Lean family; "
            "exact equality at n = 10/100/1000 in release and debug (closure: 5n = 5n; continuation: hook 3n + 9 = "
            "model 3n + 3 plus the declared constant contContext = 6 of Driver/Depth.lean - the saved stacks of real "
            "continuations also hold return addresses into the loop and the top-level code object and their ep is the "
            "loop's environment; contChain models the chain proper, with ip.0 a code object and ep a cell outside "
            "the chain; a change of the marker's recursion on closures / environments / continuations changes the "
            "slope and breaks the equality at every n, a change of the context changes the constant and breaks it "
            "too). The grid cells of the directions closure / cont stay `unmodelled` (they are built by a named let, "
            "marked from all roots in HashMap order, and also exercise equal? / the printer / drop); (c) non-tail recursion using no native stack: observed (children complete at 10^5 on a 2 MiB "
            "thread in a debug build, marker depth constant), the VM-stack theorem is C04's; (d) whether depth n "
            "overflows a given stack is a runtime fact — the child exhibits it. The reader model is a skeleton over "
            "token kinds (one bracket kind, atoms are single tokens); derived Clone/PartialEq/Hash of Cell also "
            "recurse natively and sit on the compile path (transform clones quoted data): not modelled separately, "
            "their scenarios are unbounded already through put_cell. Heap functions are stated over Datum read as "
            "the tree-shaped heap graph of a datum. Trusted: Lean kernel, the harness child protocol, RLIMIT_STACK "
            "pinned to 8 MiB for the main-thread scenarios.",
    "technique": "Lean 4 proof (closed-form recursion depth of instrumented models, bounded vs unbounded per function and "
                 "direction) + hook-counter correspondence + isolated child process per scenario",
}
MODULE = "Marwood.Proofs.C19"
P = "Marwood.Proofs.C19."
THEOREMS = [P + t for t in [
    "closedForm_eq_model",
    "T19_b_cdr",
    "T19_u_unbounded",
    "bounded_iff_closedForm_le",
    "T19_u_read_dot",
    "T19_u_read_app",
    "T19_u_compile_app",
    "T19_u_compile_lambda",
    "T19_u_quote_evaluate",
    "T19_b_write_cdr_fails_only_in_drop",
    "T19_b_mark_every_datum",
    "T19_b_every_datum",
    "T19_b_flat_lists",
    "T19_b_shallow_lists",
    "T19_b_cdr_of_pairs",
    "T19_b_cdr_dotted",
    "T19_u_drop_put_every_list",
    "T19_u_closure_chain",
    "T19_u_continuation_chain",
    "chain_cells",
    "C19_depth_partial",
    "C19_depth_fails",
    "C19_depth_false",
]]

CLASSES_BAD = ("abort", "slow")


def parse_grid(req):
    f = req.split(" ")
    return {"op": f[1], "dir": f[2], "n": int(f[3]), "thread": f[4], "profile": f[5]}


@predicate("c19_scenario")
def c19_scenario(case, m):
    """finding = one (operation, direction); cells = depth >= min_depth[thread/profile]; outcome abort/slow;
    optional `stages`: the child must have died in one of these stages (last word of the observation)"""
    req = case.get("request", "")
    if not req.startswith("grid "):
        return False
    g = parse_grid(req)
    if g["op"] != m.get("op") or g["dir"] != m.get("dir"):
        return False
    impl = case.get("impl", "")
    if impl.split(" ")[0] not in m.get("outcomes", ["abort"]):
        return False
    if "stages" in m and impl.split(" ")[-1] not in m["stages"]:
        return False
    lim = m.get("min_depth", {}).get("%s/%s" % (g["thread"], g["profile"]))
    return lim is not None and g["n"] >= lim


def groups_of(text):
    out = {}
    for kv in text.split(","):
        if "=" in kv:
            k, v = kv.split("=", 1)
            out[k] = int(v)
    return out


def spec_equal(req, impl, spec):
    return spec == "completes" and (impl.startswith("ok ") or impl.startswith("err "))


class DropFit:
    """native stack bytes of the drop glue vs the model's frame count: bytes = s * frames + c per direction,
    one s for the pair-only directions"""
    def __init__(self):
        self.pts = {}

    def add(self, req, impl, model):
        f = req.split(" ")
        try:
            self.pts.setdefault(f[2], []).append((int(f[3]), int(impl.split(" ")[1]), int(model.split(" ")[1])))
        except (ValueError, IndexError):
            self.pts.setdefault(f[2], []).append((0, -1, -1))

    def problems(self):
        bad, slopes = [], {}
        for d, pts in self.pts.items():
            pts.sort()
            if len(pts) < 3 or any(p[1] < 0 for p in pts):
                bad.append("drop %s: unusable points %s" % (d, pts)); continue
            (n0, b0, f0), rest = pts[0], pts[1:]
            s = (rest[0][1] - b0) / max(1, rest[0][2] - f0)
            slopes[d] = s
            if s <= 0 or any(abs((b - b0) - s * (f - f0)) > 64 for _, b, f in rest):
                bad.append("drop %s: stack bytes not affine in the model's frames: %s" % (d, pts))
        pair_dirs = [slopes[d] for d in ("car", "cdr", "quote", "cdr-of-pairs", "cdr-dotted") if d in slopes]
        if pair_dirs and max(pair_dirs) - min(pair_dirs) > 0.01 * max(pair_dirs):
            bad.append("drop: bytes per modelled frame differ between the pair-spine directions: %s" % slopes)
        return bad


def make_model_equal(dropfit):
    def model_equal(req, impl, model):
        if req.startswith("measure drop "):
            dropfit.add(req, impl, model)
            return model.startswith("ok ")
        if req.startswith("measure "):
            return impl == model
        if not req.startswith("grid "):
            return impl == model
        if model == "unmodelled":
            return True
        if model == "bad-op":
            return False
        cls, _, rest = model.partition(" ")
        head = impl.split(" ")[0]
        if head in CLASSES_BAD:
            return cls == "unbounded"
        if head != "ok":
            return False
        got = groups_of(impl.partition(" ")[2])
        for k, v in groups_of(rest).items():
            want = max(v, got.get("markbase", 0)) if k == "mark" else v
            if got.get(k) != want:
                return False
        return True
    return model_equal


def nontrivial(req, impl):
    f = req.split(" ")
    if f[0] == "measure":
        return impl.startswith("ok ") and int(f[3]) >= 100
    return impl.split(" ")[0] in ("ok", "err", "abort", "slow")


def streams(ctx):
    ok, log = build_harness(["depth"], "debug")
    if not ok:
        report_broken(ctx, "harness-build-debug", log[-3000:])
    profiles = ["release"] + (["debug"] if ok else [])
    depths = [1000, 10000] if ctx.quick() else [1000, 10000, 100000]
    timeout = 25 if ctx.quick() else 240
    for profile in profiles:
        # corpus first: scenarios that once disagreed
        cpath = os.path.join(VERIF, "corpus", "C19", "scenarios.txt")
        only = [l.split("#")[0].strip() for l in open(cpath)] if os.path.exists(cpath) else []
        for sc in [o for o in only if o]:
            op_dir, n = sc.split(" ")
            cases = gen_cases("depth", ["grid", n, "--only", op_dir, "--timeout", timeout], ctx.seed, profile)
            md, sd = correspond(ctx, "grid", cases, nontrivial, spec_equal, make_model_equal(DropFit()))
            settle(ctx, md, sd)
        fit = DropFit()
        cases = gen_cases("depth", ["measure", 10, 100, 1000], ctx.seed, profile)
        md, sd = correspond(ctx, "measure-" + profile, cases, nontrivial, None, make_model_equal(fit))
        settle(ctx, md, sd)
        for p in fit.problems():
            report_broken(ctx, "correspondence", p)
        cases = gen_cases("depth", ["grid"] + depths + ["--timeout", timeout], ctx.seed, profile,
                          timeout=3000)
        md, sd = correspond(ctx, "grid", cases, nontrivial, spec_equal, make_model_equal(DropFit()))
        settle(ctx, md, sd, max_report=5)
        if ctx.quick() and profile == "release":
            # library procedures on LONG run-time data (table LIB of the harness) at 10^5 in the quick tier too: the
            # thresholds of realistic regressions (a builtin that starts converting its argument to a Cell) lie
            # between 10^4 and 10^5; the debug profile at 10^5 is left to the thorough tier (prelude map takes 40 s)
            lib = gen_cases("depth", ["grid", 100000, "--only", "lib/*", "--timeout", 60], ctx.seed, profile,
                            timeout=3000)
            md, sd = correspond(ctx, "grid", lib, nontrivial, spec_equal, make_model_equal(DropFit()))
            settle(ctx, md, sd, max_report=5)
            cases = cases + lib
        st = ctx.streams["grid"]
        for c in cases:
            k = "outcome_" + c[1].split(" ")[0]
            st[k] = st.get(k, 0) + 1
    ctx.streams["grid"]["depths"] = depths
    ctx.streams["grid"]["child_timeout_s"] = timeout


def run(ctx):
    return standard_run(
        ctx, MODULE, THEOREMS, ["depth"], streams,
        rule="measure: hook depth counters of the real functions vs the Lean depth models on the nested families "
             "(car, cdr, dotted cdr, vector, quote chain, cdr-of-pairs = list of fresh pairs / vectors, cdr-dotted = "
             "flat list with an improper end, nested application / lambda / let, closure and continuation chains) at depths 10, 100, 1000, in release and debug builds, exact equality (drop glue: stack bytes "
             "affine in the model's frames; closure / continuation chains: Heap::mark on the outermost object vs the "
             "graph-level marker model on closureChain n / contChain n, exact; families without a model: fixed slope); grid: one child process per "
             "(operation, direction, depth in {10^3, 10^4[, 10^5 thorough]}, main 8 MiB / 2 MiB thread, release / "
             "debug), 64 (operation, direction) pairs (directions car, cdr, cdr-of-pairs, cdr-dotted, vec, quote x read, "
             "quote-evaluate, build, gc, equal on two separately built copies, write, drop; dot; closure / "
             "continuation chains; non-tail recursion; nested expressions); observation = exit status + counters; non-trivial = depth >= "
             "100 for measure, any settled child for grid; distinct by request",
        trusted_extra=["child protocol of harness/src/bin/depth.rs (stage lines, RLIMIT_CORE 0, RLIMIT_STACK 8 MiB, "
                       "wall-clock limit per child)",
                       "frame sizes and stack limits are runtime facts outside the model: the theorems prove growth "
                       "of the recursion depth, the children exhibit the abort"])
