"""C03 — garbage collection is unobservable and never reclaims a live object."""
from pipeline import *
from heap_util import *

META = {
    "text": "Lean 4 theorems about a model of heap.rs/gc.rs/run_gc (cells, 2-bit state map, free list, symbol table; "
            "mark with the exact per-kind child function incl. mark_vcell/mark_lambda/mark_continuation; sweep; free; "
            "grow; root enumeration): marking computes exactly the set reachable from the roots (sound, complete, fuel "
            "|roots|+|edges| always suffices); after run_gc every cell reachable from the roots is allocated with "
            "unchanged content and every reachable symbol is still interned at its cell; heap well-formedness (state "
            "Free <=> on the free list, free list duplicate-free, symbol table <=> allocated symbol cells, allocated "
            "cells point only at allocated cells) is preserved by alloc/put/free/mark/sweep/grow/run_gc. For the pinned "
            "marker (jump offsets treated as pointers) the negation is proved on a small witness; the tree carries the "
            "fix. The model is tied to the code by running it on real heap snapshots + roots dumped before forced "
            "collections (model after-state = real after-state; Spec.Reach = allocated set) and on random Heap API "
            "operation sequences.",
    "note": "The first sentence of C03 (unobservability for every program and schedule, T03.5) is NOT a closed theorem "
            "here: it is carried by (a) the GC-side lemmas it needs (T03.2 run_gc preserves content/allocation/symbol "
            "identity of everything reachable, stated for an arbitrary machine whose step dereferences only reachable "
            "addresses — that root-sufficiency premise is a hypothesis, the VM model belongs to another work package) "
            "and (b) an implementation-level exploration: allocation-heavy program templates run through the real "
            "eval path under schedules none / every k-th instruction (k=1..16) / pseudo-random boundaries, comparing "
            "values, error classes and display/write output with the schedule-free run. Trusted: Lean kernel; axioms "
            "propext, Classical.choice, Quot.sound; the hand-written model is tied to the Rust code only by the "
            "correspondence streams; f64 utilisation test and 1.5x growth are modelled in exact arithmetic (equal "
            "below 2^51 cells); scalar payloads and Rc identity are not part of the cell rendering (the collector "
            "never looks at them).",
    "technique": "Lean 4 proof (mark = reachability, GC safety, heap invariant) + model-vs-implementation correspondence on real "
                 "heap snapshots and API sequences + schedule exploration on the implementation",
}
MODULE = "Marwood.Proofs.C03"
THEOREMS = ["Marwood.Proofs.C03." + t for t in ['mark_computes_reachable', 'mark_fuel_adequate', 'runGc_fuel_adequate', 'runGc_preserves_reachable', 'runGc_skipped_id', 'runGc_preserves_observation', 'new_wf', 'alloc_preserves_wf', 'put_preserves_wf', 'maybePut_preserves_wf', 'free_preserves_wf', 'grow_preserves_wf', 'mark_preserves_wfcore', 'runGc_preserves_wf', 'witness_ok', 'unfixed_marker_breaks_wf', 'fixed_marker_keeps_wf', 'unfixed_marker_allocates_cell_twice', 'fixed_marker_allocates_each_cell_once']]


def streams(ctx):
    q = ctx.quick()
    # corpus first: past disagreements (sessions replayed under forced-collection schedules)
    for path in corpus_sessions("C03"):
        cases = gen_cases("gc", ["corpus", path] + ([64] if q else [5, 7, 16]), ctx.seed)
        md, sd = correspond(ctx, "corpus-sessions", cases, obs_nontrivial)
        settle(ctx, md, sd)
    # Heap API sequences: model of alloc/free/put/maybe_put/mark/sweep/grow vs the real Heap
    cases = gen_cases("gc", ["heapops", 1500 if q else 30000, 60], ctx.seed)
    md, sd = correspond(ctx, "heap-api-sequences", cases, lambda r, i: i.startswith("ok"))
    settle(ctx, md, sd)
    # snapshots around forced collections: model run_gc and Spec.Reach vs the real collector
    cases = gen_cases_sharded("gc", ["snap", 30 if q else 300, 6], ctx.seed, 4 if q else 8)
    md, sd = correspond(ctx, "gc-snapshots", cases, snap_nontrivial, spec_equal=snap_spec_equal)
    settle(ctx, md, sd)
    # unobservability exploration on the implementation
    cases = gen_cases_sharded("gc", ["obs", 20 if q else 150, 3 if q else 18], ctx.seed, 5 if q else 8)
    md, sd = correspond(ctx, "schedule-exploration", cases, obs_nontrivial)
    settle(ctx, md, sd)


def run(ctx):
    return standard_run(
        ctx, MODULE, THEOREMS, ["gc"], streams,
        rule="(1) real heap snapshot + roots before a forced collection (programs from 16 allocation-heavy templates, "
             "collections every k-th instruction / random boundaries, sampled) -> Lean run_gc must give the real "
             "after-state (allocated set, free multiset, symbol table, states) and Spec.Reach must equal the allocated "
             "set; (2) random Heap API sequences (put/maybe_put/alloc/free/mark/sweep/grow) model vs real, full state; "
             "(3) sessions under collection schedules vs schedule-free transcript (values, error classes, output). "
             "Non-trivial = collection kept something / transcript has a successful form; distinct by request text",
        trusted_extra=["T03.5 (unobservability) is carried by stream (3) plus theorem T03.2, not by a closed theorem"])
