"""C03 — garbage collection is unobservable and never reclaims a live object."""
from pipeline import *
from heap_util import *

META = {
    "text": "Lean 4 theorems about a model of heap.rs/gc.rs/run_gc (cells, 2-bit state map, free list, symbol table; "
            "mark with the exact per-kind child function incl. mark_vcell/mark_lambda/mark_continuation; sweep; free; "
            "grow; root enumeration): marking computes exactly the set reachable from the roots (sound, complete, fuel "
            "|roots|+|edges| always suffices); after run_gc every cell reachable from the roots is allocated with "
            "unchanged content and every reachable symbol is still interned at its cell; heap well-formedness (state "
            "Free <=> on the free list, free list duplicate-free, symbol table <=> allocated symbol cells, allocated "
            "cells point only at allocated cells) is preserved by alloc/put/free/mark/sweep/grow/run_gc. For the pinned "
            "marker (jump offsets treated as pointers) the negation is proved on a small witness; the tree carries the "
            "fix. The model is tied to the code by running it on real heap snapshots + roots dumped before forced "
            "collections (model after-state = real after-state; Spec.Reach = allocated set) and on random Heap API "
            "operation sequences.",
    "note": "T03.5 status: gc_unobservable_partial / gc_unobservable_value_partial state the first sentence of C03 for the "
            "concrete machine (run_one over Vm/ConcreteHeap.lean, collector = this file's Heap.runGc through the erasure) "
            "and EVERY schedule of collections at instruction boundaries: same status (running / HALT / same failure), "
            "Sim-related end states, equal datum read from acc. Closed: (a) the collector clause (cgc_sim, from T03.2 and "
            "T03.3); (b) the simulation lemma of all 16 opcodes (step_sim / execSim_all: JMP JNT MOV MOVIMM PUSH PUSHIMM "
            "PUSHACC HALT RET CALL TCALL ENTER and the allocating CONS VARARG CLOSURE ENTER-of-a-closure call/cc, where "
            "the injection is extended at the two fresh addresses; apply; eval's frame handling; put/maybe_put with "
            "symbol interning, putNew_sim); (c) observation equality (readObs_rel, eq_agree); (d) a good state simulates "
            "itself (sim_refl). Explicit hypotheses (hence _partial): ExtLaws = the law 'respects the simulation' of the "
            "four NON-MODELLED parameters of concreteOps (builtinKind, builtinEval = 139 generic Rust procedures, "
            "compileEval = eval's compiler, vectorPush = VPUSH through an aliased Rc); Safe = every state along either run "
            "has a heap below 2^63 cells, a well-formed erased heap with allocated roots (WFHeap/RootsOk: T03.3 proves each "
            "heap operation preserves it, the lifting to run_one is assumed), kind disciplines Plain (no heap cell holds a "
            "bare LexicalEnvPtr/InstructionPointer, global slots are pointers or address-free, continuation objects hold "
            "stack[0..=sp]) and NoIofArg, and bp-relative stack reads at or below sp. ROUND 4: gc_unobservable / gc_unobservable_value / gc_unobservable_value_eval state T03.5 WITHOUT Safe: Safe is a theorem (Lemmas/GoodMain.safe_of_good) from GoodI of the INITIAL state, by good_step (run_one_preserves_wf: WFHeap/RootsOk of the erased heap, T03.3, lifted to all 16 opcodes through the erasure commutation of the concrete allocator, Lemmas/GoodAlloc.lean; Plain; NoIofArg and the MOV/MOVIMM code discipline of every lambda object; environment discipline) and good_gc (run_gc_preserves_good). Remaining explicit hypotheses: ExtLaws, ExtGood (unmodelled parameters), CompGood (compiler in prepare_eval), SizeBounded (every reachable heap <= 2^62 cells: the one size hypothesis, a physical fact), StackDiscAlong (frame discipline of the current instruction; follows from WF-stack once the verifier types bp-relative sources and temporaries, not yet connected). Finding of the invariant proof: Plain/WFHeap are NOT preserved by run_one over arbitrary bytecode (a MOV through a Ptr operand can overwrite a symbol cell or load an inline pair into a global; CONS can pop a frame-header cell) - on the model and the real VM alike (hand-assembled program 0 of the concrete-heap-step stream does it: witness corpus/C03/simstep-plain-not-invariant-mov-ptr-glob.txt, two consecutive real states around MOV Ptr(closure) GlobalEnvSlot, simgood ok before / bad plain-globals after, model = real on all 53 steps of that program, `simstep witness`); compiled code never does, which is the code discipline clause of GoodI, evaluated on every lambda object of every real state by the safe-side-conditions stream (hand-assembled code, marked +syn, is exempt from that one clause). The stream now also evaluates acc-value, env-ok and the value-read clauses of StackDisc. The concrete instantiation is tied to "
            "the code by the concrete-heap-step stream, and the per-state clauses of Safe are evaluated on the same real states "
            "by the safe-side-conditions stream (executable counterparts, all satisfied); model limits found there: an inline Rc payload "
            "stored back by CONS is by-value in the model (bucket alias; produced only by VPUSH before fix 43d0413, empty since), out-of-range operands panic in Rust "
            "and take a default in the total HeapOps signature. Output (display/write) is not part of the machine model. "
            "Beyond those theorems the first sentence is "
            "carried by (a) the GC-side lemmas it needs (T03.2 run_gc preserves content/allocation/symbol "
            "identity of everything reachable, stated for an arbitrary machine whose step dereferences only reachable "
            "addresses — that root-sufficiency premise is a hypothesis, the VM model belongs to another work package) "
            "and (b) an implementation-level exploration: allocation-heavy program templates run through the real "
            "eval path under schedules none / every k-th instruction (k=1..16) / pseudo-random boundaries, comparing "
            "values, error classes and display/write output with the schedule-free run. Trusted: Lean kernel; axioms "
            "propext, Classical.choice, Quot.sound; the hand-written model is tied to the Rust code only by the "
            "correspondence streams; f64 utilisation test and 1.5x growth are modelled in exact arithmetic (equal "
            "below 2^51 cells); scalar payloads and Rc identity are not part of the cell rendering (the collector "
            "never looks at them). ROUND 5 (WF-stack connected to the heap simulation): the bytecode verifier is VALUE-TYPED (abstract cells any | val | argc n: PUSHACC and PUSHIMM of a value push val, CONS pops two typed cells, CALL/TCALL need argc n over n typed cells, MOV never loads through a Ptr, MOVIMM loads a value, HALT is the last cell; 0 rejects on every real code object and on the compiler model's output) and WF-stack (Lemmas/StackWF*.lean) is re-proved for it for all 16 opcodes: val-typed temporaries, argument blocks and the argument cells of every frame hold values (IsValue = plainGlob, the notion of GoodI), acc holds a value, a frame has at least argNeed argument cells (ENTER compares argc with the formals of the code it runs). stackDisc_of_wfs (Lemmas/StackDiscOfWFS.lean) derives ALL SIX clauses of StackDisc from WFS (concreteLawsV ext ecl) s K; vmOk_reaches shows VmOk = GoodI /\ (WFS \/ halted) is an invariant of the REAL machine (run_one over concreteOps, run_gc = cgc): the guards of the machine the generic WF-stack theorem runs on (vops: guarded callee, value-guarded global/environment reads and VPUSH) are invisible on GoodI states (step_vops). The *_wf theorems restate the property WITHOUT StackDiscAlong: hypotheses = ExtLaws, ExtGood, ExtCodeLawsV (unmodelled builtins / eval compiler / VPUSH keep the value-typed code invariant CInvG IsValue), VmOk of the INITIAL state, SizeBounded, and CalleeOkAlong: at every reachable CALL/TCALL/ENTER site a closure / bare-lambda callee designates PROCEDURE code, not an entry lambda (oracle callee-ok of the C04 bytecode-verifier stream). CalleeOkAlong is NOT derived: it is a reachability fact (closures are built by CLOSURE from compile_lambda output; no value refers to an entry lambda) that needs two more heap-invariant clauses preserved by the unmodelled builtins. Non-vacuity: Demo.sHalt_vmOk. The safe-side-conditions stream also evaluates the value-typed frame of the current instruction on every real state (Driver/SimGood.typedCheck).",
    "technique": "Lean 4 proof (mark = reachability, GC safety, heap invariant) + model-vs-implementation correspondence on real "
                 "heap snapshots and API sequences + schedule exploration on the implementation",
}
MODULE = "Marwood.Proofs.C03"
THEOREMS = ["Marwood.Proofs.C03." + t for t in ['mark_computes_reachable', 'mark_fuel_adequate', 'runGc_fuel_adequate', 'runGc_preserves_reachable', 'runGc_skipped_id', 'runGc_preserves_observation', 'new_wf', 'alloc_preserves_wf', 'put_preserves_wf', 'maybePut_preserves_wf', 'free_preserves_wf', 'grow_preserves_wf', 'mark_preserves_wfcore', 'runGc_preserves_wf', 'witness_ok', 'unfixed_marker_breaks_wf', 'fixed_marker_keeps_wf', 'unfixed_marker_allocates_cell_twice', 'fixed_marker_allocates_each_cell_once', 'runSched_pureN', 'gc_unobservable_partial', 'gc_unobservable_value_partial', 'demo_sim', 'sHalt_safe', 'run_one_preserves_wf', 'run_gc_preserves_good', 'gc_unobservable', 'gc_unobservable_value', 'gc_unobservable_value_eval']] + ["Marwood.Lemmas.Sim." + t for t in ['cgc_sim', 'cput_sim', 'putNew_sim', 'step_sim', 'execSim_all', 'activationLaw', 'builtinLaw_of_ext', 'sim_refl', 'readObs_rel', 'eq_agree']] + ["Marwood.Lemmas.Good." + t for t in ['good_step', 'good_gc', 'safe_of_good', 'goodI_reaches', 'hg_exec', 'roots_of_sim', 'prepare_goodI', 'cput_hg', 'putNew_hg', 'putV_hg', 'maybePutV_hg', 'envPut_hg', 'globPut_hg', 'makeClosure_hg', 'makeActivation_hg', 'newCont_hg', 'hg_mov', 'hg_movImm', 'hg_cons', 'hg_vpush', 'hg_closure', 'hg_varArg', 'hg_call', 'hg_tcall', 'hg_enter', 'hg_ret', 'hg_jmp', 'hg_jnt', 'hg_push', 'hg_pushImm', 'hg_pushAcc', 'hg_halt', 'Demo.sHalt_goodI', 'Demo.sHalt_sizeBounded', 'Demo.sHalt_discAlong']] + ['Marwood.Proofs.C03.gc_unobservable_wf', 'Marwood.Proofs.C03.gc_unobservable_value_wf', 'Marwood.Proofs.C03.run_one_preserves_vmOk', 'Marwood.Lemmas.Good.stackDisc_of_wfs', 'Marwood.Lemmas.Good.step_vops', 'Marwood.Lemmas.Good.vmOk_step', 'Marwood.Lemmas.Good.vmOk_gc', 'Marwood.Lemmas.Good.vmOk_reaches', 'Marwood.Lemmas.Good.wfs_reaches', 'Marwood.Lemmas.Good.stackDiscAlong_of_wfs', 'Marwood.Lemmas.Good.safe_of_vmOk', 'Marwood.Vm.Concrete.concreteLawsV', 'Marwood.Vm.Concrete.cgc_gcLawsV', 'Marwood.Vm.step_preserves', 'Marwood.Vm.step_wr', 'Marwood.Lemmas.Good.Demo.sHalt_vmOk', 'Marwood.Lemmas.Good.Demo.sHalt_calleeOkAlong', 'Marwood.Proofs.C13.failingExt_codeLawsV']


# ROUND 6: the callee guard is a theorem (lib/props/procinv_util.py)
import procinv_util as _pv
THEOREMS = THEOREMS + [t for t in _pv.COMMON_THEOREMS if t not in THEOREMS] + _pv.FAILING_EXT + ['Marwood.Proofs.C03.gc_unobservable_closed', 'Marwood.Proofs.C03.gc_unobservable_value_closed', 'Marwood.Proofs.C03.run_one_preserves_vmOkP', 'Marwood.Proofs.C03.run_gc_preserves_vmOkP']
META["note"] = META["note"] + _pv.NOTE + ' C03: gc_unobservable_closed / gc_unobservable_value_closed (T03.5 from VmOk and PInv of the initial state), run_one_preserves_vmOkP / run_gc_preserves_vmOkP (no side condition on the callee).'

# VPUSH fix 43d0413 (defect C03-vpush-inline-vector-not-rooted)
THEOREMS = THEOREMS + ['Marwood.Proofs.C03.vpush_acc_is_pointer', 'Marwood.Proofs.C03.vpush_acc_is_pointer_vmOk',
                       'Marwood.Proofs.C03.vpush_acc_is_popped_cell', 'Marwood.Proofs.C03.vpush_acc_inline_pinned',
                       'Marwood.Lemmas.Good.VpushWitness.extPush_law']
META["note"] = META["note"] + (
    " VPUSH (fix 43d0413, known_findings C03-vpush-inline-vector-not-rooted): the defect - VPUSH left the DEREFERENCED "
    "vector in %acc, MOV stored that inline Vector(Rc) in a global slot, run_gc marks global slots only when they are "
    "pointers, so the elements of (define v `#(,(list 1 2))) were reclaimed - was invisible to every theorem above: the "
    "by-value heap model renders a dereferenced vector as the address-free atom .opaque \"v\" (no elements), which the "
    "invariant Plain accepts as a value, and no generator kept the VALUE of a quasiquoted vector with unquoted allocated "
    "elements in a global across collections. Now: the model arm is acc := popped cell (concrete-heap-step replays it: "
    "bucket alias empty); vpush_acc_is_popped_cell (closed, no hypothesis: %acc after VPUSH is the cell that was on "
    "top of the live stack); vpush_acc_is_pointer / _vmOk (from GoodI resp. VmOk, the executable discipline "
    "noInlineVecB of Vm/InlineCheck.lean on the state BEFORE the step - no dereferenced vector in %acc, a stack slot, a "
    "global slot or a heap cell - and the law VecPushLaw of the unmodelled push 'succeeds only on a vector': %acc is "
    "Ptr p, p is allocated and holds a vector cell, not an inline container); vpush_acc_inline_pinned (the old arm "
    "stepVpushPinned on a four-cell heap leaves .opaque \"v\" in %acc and fails the discipline, the new arm keeps Ptr 1). "
    "noInlineVecB is NOT proved invariant (it would need a law of that shape for the 139 unmodelled builtins); it is "
    "carried by the safe-side-conditions stream, clause inline-vector, evaluated on every real state (unrepaired code: "
    "bad inline-vector on every state after a VPUSH). Generators: template 21 of gc_programs.rs (value of a quasiquoted "
    "vector with unquoted lists / strings / closures / nested quasi-vectors kept in a global, a closure variable, a pair, "
    "returned from a procedure, read back after churn; the leading template of the schedule-exploration shards is offset "
    "by the seed so that a quick run leads with every template), the feature-session prefix of simstep, corpus/C03/"
    "vpush-inline-vector-not-rooted.scm and corpus/C01/fixed-quasiquoted-vector-value-kept.scm.")

def simstep_info(req):
    """`simstep i:<opcode>:<kind>:<core|ext|alias>:<scr|lin>:<inline-rc> …` -> dict"""
    f = req.split(" ", 2)[1].split(":")
    return {"op": f[1], "kind": ":".join(f[2:-3]), "cat": f[-3], "scr": f[-2] == "scr", "inl": int(f[-1])}


def simstep_machine_part(resp):
    """`ok sp bp ep ipl ipo acc halt cap n cell*n D cap' m …` -> everything up to the number of changed cells"""
    t = resp.split(" ")
    return t[:10 + int(t[9]) + 3]


def simstep_equal(req, impl, model):
    """string equality, except for the `alias` bucket (CONS / VARARG putting an inline Rc payload on the heap: the real
    heap then has two cells sharing one Rc, the by-value model stores the representative): there only registers,
    stack, heap capacity and the number of changed cells are compared"""
    if impl == model:
        return True
    if simstep_info(req)["cat"] == "alias" and impl.startswith("ok ") and model.startswith("ok "):
        return simstep_machine_part(impl) == simstep_machine_part(model)
    return False


def simstep_summary(ctx, stream, cases, md):
    """per-opcode / per-kind counts of the concrete-heap-step stream (evidence: coverage.streams[stream].detail)"""
    bad = {c["request"] for c in md}
    per_op, per_kind = {}, {}
    tot = {"core": 0, "ext": 0, "alias": 0, "scrambled_free_list": 0, "inline_rc": 0, "impl_ok": 0, "impl_err": 0,
           "impl_panic": 0, "core_disagree": 0, "ext_disagree": 0, "alias_disagree": 0}
    for req, impl, _ in cases:
        i = simstep_info(req)
        per_op[i["op"]] = per_op.get(i["op"], 0) + 1
        k = i["op"] + ":" + i["kind"]
        per_kind[k] = per_kind.get(k, 0) + 1
        tot[i["cat"]] += 1
        tot["scrambled_free_list"] += i["scr"]
        tot["inline_rc"] += i["inl"] > 0
        tot["impl_" + impl.split(" ", 1)[0]] = tot.get("impl_" + impl.split(" ", 1)[0], 0) + 1
        if req in bad:
            tot[i["cat"] + "_disagree"] += 1
    detail = dict(tot, per_opcode=dict(sorted(per_op.items())), per_kind=dict(sorted(per_kind.items())))
    ctx.streams[stream]["detail"] = detail
    line = ("%s: %d steps (%d core, %d ext, %d alias [machine part only]), %d with scrambled free list, %d with an "
            "inline Rc payload, impl ok/err/panic %d/%d/%d, disagreements core %d ext %d alias %d; per opcode %s" % (
                stream, len(cases), tot["core"], tot["ext"], tot["alias"], tot["scrambled_free_list"], tot["inline_rc"],
                tot["impl_ok"], tot["impl_err"], tot["impl_panic"], tot["core_disagree"], tot["ext_disagree"],
                tot["alias_disagree"],
                " ".join("%s=%d" % kv for kv in sorted(per_op.items()))))
    ctx.notes.append(line)
    print("C03 " + line)


def streams(ctx):
    q = ctx.quick()
    # corpus first: past disagreements (sessions replayed under forced-collection schedules)
    for path in corpus_sessions("C03"):
        # a file named *-every1.scm is small and needs a collection before EVERY instruction to mean anything
        ks = [1] if path.endswith("-every1.scm") else ([64] if q else [5, 7, 16])
        cases = gen_cases("gc", ["corpus", path] + ks, ctx.seed)
        md, sd = correspond(ctx, "corpus-sessions", cases, obs_nontrivial)
        settle(ctx, md, sd)
    # Heap API sequences: model of alloc/free/put/maybe_put/mark/sweep/grow vs the real Heap
    cases = gen_cases("gc", ["heapops", 1500 if q else 30000, 60], ctx.seed)
    md, sd = correspond(ctx, "heap-api-sequences", cases, lambda r, i: i.startswith("ok"))
    settle(ctx, md, sd)
    # snapshots around forced collections: model run_gc and Spec.Reach vs the real collector
    cases = gen_cases_sharded("gc", ["snap", 30 if q else 300, 6], ctx.seed, 4 if q else 8)
    md, sd = correspond(ctx, "gc-snapshots", cases, snap_nontrivial, spec_equal=snap_spec_equal)
    settle(ctx, md, sd)
    # the machine model over the collector's heap model (Marwood.Vm.Concrete.concreteOps, T03.5/T13.3): one real
    # instruction from a COMPLETE real heap snapshot (payloads, gc states, free list in order, symbol table, global
    # environment, whole stack) vs `step (concreteOps ext)` on the same state; post-state compared as registers +
    # whole stack + changed cells + free-list / symbol-table / global-environment delta
    if q:
        cases = gen_cases("simstep", ["run", 88, 7], ctx.seed)
    else:
        cases = gen_cases_sharded("simstep", ["run", 176, 8], ctx.seed, 2)
    md, sd = correspond(ctx, "concrete-heap-step", cases, lambda r, i: i.startswith("ok"), model_equal=simstep_equal)
    simstep_summary(ctx, "concrete-heap-step", cases, md)
    settle(ctx, md, sd)
    # the side conditions `Good` that T03.5 / T13.3 assume of every state along a run (hypothesis Safe), evaluated by
    # their executable counterparts (Driver/SimGood.lean) on the same real states: heap below 2^63 cells, kind
    # disciplines Plain / NoIofArg, wfCheck of the erased heap and roots, bp-relative reads of the current instruction
    # at or below sp. The real state "is" good, so the implementation side of the comparison is the constant `ok`.
    good = [("simgood" + r[len("simstep"):], "ok", None) for r, _, _ in cases]
    md, sd = correspond(ctx, "safe-side-conditions", good, lambda r, i: True)
    settle(ctx, md, sd)
    # ROUND 8: the same single-instruction comparison with the RESULT of a table builtin (car cdr cons set-car! set-cdr!
    # eq? eqv? and the type predicates) computed by the model `ListExt.builtinEval` instead of replayed from the recorded
    # heap delta: the tie of Vm/ListExt.lean (for which all Ext law structures are theorems) to builtin_*.rs
    if q:
        lx = gen_cases("simstep", ["runlx", 88, 7], ctx.seed)
    else:
        lx = gen_cases_sharded("simstep", ["runlx", 176, 8], ctx.seed, 2)
    md, sd = correspond(ctx, "concrete-heap-step-listext", lx, lambda r, i: True, model_equal=simstep_equal)
    settle(ctx, md, sd)
    # unobservability exploration on the implementation
    cases = gen_cases_sharded("gc", ["obs", 20 if q else 150, 3 if q else 18], ctx.seed, 5 if q else 8)
    md, sd = correspond(ctx, "schedule-exploration", cases, obs_nontrivial)
    settle(ctx, md, sd)


def run(ctx):
    return standard_run(
        ctx, MODULE, THEOREMS, ["gc", "simstep"], streams,
        rule="(1) real heap snapshot + roots before a forced collection (programs from 16 allocation-heavy templates, "
             "collections every k-th instruction / random boundaries, sampled) -> Lean run_gc must give the real "
             "after-state (allocated set, free multiset, symbol table, states) and Spec.Reach must equal the allocated "
             "set; (2) random Heap API sequences (put/maybe_put/alloc/free/mark/sweep/grow) model vs real, full state; "
             "(3) sessions under collection schedules vs schedule-free transcript (values, error classes, output); "
             "(4) concrete-heap-step: single instructions of the real VM (feature sessions, collector templates, generated "
             "sessions, hand-assembled bytecode for PUSH / base-pointer operands / malformed code; half of the VMs with "
             "forced collections every k instructions) from a complete heap snapshot vs Lean step(concreteOps ext), "
             "sampled so that every opcode, callee kind and operand kind recurs (counts under coverage.streams."
             "concrete-heap-step.detail; generic builtins, eval's compiler and VPUSH replay the recorded heap delta and "
             "are counted as ext; CONS/VARARG of an inline Rc payload - a second heap cell sharing the Rc, not "
             "expressible in the by-value model - are counted as alias and compared on registers, stack and number of "
             "changed cells only); (5) safe-side-conditions: the executable counterparts of the per-state clauses of the "
             "hypothesis Safe (Driver/SimGood.lean: heap size, Plain, NoIofArg, wfCheck of the erased heap and roots, "
             "bp-relative reads of the current instruction) evaluated on the same real states, expected answer ok. "
             "Non-trivial = collection kept something / transcript has a successful form / step executed; distinct by "
             "request text",
        trusted_extra=["T03.5 (unobservability) is carried by stream (3) plus theorem T03.2, not by a closed theorem"])


# ROUND 8: the Ext laws are theorems for a table of real builtins (lib/props/procinv_util.py, Lemmas/ListExtC03.lean)
import procinv_util as _pv8
MODULE = _pv8.listext_module("C03")
THEOREMS = THEOREMS + [t for t in _pv8.LISTEXT_LAWS + _pv8.LISTEXT["C03"] if t not in THEOREMS]
META["note"] = META["note"] + _pv8.LISTEXT_NOTE


# FINAL ROUND (work package wp17): session forms over HistInstalls at the real builtins (Lemmas/ListExtSession.lean)
MODULE = (MODULE if isinstance(MODULE, list) else [MODULE]) + [_pv8.LISTEXT_SESSION_MODULE]
THEOREMS = THEOREMS + [t for t in _pv8.listext_session("C03") if t not in THEOREMS]
META["note"] = META["note"] + _pv8.LISTEXT_SESSION_NOTE
