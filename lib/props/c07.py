"""C07 — a failed evaluation leaves no trace beyond its completed effects."""
from pipeline import *

META = {
    "text": "Lean 4 theorems about the model of one evaluation (prepare_eval + run_count with its epilogues, run.rs "
            "after the error-path fix), for every heap, program, failure kind and depth: after a failed evaluation "
            "the VM is quiescent (sp = 0, bp = 0, ep = usize::MAX, acc = Undefined, every stack cell Undefined, "
            "capacity = what that evaluation needed) and the heap is exactly the heap at the failing instruction "
            "(completed effects only); a quiescent stack holds no return addresses, so later stack traces list only "
            "frames of the failing evaluation; k consecutive failures stay quiescent with no hypothesis; for arbitrary "
            "histories sp = 0 between evaluations. The instruction model (Machine.lean: all 16 opcodes, apply/eval/"
            "call-cc redispatch, continuation invocation) is tied to run_one by lock-step replay of every "
            "instruction of generated sessions incl. failing ones, the epilogue by register dumps after real "
            "failures, and the property is checked end-to-end against a twin VM that performed only the completed "
            "effects (same probes, same stack traces, same sp/capacity), k up to 1000.",
    "note": "Trusted: Lean kernel; axioms propext/Quot.sound (Classical.choice where simp uses it). The error arm of "
            "run_count ends with run_gc() (repo commit 1a2fd33); the model's error arm is gc(onError s) and T07.1/T07.2 "
            "carry the explicit hypothesis GcRegs (the collector touches only the heap: stack and registers unchanged; "
            "true of run_gc, which only marks and sweeps), the heap clause of T07.1 reads heap = (gc (onError sf)).heap. T07.2 for histories "
            "containing successful evaluations: `Balanced` is now a theorem (balanced_of_verified, "
            "sp_zero_between_evaluations_verified: no Balanced hypothesis) for every code object the bytecode verifier "
            "Vm/Verify.lean accepts, from WF-stack preservation (step_preserves, all 16 opcodes) — under the explicit "
            "hypothesis structures CodeLaws (generic heap) and GcLaws (collector changes only the heap and keeps lambdas "
            "referenced from ip.0 / the live stack), parameters not axioms, and EntryOK (each job's entry lambda is "
            "verified entry code); that real compiled code verifies is checked by C04's bytecode-verifier stream on "
            "every lambda of the real heap, not proved for the compiler model. The old theorem with the hypothesis is kept; the equivalence clause (later evaluations return what a twin VM returns) is carried by "
            "T07.1's 'heap unchanged + quiescent registers' plus the twin-VM exploration, not by a closed "
            "observational-equivalence theorem for the GENERIC heap (for the concrete machine see ROUND 4). ROUND 4 (heap simulation): GcRegs is discharged for the real collector model (cgc_regs): failed_eval_resets_cgc, sp_zero_between_evaluations_cgc, consecutive_failures_quiescent_cgc are the instantiated corollaries on the concrete machine. The equivalence clause T07.4 IS now a theorem on the concrete machine, failed_eval_equivalent_later: the state after the error epilogue (registers reset, stack wiped, collected) is Sim-related (equal up to an injection on heap addresses on everything reachable from the globals) to the twin that kept the heap of the failing instruction with idle registers and did not collect (failed_twin_sim), prepare_eval of the same form on both keeps them related (prepare_sim), and the next evaluation - any number of instructions, with the periodic collections - ends the same way on both: HALT with an equal datum in acc, or the same failure in Sim-related states (related stacks, from which the stack trace is computed). Explicit hypotheses: ExtLaws/ExtGood (unmodelled builtins, eval compiler, VPUSH), CompLaws/CompGood (the compiler inside prepare_eval), GoodI of the state the failed evaluation started in, SizeBounded (heaps <= 2^62 cells) and StackDiscAlong (frame discipline of the current instruction) along the three runs. Stated for ONE later evaluation from the post-failure state; iterating over a history needs the epilogue of the twin to be absorbed on the right as well (not done). Output and stack-trace rendering are outside the machine model and stay with the twin-VM exploration. Machine.lean is hand-written; its tie to run.rs is the lock-step "
            "correspondence (differential testing on reached states). ROUND 5 (WF-stack connected to the heap simulation): the bytecode verifier is VALUE-TYPED (abstract cells any | val | argc n: PUSHACC and PUSHIMM of a value push val, CONS pops two typed cells, CALL/TCALL need argc n over n typed cells, MOV never loads through a Ptr, MOVIMM loads a value, HALT is the last cell; 0 rejects on every real code object and on the compiler model's output) and WF-stack (Lemmas/StackWF*.lean) is re-proved for it for all 16 opcodes: val-typed temporaries, argument blocks and the argument cells of every frame hold values (IsValue = plainGlob, the notion of GoodI), acc holds a value, a frame has at least argNeed argument cells (ENTER compares argc with the formals of the code it runs). stackDisc_of_wfs (Lemmas/StackDiscOfWFS.lean) derives ALL SIX clauses of StackDisc from WFS (concreteLawsV ext ecl) s K; vmOk_reaches shows VmOk = GoodI /\ (WFS \/ halted) is an invariant of the REAL machine (run_one over concreteOps, run_gc = cgc): the guards of the machine the generic WF-stack theorem runs on (vops: guarded callee, value-guarded global/environment reads and VPUSH) are invisible on GoodI states (step_vops). The *_wf theorems restate the property WITHOUT StackDiscAlong: hypotheses = ExtLaws, ExtGood, ExtCodeLawsV (unmodelled builtins / eval compiler / VPUSH keep the value-typed code invariant CInvG IsValue), VmOk of the INITIAL state, SizeBounded, and CalleeOkAlong: at every reachable CALL/TCALL/ENTER site a closure / bare-lambda callee designates PROCEDURE code, not an entry lambda (oracle callee-ok of the C04 bytecode-verifier stream). CalleeOkAlong is NOT derived: it is a reachability fact (closures are built by CLOSURE from compile_lambda output; no value refers to an entry lambda) that needs two more heap-invariant clauses preserved by the unmodelled builtins. Non-vacuity: Demo.sHalt_vmOk. The safe-side-conditions stream also evaluates the value-typed frame of the current instruction on every real state (Driver/SimGood.typedCheck).",
    "technique": "Lean 4 proof (error epilogue resets to a quiescent state for every program; induction over histories) + lock-step instruction replay + twin-VM differential oracle",
}
MODULE = "Marwood.Proofs.C07"
THEOREMS = [
    "Marwood.Proofs.C07.onError_quiescent",
    "Marwood.Proofs.C07.failed_eval_resets",
    "Marwood.Proofs.C07.quiescent_no_frames",
    "Marwood.Proofs.C07.quiescent_stack_no_instrPtr",
    "Marwood.Proofs.C07.sp_zero_between_evaluations",
    "Marwood.Proofs.C07.consecutive_failures_quiescent",
    "Marwood.Vm.step_preserves",
    "Marwood.Vm.step_halt",
    "Marwood.Vm.runLoop_wf",
    "Marwood.Proofs.C07.balanced_of_verified",
    "Marwood.Proofs.C07.failed_idle",
    "Marwood.Proofs.C07.sp_zero_between_evaluations_verified",
    "Marwood.Proofs.C07.balanced_sp",
    "Marwood.Vm.Concrete.concreteLaws",
    "Marwood.Vm.Concrete.cgc_gcLaws",
    "Marwood.Proofs.C07.balanced_at",
    "Marwood.Proofs.C07.failed_idle_at",
    "Marwood.Proofs.C07.sp_zero_between_evaluations_concrete",
    "Marwood.Proofs.C07.failed_eval_resets_cgc",
    "Marwood.Proofs.C07.sp_zero_between_evaluations_cgc",
    "Marwood.Proofs.C07.consecutive_failures_quiescent_cgc",
    "Marwood.Proofs.C07.runLoop_reaches",
    "Marwood.Proofs.C07.failed_eval_equivalent_later",
    "Marwood.Lemmas.Good.failed_twin_sim",
    "Marwood.Lemmas.Good.prepare_sim",
    "Marwood.Lemmas.Good.onError_goodI",
    "Marwood.Lemmas.Good.traceFrames_rel",
    "Marwood.Proofs.C07.demo_failed_eval",
    "Marwood.Lemmas.Good.safe_of_good",
    "Marwood.Proofs.C07.failed_eval_equivalent_later_wf",
    "Marwood.Lemmas.Good.Demo.sHalt1_vmOk",
    "Marwood.Lemmas.Good.Demo.sHalt_calleeOkAlong1",
    "Marwood.Lemmas.Good.stackDisc_of_wfs",
    "Marwood.Lemmas.Good.step_vops",
    "Marwood.Lemmas.Good.vmOk_step",
    "Marwood.Lemmas.Good.vmOk_gc",
    "Marwood.Lemmas.Good.vmOk_reaches",
    "Marwood.Lemmas.Good.wfs_reaches",
    "Marwood.Lemmas.Good.stackDiscAlong_of_wfs",
    "Marwood.Lemmas.Good.safe_of_vmOk",
    "Marwood.Vm.Concrete.concreteLawsV",
    "Marwood.Vm.Concrete.cgc_gcLawsV",
    "Marwood.Vm.step_wr",
    "Marwood.Lemmas.Good.Demo.sHalt_vmOk",
    "Marwood.Lemmas.Good.Demo.sHalt_calleeOkAlong",
    "Marwood.Proofs.C13.failingExt_codeLawsV",
]


# ROUND 6: the callee guard is a theorem (lib/props/procinv_util.py)
import procinv_util as _pv
THEOREMS = THEOREMS + [t for t in _pv.COMMON_THEOREMS if t not in THEOREMS] + _pv.FAILING_EXT + ['Marwood.Proofs.C07.failed_eval_equivalent_later_closed', 'Marwood.Lemmas.Good.Demo.sHalt1_vmOkP', 'Marwood.Proofs.C07.prepared_pinv_after_failure', 'Marwood.Lemmas.Good.prepare_pinv', 'Marwood.Lemmas.Good.onError_pinv']
META["note"] = META["note"] + _pv.NOTE + ' C07: failed_eval_equivalent_later_closed (T07.4 equivalence clause without CalleeOkAlong on any of the three runs); prepared_pinv_after_failure: its hypotheses PInv s2 / PInv t2 follow from the compiler law CompProc (the heap returned by the compiler inside prepare_eval, fresh entry lambda included, satisfies HP) via onError_pinv, pinv_gc and prepare_pinv (VmOk s2 / VmOk t2 stay hypotheses, as in the _wf theorem).'

def nontrivial(req, impl):
    if req.startswith("step"):
        return "callAcc" in req or "tcallAcc" in req or "ret" in req or impl.startswith("err")
    return True


def streams(ctx):
    n = 120 if ctx.quick() else 2500
    cases = gen_cases("vm", ["trace", n, "fail"], ctx.seed)
    md, sd = correspond(ctx, "lockstep-run_one-with-failures", cases, nontrivial)
    settle(ctx, md, sd)
    n = 150 if ctx.quick() else 3000
    cases = gen_cases("vm", ["errtrace", n], ctx.seed)
    md, sd = correspond(ctx, "failure-twin-vm", cases, nontrivial)
    settle(ctx, md, sd)


def run(ctx):
    return standard_run(
        ctx, MODULE, THEOREMS, ["vm", "simstep"], streams,
        rule="(1) every instruction executed by generated sessions (half of them with an injected failure: unbound "
             "variable, wrong type, wrong arity, user error, bad syntax, call of a non-procedure) replayed through the "
             "Lean model of run_one: state before + heap facts consulted -> state after; (2) sessions where a form "
             "fails k in {1,2,3,5,10,1000} times at nesting depth 0..5 (inside user calls, let, builtin calls, "
             "non-tail recursion, call/cc receivers; plus read errors) vs a twin VM running the benign variant: "
             "register dump after the failure vs the model's error epilogue, then a common probe suite (globals, "
             "expressions, a failing probe's stack-trace length, sp, stack capacity, output log); non-trivial = "
             "calls/returns/errors; distinct by request; (3) stream prepare-installs (ROUND 10): the complete "
             "real VM state (registers, stack, every heap cell with payload, 2-bit map, free list, symbol table, global "
             "environment) immediately BEFORE and AFTER Vm::prepare_eval of generated and hand-written top-level forms "
             "(sessions in which earlier forms were evaluated; half of them on a free list scrambled by a forced "
             "collection) is replayed by the executable checker installsB / garbageB of Vm/PrepareCheck.lean (proved sound "
             "towards the relation Installs / InstallsGarbage of the theorems: installsB_sound) with the compiler MODEL's "
             "code objects for the form, plus a by-name comparison of the loaded code with the model's; non-trivial = "
             "a form that allocated")


# ROUND 8: the Ext laws are theorems for a table of real builtins (lib/props/procinv_util.py, Lemmas/ListExtC07.lean)
import procinv_util as _pv8
MODULE = _pv8.listext_module("C07")
THEOREMS = THEOREMS + [t for t in _pv8.LISTEXT_LAWS + _pv8.LISTEXT["C07"] if t not in THEOREMS]
META["note"] = META["note"] + _pv8.LISTEXT_NOTE


# ROUND 10 (work package wp14-prepare): prepare_eval re-establishes the machine invariant (Lemmas/Prepare*.lean)
THEOREMS = THEOREMS + [t for t in [
    "Marwood.Lemmas.Good.instStep_hg",
    "Marwood.Lemmas.Good.instStep_cinv",
    "Marwood.Lemmas.Good.cellPF_congr",
    "Marwood.Lemmas.Good.cput_hp_any",
    "Marwood.Lemmas.Good.instStep_hp",
    "Marwood.Lemmas.Good.instSteps_all",
    "Marwood.Lemmas.Good.VmOkP.idleOk",
    "Marwood.Lemmas.Good.IdleOk.installs",
    "Marwood.Lemmas.Good.IdleOk.gc",
    "Marwood.Lemmas.Good.loaded_entry_ty",
    "Marwood.Lemmas.Good.prepare_vmOkP_idle",
    "Marwood.Lemmas.Good.prepare_vmOkP",
    "Marwood.Lemmas.Good.idleOk_onDone",
    "Marwood.Lemmas.Good.idleOk_onError",
    "Marwood.Lemmas.Good.runLoop_last",
    "Marwood.Lemmas.Good.idleOk_runEval",
    "Marwood.Lemmas.Good.histInstalls_ok",
    "Marwood.Proofs.C07.failed_eval_equivalent_later_installs",
    "Marwood.Proofs.C07.failed_eval_equivalent_later_installs_vmOkP",
] if t not in THEOREMS]


# ROUND 10, continued: the tie of `Installs` to the real prepare_eval (stream prepare-installs)
MODULE = (MODULE if isinstance(MODULE, list) else [MODULE]) + ["Marwood.Lemmas.PrepareCheckSound", "Marwood.Lemmas.PrepareDemo", "Marwood.Vm.PrepareCheckFast"]
THEOREMS = THEOREMS + [t for t in [
    "Marwood.Lemmas.Good.loadedB_sound",
    "Marwood.Lemmas.Good.codeOkB_sound",
    "Marwood.Lemmas.Good.loadedQB_sound",
    "Marwood.Lemmas.Good.immLoadedB_sound",
    "Marwood.Lemmas.Good.envOkB_sound",
    "Marwood.Lemmas.Good.codeOkHB_sound",
    "Marwood.Lemmas.Good.replay_sound",
    "Marwood.Lemmas.Good.stepsB_sound",
    "Marwood.Lemmas.Good.installsB_sound",
    "Marwood.Lemmas.Good.garbageB_sound",
    "Marwood.Vm.Concrete.installsFast_or",
    "Marwood.Vm.Concrete.garbageFast_or",
    "Marwood.Lemmas.Good.Demo.demo_installs",
    "Marwood.Lemmas.Good.Demo.demo_prepared_vmOkP",
] if t not in THEOREMS]
META["note"] = META["note"] + (
    " ROUND 10 (prepare_eval re-establishes the invariant; Lemmas/Prepare*.lean): failed_eval_equivalent_later_closed "
    "asked VmOk /\\ PInv of the state the failing evaluation starts in AND of the two states (s2, t2) the later "
    "evaluation starts in, plus the law CompGood of the compiler inside prepare_eval. These are now consequences. "
    "Installs e fuel s s' entry (Lemmas/PrepareDefs.lean) is the relation between the machine before and after the "
    "compiler+loader of prepare_eval: registers and stack unchanged; the heap grows by allocator steps InstStep "
    "(cput / putNew as the instruction model allocates: free-list head or heap growth, 2-bit map; never a write to an "
    "existing cell) of lambda cells that are Enc-loadings of code objects of the compiler model's compileRunnable e "
    "fuel, data cells of the quoted data (pairs, address-free atoms, vectors), newly interned symbols, new Undefined "
    "global slots - every cell's references already allocated when it is put (children first), no value position "
    "designating entry code; the entry cell holds a loading of entryLam. InstallsGarbage: what a REJECTED form leaves "
    "behind before the collection of the Err arm (same steps, code objects constrained only by the clauses the "
    "invariants state of every lambda cell). THEOREM prepare_vmOkP (closed, no sorry): VmOkP of a state with an empty "
    "stack (or the idle invariant IdleOk = GoodI /\\ CInvG IsValue /\\ PInv /\\ sp = 0, which every evaluation "
    "leaves behind: idleOk_runEval) + Installs + Small of the new heap => VmOkP (prepare s' entry): all clauses of "
    "GoodI (instStep_hg via put_core/putNew_hg; roots), WF-stack (WFS.initial; the entry lambda is verified ENTRY code "
    "by T04.6 entry_verifyLam: loaded_entry_ty), CInvG IsValue (compiled_lambda_clauses, cput_lambda_growsL), PInv "
    "(cput_hp_any: allocating a code cell - possibly entry code - keeps 'no value leads to entry code' because every "
    "address the predicate inspects is an allocated address of the old heap, cellPF_congr). "
    "failed_eval_equivalent_later_installs: T07.4 with IdleOk of the machine BEFORE the failing job (or VmOkP of an "
    "initial state, _vmOkP) and Installs for the three prepare_eval steps instead of the per-state invariants; "
    "CompGood is gone, CompLaws (the compiler acts alike on Sim-related heaps) stays - it is what a statement "
    "relating two heaps needs. histInstalls_ok: for whole histories (HistInstalls: accepted and rejected forms) every "
    "job starts in a VmOkP state. Also prepare_npinv / history_never_panics_installs (Lemmas/PrepareNP.lean, "
    "PrepareNoPanic.lean: the C06 history theorem without HistGood's VmOkP clause; not listed here, it depends on the "
    "NoPanic files of another work package). TIE TO THE CODE: the relation is not proved of the Rust function; the "
    "stream prepare-installs checks it on every generated prepare_eval with the executable checker installsB / "
    "garbageB (Vm/PrepareCheck.lean: replays the allocations in allocator order on the before-heap, evaluating every "
    "side condition of InstStep on the heap reached so far, then the new global slots, then compares everything up to "
    "the representation of the two hash maps), PROVED SOUND towards Installs / InstallsGarbage (installsB_sound, "
    "garbageB_sound), with the compiler MODEL's code objects for the form (LoadedLam decided by loadedB) and a by-name "
    "comparison of the loaded top-level code with the model's (as the C04 compiled-code stream). Quick tier: 1326 "
    "real prepare_eval calls (1118 accepted, 203 rejected of which 74 left garbage, 5 rejected with a collection: "
    "registers only), 3712 new lambda cells, heap growth in 15, scrambled free list in 814, prepared in mid-evaluation "
    "in 142; 0 disagreements over 20 seeds (~35000 calls); 14 hand-mutated requests all rejected. What the stream "
    "cannot see: string contents (opaque tags in the concrete heap model) and the key->slot map of the global "
    "environment (CHeap keeps keys and slots only); forms containing define-syntax are not sent (the compiler MODEL "
    "answers unsupported). Non-vacuity: Demo.demo_installs (the form #t on the demo machine, through installsB_sound by "
    "kernel evaluation) and demo_prepared_vmOkP. WAVE 12: the relation was STRENGTHENED IN PLACE with what the slot "
    "invariant EnvInv of C06 needs (LoadedLam.envLen: the loaded environment map has the model's length; ImmLoaded, "
    "heap-relative: quoted-data immediates do not point to capturing lambdas, a `lambda id` immediate points to a loading "
    "of code object id whose IofEnvironment(k) slots are slots of the parent's own map holding the same symbol; dataEB for "
    "new pairs / vectors; LamEnvOk for the garbage of a rejected form) and the checker with it (loadedB, immLoadedB, "
    "dataEB, envOkB / codeOkHB; immLoadedB_sound, envOkB_sound, codeOkHB_sound, installsB_sound, garbageB_sound): all real "
    "prepare_eval calls of the stream are still accepted (1326 quick; 2658 over two seeds), 1300 length-mutated and 52 "
    "slot-mutated accepted requests are all refused. The theorems above are unchanged in statement; "
    "prepare_envInv / history_never_panics_from_initial (C06) are the new consumers.")

_streams_r9 = streams

def prep_nontrivial(req, impl):
    # info token p:<mode>:<allocations>:…
    try:
        return int(req.split(" ", 2)[1].split(":")[2]) > 0
    except Exception:
        return False

def streams(ctx):
    _streams_r9(ctx)
    n = 40 if ctx.quick() else 300
    cases = gen_cases("simstep", ["prep", n], ctx.seed)
    md, sd = correspond(ctx, "prepare-installs", cases, prep_nontrivial)
    settle(ctx, md, sd)


# FINAL ROUND (work package wp17): T07.4 with prepare_eval explicit at the real builtins
# (failed_eval_equivalent_later_installs_listExt, Lemmas/ListExtC07.lean, is in LISTEXT["C07"]); its non-vacuity
# instance lives in Lemmas/ListExtSession.lean, hence the module
MODULE = (MODULE if isinstance(MODULE, list) else [MODULE]) + [_pv8.LISTEXT_SESSION_MODULE]
THEOREMS = THEOREMS + [t for t in _pv8.listext_session("C07") if t not in THEOREMS]
META["note"] = META["note"] + _pv8.LISTEXT_SESSION_NOTE_C07
