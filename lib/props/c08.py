"""C08 — exact arithmetic is exact; inexactness is never silently dropped."""
from pipeline import *
from num_util import *

META = {
    "text": "Lean 4 theorems over a model of number.rs / builtin/number.rs (the 4x4 representation tables of + - * /, "
            "quotient remainder modulo, abs floor ceiling truncate numerator denominator expt; i64/i32 as integers with "
            "explicit range checks, Ratio<i32> routines modelled from num-rational, doubles computed exactly by a pure "
            "round-to-nearest-even over rationals): an exact answer always equals the result in Q for every "
            "representation pair; quotient/remainder/modulo are total for a non-zero divisor and equal tdiv/tmod/fmod "
            "in every representation; for abs floor ceiling truncate numerator denominator expt an inexact answer is "
            "given only when the exact result is not representable and the answer does not depend on the "
            "representation of the operand (full strength, no guard; expt after fix 7762e0a). The pure rounding "
            "function is proved monotone, exact on representable values and within 2^-53 relative in the normal range. "
            "The model is tied to the code by bit-exact comparison (value, representation and "
            "double bit pattern) over the boundary palette of the property squared, through marwood::number::Number "
            "directly and through the Scheme procedures, in a release and in a debug build; every answer of the "
            "implementation is also judged against exact rational arithmetic (exact and equal, or inexact only when "
            "the result is not representable and within 2^-50 relative).",
    "note": "Trusted: Lean kernel; axioms propext, Classical.choice, Quot.sound; the hand-written model is tied to the "
            "Rust code by differential testing only; Stein gcd, Ratio::cmp and i64/i32::checked_pow are modelled by "
            "their mathematical results; IEEE-754 arithmetic enters as the pure function Fl.rnd (round to nearest even "
            "of the exact result): proved monotone, exact on the values of finite doubles and within 2^-53 relative in "
            "the normal range (rnd_monotone, rnd_exact_on_doubles, rnd_relative_error about the implementation in "
            "Num/F64.lean, no RndLaws hypothesis left); that this function is what the hardware computes is validated "
            "bit-for-bit on every inexact answer of the streams, not proved; results whose magnitude leaves the doubles' normal range "
            "are outside the error-bound clause (reported as 'outside'); expt is exercised with exponents up to 1000. "
            "Closed theorems (no guard): T08.1 for + - * / abs numerator denominator floor ceiling truncate expt, "
            "T08.3, T08.5, T08.2 and T08.4 for abs floor ceiling truncate numerator denominator expt (also for the "
            "procedure expt with the exponent in any representation), the 2^-53 accuracy of an inexact expt in the "
            "normal range and of an inexact abs (T08_2_expt_accuracy, T08_2_abs_accuracy). _partial (explicit guard): T08.2 for + - * on "
            "integer representations and for / on integers within i32, T08.4 for + as equality of exact values. "
            "The clause 'inexact only when not representable' and representation independence are FALSE for + - * / "
            "(four known findings, each with a proved witness: not_T08_2_add/sub/mul/div, not_T08_4); the float "
            "fall-backs behind them are asserted by the project's own unit tests number::tests::{add,sub,mul,div} "
            "(value and enum discriminant), so a repair would require editing the suite. The error bound of an inexact "
            "answer is a theorem for expt, abs, + and - (T08_2_*_accuracy: 2^-50 relative to max(|x|,|y|,|result|) for "
            "magnitudes below 2^1000) and now for * and / as well (T08_2_mul_accuracy, T08_2_div_accuracy: an inexact "
            "product or quotient of well-formed exact operands is finite and within 2^-50*max(|x|,|y|,|result|) of the "
            "exact result, under the hypotheses |x| < 2^1023, |y| < 2^1023, |exact result| < 2^1022 and, for /, a "
            "non-zero divisor; no lower bound is assumed: a non-zero exact operand is proved to have magnitude >= 2^-31, "
            "so the two operand conversions have pure relative error and the underflow term 2^-1075 of the last of the "
            "three roundings is absorbed by max(|x|,|y|); a zero operand gives a zero answer); outside those magnitude "
            "bounds (overflowing results) the bound is not claimed.",
    "technique": "Lean 4 proof (model answer = exact rational result, all representation pairs) + bit-exact "
                 "model-vs-implementation correspondence + rational-arithmetic oracle on the implementation",
}
MODULE = "Marwood.Proofs.C08"
THEOREMS = [
    "Marwood.Proofs.C08.add_exact_correct",
    "Marwood.Proofs.C08.sub_exact_correct",
    "Marwood.Proofs.C08.mul_exact_correct",
    "Marwood.Proofs.C08.div_exact_correct",
    "Marwood.Proofs.C08.quotient_is_tdiv",
    "Marwood.Proofs.C08.remainder_is_tmod",
    "Marwood.Proofs.C08.modulo_is_fmod",
    "Marwood.Proofs.C08.intVal_exact",
    "Marwood.Proofs.C08.expt_exact_correct",
    "Marwood.Proofs.C08.T08_2_expt",
    "Marwood.Proofs.C08.expt_exact_iff_representable",
    "Marwood.Proofs.C08.T08_4_expt",
    "Marwood.Proofs.C08.T08_4_scm_expt",
    "Marwood.Proofs.C08.T08_2_expt_accuracy",
    "Marwood.Proofs.C08.T08_2_abs_accuracy",
    "Marwood.Proofs.C08.T08_2_add_accuracy",
    "Marwood.Proofs.C08.T08_2_sub_accuracy",
    "Marwood.Proofs.C08.T08_2_mul_accuracy",
    "Marwood.Proofs.C08.T08_2_div_accuracy",
    "Marwood.Proofs.C08.pinned_expt_rational",
    "Marwood.Proofs.C08.rnd_monotone",
    "Marwood.Proofs.C08.rnd_exact_on_doubles",
    "Marwood.Proofs.C08.rnd_relative_error",
    "Marwood.Proofs.C08.T08_2_abs",
    "Marwood.Proofs.C08.T08_2_integer_valued",
    "Marwood.Proofs.C08.T08_4_unary",
    "Marwood.Proofs.C08.T08_4_numerator_denominator",
    "Marwood.Proofs.C08.T08_2_partial_integers",
    "Marwood.Proofs.C08.T08_2_partial_div",
    "Marwood.Proofs.C08.T08_4_partial_value",
    "Marwood.Proofs.C08.not_T08_2_add",
    "Marwood.Proofs.C08.not_T08_2_div",
    "Marwood.Proofs.C08.not_T08_4",
]


def nontrivial(req, impl):
    return impl.startswith("ok ")


def run_stream(ctx, name, cases):
    md, sd = correspond(ctx, name, cases, nontrivial, spec_equal=conforms)
    settle_all(ctx, md, sd)
    st = ctx.streams[name]
    st["known_finding_cases"] = dict(ctx.__dict__.get("finding_counts", {}))


def streams(ctx):
    q = ctx.quick()
    # corpus first
    run_stream(ctx, "corpus", corpus_cases("C08", ctx.seed))
    # release build: the full palette
    run_stream(ctx, "arith-pairs", gen_cases("num", ["arith-pairs", 8 if q else 40, 8 if q else 40, 7 if q else 3], ctx.seed))
    run_stream(ctx, "int-pairs", gen_cases("num", ["int-pairs", 10 if q else 40, 3 if q else 1], ctx.seed))
    run_stream(ctx, "unary-expt", gen_cases("num", ["unary", 10 if q else 60, 10 if q else 60], ctx.seed))
    run_stream(ctx, "variadic", gen_cases("num", ["variadic", 3000 if q else 40000], ctx.seed))
    # debug build (overflow checks on): the panic class
    ok, log = build_harness(["num"], "dev")
    if not ok:
        report_broken(ctx, "harness-build-dev", log[-3000:])
        return
    run_stream(ctx, "corpus-debug", corpus_cases("C08", ctx.seed, profile="debug"))
    run_stream(ctx, "arith-pairs-debug", gen_cases("num", ["arith-pairs", 0, 0, 5 if q else 2], ctx.seed, profile="debug"))
    run_stream(ctx, "int-pairs-debug", gen_cases("num", ["int-pairs", 0, 5 if q else 1], ctx.seed, profile="debug"))
    run_stream(ctx, "unary-expt-debug", gen_cases("num", ["unary", 0, 0], ctx.seed, profile="debug"))


def run(ctx):
    return standard_run(
        ctx, MODULE, THEOREMS, ["num"], streams,
        rule="boundary palette of the property (0, +-1, +-2^31(+-1,+-2), +-2^32.., +-2^53.., +-2^63(+-1,+-2), +-2^64.., "
             "sqrt boundaries 46340/46341/3037000499/3037000500, random 8..256-bit integers, every integer also as "
             "BigInt and as integer-valued Rational when it fits; rationals over parts {1,2,3,5,7,46340,46341,65535,"
             "65536,2^30,2^31-3..2^31-1,-2^31} plus random) squared x {+,-,*,/} and, for integer-valued members, "
             "{quotient,remainder,modulo}; unary abs floor ceiling truncate numerator denominator; expt with "
             "exponents {0..5,7,15,16,31,32,40} (+62..1000 for small bases); random 3..5-argument + * -; each case "
             "through marwood::number::Number and through Vm::eval of (proc 'a 'b); release and debug builds; "
             "non-trivial = the call returned a number; distinct by request text",
        trusted_extra=["agreement of the pure IEEE-754 binary64 rounding Marwood.Fl.rnd with the hardware (validated bit-for-bit; the function itself is proved monotone, exact on doubles and 2^-53-accurate)",
                       "num-rational 0.4.1 / num-integer routines modelled by their mathematical results on well-formed ratios"])
