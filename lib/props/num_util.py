"""Helpers shared by the NUM plugins (C08, C09)."""
import os
from pipeline import *

I32 = (-(1 << 31), (1 << 31) - 1)


def operands(req):
    """(level, op, [operand tokens]) of a `num …` / `scm …` request."""
    t = req.split(" ")
    return t[0], t[1], t[2:]


def int_of(tok):
    """integer value of a fix:/big: token, else None"""
    if tok.startswith("fix:") or tok.startswith("big:"):
        return int(tok[4:])
    return None


def wide_int(tok):
    v = int_of(tok)
    return v is not None and not (I32[0] <= v <= I32[1])


def is_rat(tok):
    return tok.startswith("rat:")


CANON = {"add": "+", "sub": "-", "mul": "*", "div": "/", "pow": "expt"}


def fallback_class(req):
    """Which documented float fall-back of number.rs an arithmetic request can reach
    (None: no fall-back is documented for this shape, so an inexact answer is a new defect)."""
    level, op, xs = operands(req)
    op = CANON.get(op, op)
    if op == "expt":
        # after fix 7762e0a expt has no fall-back with a representable result (theorem T08_2_expt)
        return None
    if op not in ("+", "-", "*", "/"):
        return None
    if level == "scm" and (len(xs) >= 3 or (op == "-" and len(xs) == 1)):
        return "variadic-contagion" if any(is_rat(x) or wide_int(x) or x.startswith("big:") for x in xs) else None
    if op == "/":
        ys = xs if len(xs) == 2 else ["fix:1"] + xs
        if any(wide_int(x) for x in ys):
            return "div-wide"
        return "rational-overflow" if any(is_rat(x) for x in ys) else None
    if len(xs) != 2:
        return None
    a, b = xs
    if not (is_rat(a) or is_rat(b)):
        return None
    other = b if is_rat(a) else a
    if is_rat(a) and is_rat(b):
        return "rational-overflow"
    if wide_int(other) or (other.startswith("big:") and rat_is_fraction(a if is_rat(a) else b)):
        return "wide-int-with-rational"
    return "rational-overflow"


def rat_is_fraction(tok):
    return is_rat(tok) and not tok.endswith("/1")


@predicate("c08_float_fallback")
def c08_float_fallback(case, m):
    """the implementation answered inexactly although the true result is representable, through
    the documented fall-back `m["class"]`, and exactly as the model of that fall-back predicts"""
    return (case.get("spec") == "violates inexact-but-representable"
            and case.get("impl", "").startswith("ok flo:")
            and case.get("impl") == case.get("model")
            and fallback_class(case["request"]) == m.get("class"))


def conforms(req, impl, spec):
    return spec.startswith("conforms") or spec.startswith("outside")


def settle_all(ctx, md, sd, max_report=3):
    """Like pipeline.settle, but looks at every disagreement: known findings are counted per id
    (one representative kept), everything else is a violation."""
    counts = ctx.__dict__.setdefault("finding_counts", {})
    seen = {f["id"] for f, _ in ctx.known_hits}
    sd_reqs = set()
    for c in sd:
        sd_reqs.add(c["request"])
        f = match_finding(ctx, c)
        if f:
            counts[f["id"]] = counts.get(f["id"], 0) + 1
            if f["id"] not in seen:
                seen.add(f["id"])
                ctx.known_hits.append((f, c))
        elif len(ctx.violations) < 50:
            ctx.violations.append(dict(c, kind="violation"))
    only_model = [c for c in md if c["request"] not in sd_reqs and not match_finding(ctx, c)]
    if only_model:
        report_broken(ctx, "correspondence", only_model[:max_report])


def corpus_cases(prop, seed, profile="release"):
    d = os.path.join(VERIF, "corpus", prop)
    cases = []
    for name in sorted(os.listdir(d)) if os.path.isdir(d) else []:
        if name.endswith(".txt"):
            cases += gen_cases("num", ["corpus", os.path.join(d, name)], seed, profile=profile)
    return cases


def outside_count(ctx, stream, cases):
    pass
