"""C05 — first-class continuations: escape, re-entry and cross-evaluation invocation."""
from pipeline import *

META = {
    "text": "Lean 4 theorems about the models of call/cc (builtin/procedure.rs), continuation invocation in CALL/TCALL "
            "(run.rs), Stack::to_continuation / restore_continuation (stack.rs) and RET, for every heap and state: "
            "(T05.1) the continuation created by call/cc holds exactly stack[0..=sp-2] (everything below the two "
            "operands), the current ep and bp, and ip = the instruction after the call, and the receiver is re-dispatched "
            "with it as single argument (callcc_captures; callcc_step on whole instructions, naming the object "
            "capturedCont s0); (T05.2) invoking it in ANY later state (any depth, any later evaluation, any heap) "
            "with n>=1 arguments restores that stack prefix and those registers, puts the last argument in acc and keeps "
            "the current heap — so mutations since capture stay visible; (T05.4) hence operands evaluated before the "
            "capture keep their values. The property's first sentence as ONE theorem about executions of the machine "
            "model (invoke_continues_as_if_returned, invoke_run_continues, invoke_run_same_result): with Resume s0 v h := "
            "'the call/cc expression at s0 has just returned v, heap h' (s0 after its CALL: ip behind it, the two operands "
            "popped, acc=v, s0's stack cells/ep/bp, heap h), one CALL/TCALL of k with last argument v from ANY state t yields "
            "a state equal to Resume s0 v t.heap on all registers, the heap and the live stack cells 0..=sp, and the whole "
            "rest of the run (any number of instructions, up to and including HALT, same value, same heap) is the run from "
            "Resume, because step is a function of (live stack, registers, heap) (step_live_congruence, "
            "runN_live_congruence). (T05.3, closed) no instruction of a WF-stack execution writes below the base of a live "
            "frame (step_below, prefix_unwritten), so when the receiver returns v normally the state after its RET is "
            "Resume s0 v h too — 'receiver returns v' and '(k v)' coincide (receiver_return_is_resume, "
            "receiver_return_equals_invocation). Non-vacuity: a concrete machine that captures, returns, halts, and is "
            "re-entered from a later evaluation (Lemmas/ContResumeToy.lean). Tied to the code by lock-step replay of every "
            "instruction of continuation-heavy sessions; the property itself is checked on scenario families with "
            "closed-form expected values (escape from depth, normal return, re-entry 1-3 times from later top-level "
            "forms, operands before/after the capture point, k stored in vectors/pairs and invoked from map/for-each "
            "callbacks, call/cc in loop tail position and inside another continuation's extent, apply of k and of call/cc, "
            "zero/many arguments, captures deeper than the initial stack capacity).",
    "note": "Trusted: Lean kernel; axioms propext/Quot.sound/Classical.choice. All theorems are about the machine model "
            "Vm.step (tied to run.rs by lock-step replay), not about a source-level semantics: 'continues as if call/cc had "
            "returned v' is the statement 'continues as the machine does from Resume s0 v h'; the compiler model is "
            "shown to emit for (call/cc e) exactly <code of e>; PUSH; PUSHIMM argc 1; <operator>; CALL|TCALL "
            "(compile_callcc_site, T01.4 for one operand), which places s0/Resume in compiled code, but that running "
            "<code of e> yields e's value (compiler correctness beyond C01's stage 1) and a CPS definitional semantics "
            "with its simulation are NOT proved. Hypotheses, all explicit "
            "parameters (none an axiom): CodeLaws (generic heap: code objects immutable and accepted by the bytecode "
            "verifier, continuations are snapshots of WF states; checked by C04's bytecode-verifier stream) for the "
            "WF-stack theorems; for step_live_congruence / the run theorems additionally LiveLaws (CLOSURE's and ENTER's "
            "environment construction read live stack cells only — a THEOREM for the concrete heap: concreteLiveLaws), "
            "BpLive (a BasePointerOffset SOURCE operand designates a cell <= sp) — since round 4 a THEOREM from WF-stack "
            "(bpLive_of_wfs): the bytecode verifier now rejects such an operand unless in procedure code with offset <= 0 "
            "(Verify.bpSrcOk; 0 rejects on every real code object), so step_live_congruence_verified / "
            "invoke_run_same_result_verified carry only FitOK; invoke_run_same_result_concrete is the statement on the "
            "concrete heap (gops ext = concreteOps ext with the callee guard, see C04's note: hypotheses ExtCodeLaws ext, "
            "WFS incl. CInv of the heap at the invocation, FitOK); and the capacity "
            "clause of SideOK / hfit: when a continuation is invoked its stack copy fits the current capacity — stands for "
            "'Stack never shrinks' in stack.rs (for re-entry within one evaluation it is a theorem of the model: "
            "step_len_mono, invoke_within_run_continues_as_if_returned; across evaluations, and for the continuations "
            "invoked later in a run, it is a hypothesis); the model reproduces the restore_continuation panic when it fails, and the "
            "seeded changes that shrink the stack are caught by the deep re-entry scenarios, not by a theorem. "
            "receiver_return_is_resume is stated for call/cc in operand position (CALL) and receivers that do not invoke a "
            "continuation before returning (Trace); for call/cc in tail position (TCALL) capture and invocation theorems "
            "hold as stated but the normal-return comparison is one instruction off (the RET after the TCALL) and not "
            "stated. Liveness of captured continuations across collections (T05.5) belongs to C03's marker theorems. ROUND 5: the bytecode verifier is value-typed (val | argc n | any) and WF-stack is re-proved for it (all 16 opcodes; continuation snapshots now also record that they resume at a non-prologue instruction and that typed cells hold values); every theorem above is unchanged in statement. (invoke_run_same_result_machine, the statement on concreteOps without the callee guard, was NOT done in round 5: see ROUND 6 below.)",
    "technique": "Lean 4 proof (capture/restore lemmas over an abstract heap, any later state; write-set and live-read lemmas per instruction over the WF-stack invariant; run-level congruence) + lock-step replay + scenario oracle with closed-form expectations",
}
MODULE = "Marwood.Proofs.C05"
THEOREMS = [
    "Marwood.Proofs.C05.capture_spec",
    "Marwood.Proofs.C05.callcc_captures",
    "Marwood.Proofs.C05.invoke_restores",
    "Marwood.Proofs.C05.capture_then_invoke",
    "Marwood.Proofs.C05.ret_of_receiver_frame",
    "Marwood.Vm.step_preserves",
    "Marwood.Proofs.C05.receiver_frame_header_intact",
    "Marwood.Proofs.C05.receiver_return_is_invocation",
    "Marwood.Proofs.C05.ret_of_receiver_frame_verified",
    "Marwood.Vm.step_below",
    "Marwood.Vm.Trace.prefix_unwritten",
    "Marwood.Proofs.C05.prefix_unwritten",
    "Marwood.Vm.callcc_step",
    "Marwood.Proofs.C05.invoke_continues_as_if_returned",
    "Marwood.Proofs.C05.receiver_return_is_resume",
    "Marwood.Proofs.C05.receiver_return_equals_invocation",
    "Marwood.Vm.step_stack",
    "Marwood.Vm.step_live_congruence",
    "Marwood.Vm.runN_live_congruence",
    "Marwood.Proofs.C05.invoke_run_continues",
    "Marwood.Proofs.C05.invoke_run_same_result",
    "Marwood.Vm.step_len_mono",
    "Marwood.Vm.runN_len_mono",
    "Marwood.Proofs.C05.invoke_within_run_continues_as_if_returned",
    "Marwood.Vm.one_operand_site",
    "Marwood.Vm.compile_callcc_site",
    # BpLive discharged by the strengthened verifier; the concrete instance
    "Marwood.Vm.bpLive_of_wfs",
    "Marwood.Vm.step_live_congruence_wf",
    "Marwood.Vm.runN_live_congruence_wf",
    "Marwood.Proofs.C05.step_live_congruence_verified",
    "Marwood.Proofs.C05.invoke_run_same_result_verified",
    "Marwood.Vm.Concrete.concreteLiveLaws",
    "Marwood.Proofs.C05.invoke_run_same_result_concrete",
]


# ROUND 6: the callee guard is a theorem (lib/props/procinv_util.py)
import procinv_util as _pv
THEOREMS = THEOREMS + [t for t in _pv.COMMON_THEOREMS if t not in THEOREMS] + _pv.FAILING_EXT + ['Marwood.Lemmas.Good.concreteLiveLawsV', 'Marwood.Lemmas.Good.step_vops_conv', 'Marwood.Lemmas.Good.GoodI.of_liveEq', 'Marwood.Lemmas.Good.PInv.of_liveEq', 'Marwood.Lemmas.Good.runN_live_congruence_machine', 'Marwood.Proofs.C05.invoke_run_continues_machine', 'Marwood.Proofs.C05.invoke_run_same_result_machine']
META["note"] = META["note"] + _pv.NOTE + " C05 ON THE REAL MACHINE (the gap named at the end of the previous round is closed): invoke_run_continues_machine / invoke_run_same_result_machine state the property's first sentence for run_one over concreteOps (no callee guard, no value guards): after (k v) every further instruction, up to and including HALT, is - up to stale cells above sp - what the machine does from the CONSTRUCTED state Resume s0 v t.heap. Proof (Lemmas/ContResumeMachine.lean): LiveLaws for the value-typed laws (concreteLiveLawsV), step_vops and its converse step_vops_conv (on GoodI states whose callee passes the guard the guarded and the real instruction coincide, both directions), and the invariants are properties of the LIVE part of a state (GoodI.of_liveEq, PInv.of_liveEq, WFS.of_liveEq), so the second run - which does not start from a reachable state - is carried along the first in lock step (runN_live_congruence_machine); no VmOk-at-capture hypothesis is needed. Hypotheses: ExtLaws, ExtGood, ExtCodeLawsV, ExtProc; GoodI, WF-stack (value-typed verifier) and PInv of the invoking state t; SizeBounded from t; the shape of the invocation (callee = continuation (capturedCont s0), argc n >= 1 on top); and the capacity conditions hfit / FitOK (the stack never shrinks). Non-vacuity: the run-level congruence is instantiated on the demo state and a padded, unreachable copy of it (every hypothesis discharged); the hypotheses of the invoke theorems themselves are exhibited on the toy instance (CToy, generic theorem) only - no concrete-heap state with a continuation cell is constructed in Lean."

def nontrivial(req, impl):
    if req.startswith("step"):
        return "callee=K" in req or "/callcc" in req
    return "call/cc" in req


def streams(ctx):
    n = 270 if ctx.quick() else 9000
    cases = gen_cases("vm", ["conts", n], ctx.seed)
    md, sd = correspond(ctx, "callcc-scenarios-closed-form", cases, nontrivial)
    settle(ctx, md, sd)
    n = 180 if ctx.quick() else 3000
    cases = gen_cases("vm", ["trace", n, "conts"], ctx.seed)
    md, sd = correspond(ctx, "lockstep-run_one-continuations", cases, nontrivial)
    settle(ctx, md, sd)
    n = 60 if ctx.quick() else 1000
    cases = gen_cases("vm", ["trace", n], ctx.seed)
    md, sd = correspond(ctx, "lockstep-run_one-sessions", cases, nontrivial)
    settle(ctx, md, sd)


def run(ctx):
    return standard_run(
        ctx, MODULE, THEOREMS, ["vm"], streams,
        rule="nine scenario families x random values/depths, each form's value or failure class against its closed-form "
             "expectation; every instruction of those sessions and of generic generated sessions (which place call/cc "
             "at operand and tail positions and store k in globals for re-entry from later forms) replayed through the "
             "Lean model of run_one; non-trivial = continuation capture/invocation steps, forms containing call/cc")


# ROUND 8: the Ext laws are theorems for a table of real builtins (lib/props/procinv_util.py, Lemmas/ListExtC05.lean)
import procinv_util as _pv8
MODULE = _pv8.listext_module("C05")
THEOREMS = THEOREMS + [t for t in _pv8.LISTEXT_LAWS + _pv8.LISTEXT["C05"] if t not in THEOREMS]
META["note"] = META["note"] + _pv8.LISTEXT_NOTE
