"""C05 — first-class continuations: escape, re-entry and cross-evaluation invocation."""
from pipeline import *
from collections import Counter

META = {
    "text": "Lean 4 theorems about the models of call/cc (builtin/procedure.rs), continuation invocation in CALL/TCALL "
            "(run.rs), Stack::to_continuation / restore_continuation (stack.rs) and RET, for every heap and state: "
            "(T05.1) the continuation created by call/cc holds exactly stack[0..=sp-2] (everything below the two "
            "operands), the current ep and bp, and ip = the instruction after the call, and the receiver is re-dispatched "
            "with it as single argument (callcc_captures; callcc_step on whole instructions, naming the object "
            "capturedCont s0); (T05.2) invoking it in ANY later state (any depth, any later evaluation, any heap) "
            "with n>=1 arguments restores that stack prefix and those registers, puts the last argument in acc and keeps "
            "the current heap — so mutations since capture stay visible; (T05.4) hence operands evaluated before the "
            "capture keep their values. The property's first sentence as ONE theorem about executions of the machine "
            "model (invoke_continues_as_if_returned, invoke_run_continues, invoke_run_same_result): with Resume s0 v h := "
            "'the call/cc expression at s0 has just returned v, heap h' (s0 after its CALL: ip behind it, the two operands "
            "popped, acc=v, s0's stack cells/ep/bp, heap h), one CALL/TCALL of k with last argument v from ANY state t yields "
            "a state equal to Resume s0 v t.heap on all registers, the heap and the live stack cells 0..=sp, and the whole "
            "rest of the run (any number of instructions, up to and including HALT, same value, same heap) is the run from "
            "Resume, because step is a function of (live stack, registers, heap) (step_live_congruence, "
            "runN_live_congruence). (T05.3, closed) no instruction of a WF-stack execution writes below the base of a live "
            "frame (step_below, prefix_unwritten), so when the receiver returns v normally the state after its RET is "
            "Resume s0 v h too — 'receiver returns v' and '(k v)' coincide (receiver_return_is_resume, "
            "receiver_return_equals_invocation). Non-vacuity: a concrete machine that captures, returns, halts, and is "
            "re-entered from a later evaluation (Lemmas/ContResumeToy.lean). Tied to the code by lock-step replay of every "
            "instruction of continuation-heavy sessions; the property itself is checked on scenario families with "
            "closed-form expected values (escape from depth, normal return, re-entry 1-3 times from later top-level "
            "forms, operands before/after the capture point, k stored in vectors/pairs and invoked from map/for-each "
            "callbacks, call/cc in loop tail position and inside another continuation's extent, apply of k and of call/cc, "
            "zero/many arguments, captures deeper than the initial stack capacity).",
    "note": "Trusted: Lean kernel; axioms propext/Quot.sound/Classical.choice. All theorems are about the machine model "
            "Vm.step (tied to run.rs by lock-step replay), not about a source-level semantics: 'continues as if call/cc had "
            "returned v' is the statement 'continues as the machine does from Resume s0 v h'; the compiler model is "
            "shown to emit for (call/cc e) exactly <code of e>; PUSH; PUSHIMM argc 1; <operator>; CALL|TCALL "
            "(compile_callcc_site, T01.4 for one operand), which places s0/Resume in compiled code, but that running "
            "<code of e> yields e's value for programs WITH call/cc (compiler correctness beyond C01's stages, i.e. a simulation "
            "between the machine model and the CPS semantics below) is NOT proved: the source-level semantics Spec.EvalK "
            "(see the last paragraph) is tied to the implementation by the random-program stream only. Hypotheses, all explicit "
            "parameters (none an axiom): CodeLaws (generic heap: code objects immutable and accepted by the bytecode "
            "verifier, continuations are snapshots of WF states; checked by C04's bytecode-verifier stream) for the "
            "WF-stack theorems; for step_live_congruence / the run theorems additionally LiveLaws (CLOSURE's and ENTER's "
            "environment construction read live stack cells only — a THEOREM for the concrete heap: concreteLiveLaws), "
            "BpLive (a BasePointerOffset SOURCE operand designates a cell <= sp) — since round 4 a THEOREM from WF-stack "
            "(bpLive_of_wfs): the bytecode verifier now rejects such an operand unless in procedure code with offset <= 0 "
            "(Verify.bpSrcOk; 0 rejects on every real code object), so step_live_congruence_verified / "
            "invoke_run_same_result_verified carry only FitOK; invoke_run_same_result_concrete is the statement on the "
            "concrete heap (gops ext = concreteOps ext with the callee guard, see C04's note: hypotheses ExtCodeLaws ext, "
            "WFS incl. CInv of the heap at the invocation, FitOK); and the capacity "
            "clause of SideOK / hfit: when a continuation is invoked its stack copy fits the current capacity — stands for "
            "'Stack never shrinks' in stack.rs (for re-entry within one evaluation it is a theorem of the model: "
            "step_len_mono, invoke_within_run_continues_as_if_returned; across evaluations, and for the continuations "
            "invoked later in a run, it is a hypothesis); the model reproduces the restore_continuation panic when it fails, and the "
            "seeded changes that shrink the stack are caught by the deep re-entry scenarios, not by a theorem. "
            "receiver_return_is_resume is stated for call/cc in operand position (CALL) and receivers that do not invoke a "
            "continuation before returning (Trace); for call/cc in tail position (TCALL) capture and invocation theorems "
            "hold as stated but the normal-return comparison is one instruction off (the RET after the TCALL) and not "
            "stated. Liveness of captured continuations across collections (T05.5) belongs to C03's marker theorems. ROUND 5: the bytecode verifier is value-typed (val | argc n | any) and WF-stack is re-proved for it (all 16 opcodes; continuation snapshots now also record that they resume at a non-prologue instruction and that typed cells hold values); every theorem above is unchanged in statement. (invoke_run_same_result_machine, the statement on concreteOps without the callee guard, was NOT done in round 5: see ROUND 6 below.)",
    "technique": "Lean 4 proof (capture/restore lemmas over an abstract heap, any later state; write-set and live-read lemmas per instruction over the WF-stack invariant; run-level congruence) + a definitional CPS specification with first-class continuations (Spec.EvalK; its laws proved; simulates Spec.Eval) judging random call/cc programs on the real VM + lock-step replay + scenario oracle with closed-form expectations",
}
MODULE = "Marwood.Proofs.C05"
THEOREMS = [
    "Marwood.Proofs.C05.capture_spec",
    "Marwood.Proofs.C05.callcc_captures",
    "Marwood.Proofs.C05.invoke_restores",
    "Marwood.Proofs.C05.capture_then_invoke",
    "Marwood.Proofs.C05.ret_of_receiver_frame",
    "Marwood.Vm.step_preserves",
    "Marwood.Proofs.C05.receiver_frame_header_intact",
    "Marwood.Proofs.C05.receiver_return_is_invocation",
    "Marwood.Proofs.C05.ret_of_receiver_frame_verified",
    "Marwood.Vm.step_below",
    "Marwood.Vm.Trace.prefix_unwritten",
    "Marwood.Proofs.C05.prefix_unwritten",
    "Marwood.Vm.callcc_step",
    "Marwood.Proofs.C05.invoke_continues_as_if_returned",
    "Marwood.Proofs.C05.receiver_return_is_resume",
    "Marwood.Proofs.C05.receiver_return_equals_invocation",
    "Marwood.Vm.step_stack",
    "Marwood.Vm.step_live_congruence",
    "Marwood.Vm.runN_live_congruence",
    "Marwood.Proofs.C05.invoke_run_continues",
    "Marwood.Proofs.C05.invoke_run_same_result",
    "Marwood.Vm.step_len_mono",
    "Marwood.Vm.runN_len_mono",
    "Marwood.Proofs.C05.invoke_within_run_continues_as_if_returned",
    "Marwood.Vm.one_operand_site",
    "Marwood.Vm.compile_callcc_site",
    # BpLive discharged by the strengthened verifier; the concrete instance
    "Marwood.Vm.bpLive_of_wfs",
    "Marwood.Vm.step_live_congruence_wf",
    "Marwood.Vm.runN_live_congruence_wf",
    "Marwood.Proofs.C05.step_live_congruence_verified",
    "Marwood.Proofs.C05.invoke_run_same_result_verified",
    "Marwood.Vm.Concrete.concreteLiveLaws",
    "Marwood.Proofs.C05.invoke_run_same_result_concrete",
]


# ROUND 6: the callee guard is a theorem (lib/props/procinv_util.py)
import procinv_util as _pv
THEOREMS = THEOREMS + [t for t in _pv.COMMON_THEOREMS if t not in THEOREMS] + _pv.FAILING_EXT + ['Marwood.Lemmas.Good.concreteLiveLawsV', 'Marwood.Lemmas.Good.step_vops_conv', 'Marwood.Lemmas.Good.GoodI.of_liveEq', 'Marwood.Lemmas.Good.PInv.of_liveEq', 'Marwood.Lemmas.Good.runN_live_congruence_machine', 'Marwood.Proofs.C05.invoke_run_continues_machine', 'Marwood.Proofs.C05.invoke_run_same_result_machine']
META["note"] = META["note"] + _pv.NOTE + " C05 ON THE REAL MACHINE (the gap named at the end of the previous round is closed): invoke_run_continues_machine / invoke_run_same_result_machine state the property's first sentence for run_one over concreteOps (no callee guard, no value guards): after (k v) every further instruction, up to and including HALT, is - up to stale cells above sp - what the machine does from the CONSTRUCTED state Resume s0 v t.heap. Proof (Lemmas/ContResumeMachine.lean): LiveLaws for the value-typed laws (concreteLiveLawsV), step_vops and its converse step_vops_conv (on GoodI states whose callee passes the guard the guarded and the real instruction coincide, both directions), and the invariants are properties of the LIVE part of a state (GoodI.of_liveEq, PInv.of_liveEq, WFS.of_liveEq), so the second run - which does not start from a reachable state - is carried along the first in lock step (runN_live_congruence_machine); no VmOk-at-capture hypothesis is needed. Hypotheses: ExtLaws, ExtGood, ExtCodeLawsV, ExtProc; GoodI, WF-stack (value-typed verifier) and PInv of the invoking state t; SizeBounded from t; the shape of the invocation (callee = continuation (capturedCont s0), argc n >= 1 on top); and the capacity conditions hfit / FitOK (the stack never shrinks). Non-vacuity: the run-level congruence is instantiated on the demo state and a padded, unreachable copy of it (every hypothesis discharged); the hypotheses of the invoke theorems themselves are exhibited on the toy instance (CToy, generic theorem) only - no concrete-heap state with a continuation cell is constructed in Lean."

def nontrivial(req, impl):
    if req.startswith("step"):
        return "callee=K" in req or "/callcc" in req
    return "call/cc" in req


def streams(ctx):
    n = 270 if ctx.quick() else 9000
    cases = gen_cases("vm", ["conts", n], ctx.seed)
    md, sd = correspond(ctx, "callcc-scenarios-closed-form", cases, nontrivial)
    settle(ctx, md, sd)
    n = 180 if ctx.quick() else 3000
    cases = gen_cases("vm", ["trace", n, "conts"], ctx.seed)
    md, sd = correspond(ctx, "lockstep-run_one-continuations", cases, nontrivial)
    settle(ctx, md, sd)
    n = 60 if ctx.quick() else 1000
    cases = gen_cases("vm", ["trace", n], ctx.seed)
    md, sd = correspond(ctx, "lockstep-run_one-sessions", cases, nontrivial)
    settle(ctx, md, sd)


# ---------------------------------------------------------------- random programs judged by the CPS specification
def _dec(t):
    if t == "-":
        return ""
    try:
        return "".join(chr(int(x)) for x in t.split(","))
    except ValueError:
        return ""


def _k_forms(req):
    """the form texts of a `spec-evalk <steps> D:<distribution> <text>…` request"""
    w = req.split(" ")
    return [_dec(t) for t in w[3:]] if len(w) >= 3 and w[0] == "spec-evalk" else []


def _k_tags(req):
    w = req.split(" ")
    out = {}
    if len(w) >= 3 and w[2].startswith("D:"):
        for kv in w[2][2:].split(";"):
            k, _, v = kv.partition("=")
            if k and v.isdigit():
                out[k] = int(v)
    return out


def correspond_cps(ctx, stream, cases):
    """real VM vs Spec.EvalK (CPS definitional interpreter with first-class continuations), form by form.
    The request is answered once by the driver; impl != spec is a failing input of C05. A session for which the
    specification runs out of steps (`timeout`) gives no verdict and is counted."""
    st = ctx.streams.setdefault(stream, {"cases": 0, "model_disagree": 0, "spec_disagree": 0,
                                         "bad_op": 0, "impl_panic": 0, "impl_err": 0})
    answers = driver_batch_sharded([c[0] for c in cases])
    dist, sd = Counter(st.get("distribution", {})), []
    forms_n, noverdict, form_err = 0, 0, Counter(st.get("form_errors", {}))
    for i, ((req, impl, _), spec) in enumerate(zip(cases, answers)):
        st["cases"] += 1
        ctx.evaluations += 1
        tags = _k_tags(req)
        dist.update(tags)
        res = impl.split(" || ")[0].split(" | ")
        forms_n += len(res)
        for r in res:
            if r.startswith("err "):
                form_err[r[4:]] += 1
        if "panic" in impl:
            st["impl_panic"] += 1
        if any(r.startswith("err") for r in res):
            st["impl_err"] += 1
        if spec == "bad-op":
            st["bad_op"] += 1
        nt = tags.get("dyn.captures", 0) > 0 or "call/cc" in " ".join(_k_forms(req))
        if nt:
            ctx.nontrivial.add(hashlib.blake2b(req.encode(), digest_size=8).digest())
        if len(ctx.samples) < 6 and nt and (i % max(1, len(cases) // 2) == 0):
            ctx.samples.append({"stream": stream, "session": [f for f in _k_forms(req) if "call/cc" in f or "call-with" in f][:3],
                                "impl": impl[-300:], "spec": spec[-300:]})
        if "timeout" in spec and spec != "bad-op":
            noverdict += 1
            continue
        if impl != spec:
            st["spec_disagree"] += 1
            a, b = impl.split(" || ")[0].split(" | "), spec.split(" || ")[0].split(" | ")
            first = next((j for j, (x, y) in enumerate(zip(a, b)) if x != y), None)
            fs = _k_forms(req)
            sd.append({"stream": stream, "request": req, "impl": impl, "model": spec, "spec_request": req, "spec": spec,
                       "first_differing_form": None if first is None else {"index": first, "form": fs[first] if first < len(fs) else None,
                                                                           "impl": a[first], "spec": b[first]},
                       "session": fs})
    st["forms"] = st.get("forms", 0) + forms_n
    st["spec_no_verdict"] = st.get("spec_no_verdict", 0) + noverdict
    st["form_errors"] = dict(form_err)
    st["distribution"] = dict(sorted(dist.items()))
    return [], sd


def streams_cps(ctx):
    name = "callcc-grammar-vs-cps-spec"
    cases = gen_cases("contk", ["corpus"], ctx.seed)
    md, sd = correspond_cps(ctx, name, cases)
    settle(ctx, md, sd)
    if ctx.quick():
        cases = gen_cases("contk", ["sessions", 1200], ctx.seed)
    else:
        cases = gen_cases_sharded("contk", ["sessions", 5000], ctx.seed, 8)
    md, sd = correspond_cps(ctx, name, cases)
    settle(ctx, md, sd)
    st = ctx.streams.get(name, {})
    d = st.get("distribution", {})
    grp = lambda pre: ", ".join("%s=%d" % (k[len(pre):], v) for k, v in d.items() if k.startswith(pre))
    ctx.notes.append(
        "%s: %d sessions, %d top-level forms (%d with a call/cc expression, %d with a re-entry site), %d sessions without verdict "
        "(specification out of steps); capture sites %d by position: %s; escape sites %d: %s; re-entry sites %d: %s; stores: %s; "
        "mutations between capture and invocation: %s; DYNAMIC (read back from the programs' own counters on the real VM): "
        "captures performed %d, escapes performed %d, re-entries within the capturing form %d, re-entries from a later top-level form %d; "
        "re-entry sites invoked 0/1/2/3 times: %d/%d/%d/%d; patterns: %s (every third session is run a second time with a "
        "collection forced after every form and at 24 random instruction counts: %d such runs; their counts are included twice)" % (
            name, st.get("cases", 0), st.get("forms", 0), d.get("forms.with-callcc", 0), d.get("forms.with-reentry-site", 0),
            st.get("spec_no_verdict", 0), d.get("cap.sites", 0), grp("cap."), d.get("inv.escape", 0), grp("inv.escape."),
            d.get("inv.reentry", 0), grp("inv.reentry."), grp("store."), grp("mut."),
            d.get("dyn.captures", 0), d.get("dyn.escapes", 0), d.get("dyn.reentry-same-form", 0), d.get("dyn.reentry-cross-form", 0),
            d.get("dyn.site-invoked-0x", 0), d.get("dyn.site-invoked-1x", 0), d.get("dyn.site-invoked-2x", 0),
            d.get("dyn.site-invoked-3x", 0), grp("pattern."), d.get("sessions.under-forced-gc", 0)))


def _streams_all(ctx):
    streams(ctx)
    streams_cps(ctx)


def run(ctx):
    return standard_run(
        ctx, MODULE, THEOREMS, ["vm", "contk"], _streams_all,
        rule="nine scenario families x random values/depths, each form's value or failure class against its closed-form "
             "expectation; every instruction of those sessions and of generic generated sessions (which place call/cc "
             "at operand and tail positions and store k in globals for re-entry from later forms) replayed through the "
             "Lean model of run_one; non-trivial = continuation capture/invocation steps, forms containing call/cc; "
             "stream callcc-grammar-vs-cps-spec: RANDOM sessions of a grammar with call/cc at operand / tail / nested / callback / "
             "loop positions, k stored in globals, vector and pair slots and closures, escapes (from the receiver, deep recursion, "
             "named-let loops, map / for-each callbacks, to outer continuations) and counter-guarded re-entries (0-3 times per site; "
             "same form = generators and re-entered map callbacks, later top-level forms, loops, callbacks, procedure bodies, "
             "inside other receivers), traced operands before the capture, set! / set-car! / set-cdr! / vector-set! between capture "
             "and invocation, every sixth session with injected failures: real Vm form by form vs Spec.EvalK (the CPS definitional "
             "interpreter with first-class continuations; value datum or error class at R7RS granularity, output log)")


# ROUND 8: the Ext laws are theorems for a table of real builtins (lib/props/procinv_util.py, Lemmas/ListExtC05.lean)
import procinv_util as _pv8
MODULE = _pv8.listext_module("C05")
THEOREMS = THEOREMS + [t for t in _pv8.LISTEXT_LAWS + _pv8.LISTEXT["C05"] if t not in THEOREMS]
META["note"] = META["note"] + _pv8.LISTEXT_NOTE


# SOURCE-LEVEL SPECIFICATION: Spec.EvalK, a CPS definitional interpreter with first-class continuations
THEOREMS = THEOREMS + [
    "Marwood.Proofs.C05.runK_fuel_mono",
    "Marwood.Proofs.C05.callcc_normal_return",
    "Marwood.Proofs.C05.throw_discards_context",
    "Marwood.Proofs.C05.throw_result_independent_of_context",
    "Marwood.Proofs.C05.mutations_survive_throw",
    "Marwood.Proofs.C05.operands_evaluated_before_capture_are_kept",
    "Marwood.Proofs.C05.reentry_any_number_of_times",
    "Marwood.Proofs.C05.evalK_machine_simulates_eval",
    "Marwood.Proofs.C05.evalK_agrees_with_eval",
    "Marwood.Lemmas.EvalK.callcc_captures",
    "Marwood.Lemmas.EvalK.runK_deterministic",
    "Marwood.Lemmas.EvalK.operands_kept_last",
    "Marwood.Lemmas.EvalK.step_ks_mono",
    "Marwood.Lemmas.EvalK.iterK_ks_mono",
    "Marwood.Lemmas.EvalK.captured_stays",
    "Marwood.Lemmas.EvalKAgree.simRec_evalN",
    "Marwood.Lemmas.EvalKAgree.apply_agrees",
    "Marwood.Lemmas.EvalKAgree.top_agrees",
    "Marwood.Lemmas.EvalKAgree.runForm_agrees",
    "Marwood.Lemmas.EvalKAgree.runNext_quiet",
]
META["text"] = META["text"] + (
    " SOURCE LEVEL: a definitional interpreter with first-class continuations for the language of C01's specification "
    "(Spec.EvalK: defunctionalised CPS machine, continuation = list of frames, call/cc appends the current continuation to an "
    "append-only table and applies the receiver to a value denoting that entry in the SAME continuation, applying such a value "
    "drops the current continuation and returns to the captured one on the CURRENT store; all values, store, primitives and error "
    "classes imported from Spec.Eval) with theorems for each clause of the property (normal return = ordinary call; a throw "
    "discards the context and the rest of the run is independent of it; the captured operand frame holds the operand values "
    "computed before the capture; the store after a throw is the store at the throw; re-entry any number of times from any later "
    "state; fuel monotonicity; without call/cc the machine simulates Spec.Eval on every form), and RANDOM programs of the property's "
    "grammar run on the real Vm and judged form by form against it.")
META["note"] = META["note"] + (
    " SOURCE-LEVEL SPECIFICATION (replaces 'a CPS definitional semantics ... NOT proved'): lean/Marwood/Spec/EvalK.lean is a CPS "
    "definitional interpreter for exactly the language of Spec.Eval plus call/cc / call-with-current-continuation. It IMPORTS "
    "Spec.Eval's Val/St/Cell/Env, every primitive (applyPrim1), quoteVal, bindArgs, assignVar, ... so the two specifications cannot "
    "drift; because Spec.Eval.Val may not be extended (C01's theorems are about it) a continuation VALUE is a reference into an "
    "append-only table of continuations kept in the machine/session state (contVal i denotes ks[i], as a pair value denotes a store "
    "cell), coded - like call/cc itself - as a closure with an EMPTY body, which no expression can create. Unspecified by R7RS and "
    "taken from the implementation: (k) is an error, (k a b c) delivers c, (call/cc non-procedure) is an error, a continuation "
    "captured in top-level form i and invoked from form j finishes form i again (incl. its define) and its value is the result of "
    "form j. CLOSED THEOREMS about Spec.EvalK (no hypotheses beyond what the statement names): callcc_normal_return (capture is "
    "one step to the ordinary application of the receiver in the same continuation and store; a normal return of v and an "
    "invocation (k v) from any context are the same state) - NOT proved in the form 'k not free in e => (call/cc (lambda (k) e)) "
    "evaluates as e' (that needs a weakening/location-shift simulation for the machine); throw_discards_context, "
    "throw_result_independent_of_context, mutations_survive_throw (by definition of the machine, stated for every state), "
    "operands_evaluated_before_capture_are_kept (+ operands_kept_last), reentry_any_number_of_times (from the append-only table: "
    "step_ks_mono for all ~25 transition helpers), runK_fuel_mono / runK_deterministic. TIE TO C01'S SPECIFICATION: "
    "evalK_machine_simulates_eval / simRec_evalN: the machine with call/cc switched off (step false) simulates Spec.Eval.evalN at "
    "every fuel for EVERY form of its language (core forms, let/let*/letrec/named let, begin, cond incl. =>, case, and, or, when, "
    "unless, delay/force, quasiquote incl. vectors and nesting, apply, eval, map, for-each, all primitives, top-level define/begin), "
    "in any continuation, value/error class and final store alike (direction Eval => machine; results are unique by "
    "runK_deterministic); evalK_agrees_with_eval: the machine with call/cc coincides with it on every run that applies neither "
    "call/cc nor a continuation value (hypothesis Quiet, a property of the run). NOT proved: the syntactic sufficient condition "
    "('call/cc does not occur in the program' => Quiet; needs an invariant 'no empty-body closure in the state' through all "
    "primitives), and any simulation between the Vm model and Spec.EvalK. Non-vacuity: three kernel-evaluated tiny sessions "
    "(escape, normal return, cross-form re-entry with an earlier operand and a later mutation). CORRESPONDENCE: stream "
    "callcc-grammar-vs-cps-spec (harness/src/bin/contk.rs): the real Vm vs Spec.EvalK on random sessions, every third session "
    "again with a collection forced after every form and at 24 random instruction counts; a specification 'timeout' (no outcome "
    "within 400000 machine steps per form) is 'no verdict' and counted (0 so far). Each of the six seeded changes of C05 "
    "(seeded/C05-1, C05-2, C05b-1, C05b-2, C05c-1, C05c-2) is caught by this stream alone.")
