"""C05 — first-class continuations: escape, re-entry and cross-evaluation invocation."""
from pipeline import *

META = {
    "text": "Lean 4 theorems about the models of call/cc (builtin/procedure.rs), continuation invocation in CALL/TCALL "
            "(run.rs), Stack::to_continuation / restore_continuation (stack.rs) and RET, for every heap and state: "
            "(T05.1) the continuation created by call/cc holds exactly stack[0..=sp-2] (everything below the two "
            "operands), the current ep and bp, and ip = the instruction after the call, and the receiver is re-dispatched "
            "with it as single argument; (T05.2) invoking it in ANY later state (any depth, any later evaluation, any heap) "
            "with n>=1 arguments restores that stack prefix and those registers, puts the last argument in acc and keeps "
            "the current heap — so mutations since capture stay visible; (T05.4) hence operands evaluated before the "
            "capture keep their values; (T05.3) RET of the receiver's frame yields the same sp/ep/ip/bp as invoking k, so a "
            "receiver that returns v and (k v) continue identically. Tied to the code by lock-step replay of every "
            "instruction of continuation-heavy sessions; the property itself is checked on scenario families with "
            "closed-form expected values (escape from depth, normal return, re-entry 1-3 times from later top-level "
            "forms, operands before/after the capture point, k stored in vectors/pairs and invoked from map/for-each "
            "callbacks, call/cc in loop tail position and inside another continuation's extent, apply of k and of call/cc, "
            "zero/many arguments).",
    "note": "Trusted: Lean kernel; axioms propext/Quot.sound/Classical.choice. The language-level statement ('continues as "
            "if call/cc had returned v' for arbitrary programs) is the instruction-level theorems plus determinism of the "
            "machine on (stack prefix, registers, heap); it is not stated over a source-level semantics (no CPS definitional "
            "interpreter with call/cc is proved against the compiler). T05.3's former hypothesis (the receiver's frame header is intact at "
            "RET) is now a theorem for every code object the bytecode verifier Vm/Verify.lean accepts "
            "(receiver_frame_header_intact, receiver_return_is_invocation, ret_of_receiver_frame_verified, from WF-stack "
            "preservation step_preserves), under the explicit hypothesis structure CodeLaws about the generic heap "
            "(a parameter, not an axiom) and for receiver bodies that do not themselves invoke a continuation before "
            "returning (Trace); that real compiled code verifies is checked by C04's bytecode-verifier stream, not proved "
            "for the compiler model. The registers/sp are proved equal to the captured ones; that the stack cells below "
            "the receiver's frame are unchanged at return time is not separately proved. Liveness of captured "
            "continuations across collections (T05.5) belongs to C03's marker theorems.",
    "technique": "Lean 4 proof (capture/restore lemmas over an abstract heap, any later state) + lock-step replay + scenario oracle with closed-form expectations",
}
MODULE = "Marwood.Proofs.C05"
THEOREMS = [
    "Marwood.Proofs.C05.capture_spec",
    "Marwood.Proofs.C05.callcc_captures",
    "Marwood.Proofs.C05.invoke_restores",
    "Marwood.Proofs.C05.capture_then_invoke",
    "Marwood.Proofs.C05.ret_of_receiver_frame",
    "Marwood.Vm.step_preserves",
    "Marwood.Proofs.C05.receiver_frame_header_intact",
    "Marwood.Proofs.C05.receiver_return_is_invocation",
    "Marwood.Proofs.C05.ret_of_receiver_frame_verified",
]


def nontrivial(req, impl):
    if req.startswith("step"):
        return "callee=K" in req or "/callcc" in req
    return "call/cc" in req


def streams(ctx):
    n = 270 if ctx.quick() else 9000
    cases = gen_cases("vm", ["conts", n], ctx.seed)
    md, sd = correspond(ctx, "callcc-scenarios-closed-form", cases, nontrivial)
    settle(ctx, md, sd)
    n = 180 if ctx.quick() else 3000
    cases = gen_cases("vm", ["trace", n, "conts"], ctx.seed)
    md, sd = correspond(ctx, "lockstep-run_one-continuations", cases, nontrivial)
    settle(ctx, md, sd)
    n = 60 if ctx.quick() else 1000
    cases = gen_cases("vm", ["trace", n], ctx.seed)
    md, sd = correspond(ctx, "lockstep-run_one-sessions", cases, nontrivial)
    settle(ctx, md, sd)


def run(ctx):
    return standard_run(
        ctx, MODULE, THEOREMS, ["vm"], streams,
        rule="nine scenario families x random values/depths, each form's value or failure class against its closed-form "
             "expectation; every instruction of those sessions and of generic generated sessions (which place call/cc "
             "at operand and tail positions and store k in globals for re-entry from later forms) replayed through the "
             "Lean model of run_one; non-trivial = continuation capture/invocation steps, forms containing call/cc")
