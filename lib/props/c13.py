"""C13 — sliced execution is equivalent to uninterrupted execution."""
from pipeline import *

META = {
    "text": "Lean 4 theorems about the model of Vm::run_count (run.rs loop, after the budget fix), generic in the "
            "instruction semantics and the collector: a slice with budget b>=1 executes exactly min(b, remaining) "
            "instructions (progress, never exhausts, never pauses early); for every sequence of positive budgets the "
            "sliced run is related to the collection-free reference run of sum(budgets) instructions, and if the "
            "uninterrupted run completes (value or failure) after k instructions then every budget sequence with "
            "sum >= k completes with the same status/failure and an observationally equal state. Tied to run.rs by "
            "(i) replaying the real VM's per-slice outcomes and instruction counts against the model loop and "
            "(ii) comparing sliced and uninterrupted runs of generated sessions (value/failure, output log, globals).",
    "note": "Trusted: Lean kernel; axioms propext/Quot.sound. The equivalence theorem takes 'collections are unobservable' "
            "as an explicit hypothesis structure GcTransparent (a relation R preserved by run_one and absorbed by run_gc); "
            "it is unconditional for a no-op collector and is what C03 establishes for the real one (there by theorem for "
            "mark/sweep safety plus exploration). The loop model is hand-written and tied to the code by correspondence; "
            "the instruction semantics is a parameter, so nothing about run_one is assumed. "
            "T13.3 for the real collector model: gcTransparent_concrete_partial instantiates GcTransparent for the concrete "
            "machine (run_one over Vm/ConcreteHeap.lean, gc = the C03 model Heap.runGc) with R = 'equal up to a partial "
            "injection on heap addresses' (heap simulation, Lemmas/Sim*.lean): the collector clause gc_left is a closed "
            "theorem; the instruction clause is closed for all 16 opcodes (incl. the allocating CONS VARARG CLOSURE ENTER "
            "call/cc, apply, symbol interning) GIVEN the explicit hypothesis ExtLaws = the law 'respects the simulation' "
            "of the four non-modelled parameters (builtinKind, builtinEval: 139 generic Rust procedures, compileEval: "
            "eval's compiler, vectorPush: VPUSH through an aliased Rc); the side conditions assumed of every state along "
            "both runs are the explicit hypothesis Safe (heap below 2^63 cells, WFHeap/RootsOk of the erased heap, kind "
            "disciplines Plain and NoIofArg, bp-relative reads at or below sp); reflexivity is proved (sim_refl). Hence "
            "the *_partial names; sliced_value_eq_uninterrupted_partial is the closed-form corollary (same HALT, equal "
            "datum read from acc). ROUND 4 (Safe is now an invariant theorem): sliced_value_eq_uninterrupted / sliced_error_eq_uninterrupted / sliced_value_eq_uninterrupted_eval restate T13.3 WITHOUT Safe. Safe m s0 is proved (Lemmas/GoodMain.safe_of_good) from GoodI of the INITIAL state only (WFHeap of the erased heap, Plain, code discipline of every lambda object LamOk = NoIofArg + MOV/MOVIMM never address a heap cell through a Ptr operand and load values, environment discipline EnvOk, allocated roots, a value in acc) by good_step (run_one preserves GoodI: heap clauses one lemma per opcode, Lemmas/GoodStep{A,B,C}.lean over the T03.3 lift Lemmas/GoodAlloc.lean; roots clause read off step_sim applied to the state and itself) and good_gc (run_gc preserves GoodI), and prepare_goodI (the state prepare_eval produces from an idle GoodI machine is GoodI). REMAINING explicit hypotheses: ExtLaws and ExtGood (laws of the four non-modelled parameters for the simulation / for the invariant), CompGood (same for the compiler in prepare_eval), SizeBounded (every reachable heap has at most 2^62 cells: the one size hypothesis, a physical fact, not an invariant), StackDiscAlong (frame discipline of the current instruction in every reachable state: bp-relative reads at or below sp, complete frame at RET/TCALL, and the stack cells an instruction consumes as values are values not frame-header cells; a consequence of WF-stack once the verifier types bp-relative sources and temporaries - not yet connected). Plain is NOT an invariant of run_one over arbitrary bytecode/stacks (CONS of a frame-header cell, MOV through a Ptr operand break it on the model and on the real VM alike): hence the code discipline in GoodI (checked on every real lambda by the safe-side-conditions stream of C03) and StackDiscAlong. The _partial theorems are kept. ROUND 5 (WF-stack connected to the heap simulation): the bytecode verifier is VALUE-TYPED (abstract cells any | val | argc n: PUSHACC and PUSHIMM of a value push val, CONS pops two typed cells, CALL/TCALL need argc n over n typed cells, MOV never loads through a Ptr, MOVIMM loads a value, HALT is the last cell; 0 rejects on every real code object and on the compiler model's output) and WF-stack (Lemmas/StackWF*.lean) is re-proved for it for all 16 opcodes: val-typed temporaries, argument blocks and the argument cells of every frame hold values (IsValue = plainGlob, the notion of GoodI), acc holds a value, a frame has at least argNeed argument cells (ENTER compares argc with the formals of the code it runs). stackDisc_of_wfs (Lemmas/StackDiscOfWFS.lean) derives ALL SIX clauses of StackDisc from WFS (concreteLawsV ext ecl) s K; vmOk_reaches shows VmOk = GoodI /\ (WFS \/ halted) is an invariant of the REAL machine (run_one over concreteOps, run_gc = cgc): the guards of the machine the generic WF-stack theorem runs on (vops: guarded callee, value-guarded global/environment reads and VPUSH) are invisible on GoodI states (step_vops). The *_wf theorems restate the property WITHOUT StackDiscAlong: hypotheses = ExtLaws, ExtGood, ExtCodeLawsV (unmodelled builtins / eval compiler / VPUSH keep the value-typed code invariant CInvG IsValue), VmOk of the INITIAL state, SizeBounded, and CalleeOkAlong: at every reachable CALL/TCALL/ENTER site a closure / bare-lambda callee designates PROCEDURE code, not an entry lambda (oracle callee-ok of the C04 bytecode-verifier stream). CalleeOkAlong is NOT derived: it is a reachability fact (closures are built by CLOSURE from compile_lambda output; no value refers to an entry lambda) that needs two more heap-invariant clauses preserved by the unmodelled builtins. Non-vacuity: Demo.sHalt_vmOk. The safe-side-conditions stream also evaluates the value-typed frame of the current instruction on every real state (Driver/SimGood.typedCheck).",
    "technique": "Lean 4 proof (generic refinement of the run_count loop to a collection-free reference, any budgets) + differential sliced-vs-uninterrupted runs and loop-trace correspondence",
}
MODULE = "Marwood.Proofs.C13"
THEOREMS = [
    "Marwood.Proofs.C13.runLoop_pureN",
    "Marwood.Proofs.C13.runCount_progress",
    "Marwood.Proofs.C13.runCount_ne_fuel",
    "Marwood.Proofs.C13.runSliced_pureN",
    "Marwood.Proofs.C13.run_pureN",
    "Marwood.Proofs.C13.sliced_equiv_uninterrupted_done",
    "Marwood.Proofs.C13.sliced_equiv_uninterrupted_error",
    "Marwood.Proofs.C13.gcTransparent_id",
    "Marwood.Proofs.C13.gcTransparent_concrete_partial",
    "Marwood.Proofs.C13.sliced_sim_pure_partial",
    "Marwood.Proofs.C13.sliced_equiv_uninterrupted_concrete_partial",
    "Marwood.Proofs.C13.sliced_value_eq_uninterrupted_partial",
    "Marwood.Proofs.C13.failingExt_laws",
    "Marwood.Proofs.C13.failingExt_good",
    "Marwood.Proofs.C13.sliced_value_eq_uninterrupted",
    "Marwood.Proofs.C13.sliced_error_eq_uninterrupted",
    "Marwood.Proofs.C13.sliced_value_eq_uninterrupted_eval",
    "Marwood.Lemmas.Good.safe_of_good",
    "Marwood.Lemmas.Good.good_step",
    "Marwood.Lemmas.Good.good_gc",
    "Marwood.Lemmas.Good.prepare_goodI",
    "Marwood.Lemmas.Good.Demo.sHalt_goodI",
    "Marwood.Lemmas.Good.Demo.sHalt_sizeBounded",
    "Marwood.Lemmas.Good.Demo.sHalt_discAlong",
    "Marwood.Lemmas.Sim.cgc_sim",
    "Marwood.Lemmas.Sim.step_sim",
    "Marwood.Lemmas.Sim.execSim_all",
    "Marwood.Lemmas.Sim.sim_refl",
    "Marwood.Proofs.C13.sliced_value_eq_uninterrupted_wf",
    "Marwood.Proofs.C13.sliced_error_eq_uninterrupted_wf",
    "Marwood.Lemmas.Good.stackDisc_of_wfs",
    "Marwood.Lemmas.Good.step_vops",
    "Marwood.Lemmas.Good.vmOk_step",
    "Marwood.Lemmas.Good.vmOk_gc",
    "Marwood.Lemmas.Good.vmOk_reaches",
    "Marwood.Lemmas.Good.wfs_reaches",
    "Marwood.Lemmas.Good.stackDiscAlong_of_wfs",
    "Marwood.Lemmas.Good.safe_of_vmOk",
    "Marwood.Vm.Concrete.concreteLawsV",
    "Marwood.Vm.Concrete.cgc_gcLawsV",
    "Marwood.Vm.step_preserves",
    "Marwood.Vm.step_wr",
    "Marwood.Lemmas.Good.Demo.sHalt_vmOk",
    "Marwood.Lemmas.Good.Demo.sHalt_calleeOkAlong",
    "Marwood.Proofs.C13.failingExt_codeLawsV",
]


# ROUND 6: the callee guard is a theorem (lib/props/procinv_util.py)
import procinv_util as _pv
THEOREMS = THEOREMS + [t for t in _pv.COMMON_THEOREMS if t not in THEOREMS] + _pv.FAILING_EXT + ['Marwood.Proofs.C13.sliced_value_eq_uninterrupted_closed', 'Marwood.Proofs.C13.sliced_error_eq_uninterrupted_closed']
META["note"] = META["note"] + _pv.NOTE + ' C13: sliced_value_eq_uninterrupted_closed / sliced_error_eq_uninterrupted_closed (T13.3 from VmOk and PInv of the initial state).'

def nontrivial(req, impl):
    # a slice trace is non-trivial when the evaluation was actually interrupted at least once
    return req.startswith("slices") and " p" in impl


def streams(ctx):
    n = 400 if ctx.quick() else 6000
    cases = gen_cases("vm", ["sliced", n], ctx.seed)
    md, sd = correspond(ctx, "sliced-vs-uninterrupted", cases, nontrivial)
    settle(ctx, md, sd)


def run(ctx):
    return standard_run(
        ctx, MODULE, THEOREMS, ["vm"], streams,
        rule="generated sessions (C01/C05 grammar: definitions, closures, variadic/apply/eval, derived forms, "
             "call/cc escapes and re-entry across forms) run form by form in two VMs: uninterrupted, and "
             "prepare_eval + run_count under constant budgets 1..64 (two thirds of the sessions) or random budgets "
             "in 1..10^4; per form the slice trace (pause/done/error + instruction count per slice) is compared with "
             "the Lean loop model and outcome/output/globals with the uninterrupted VM; non-trivial = interrupted at "
             "least once; distinct by (instruction count, budgets)")


# ROUND 8: the Ext laws are theorems for a table of real builtins (lib/props/procinv_util.py, Lemmas/ListExtC13.lean)
import procinv_util as _pv8
MODULE = _pv8.listext_module("C13")
THEOREMS = THEOREMS + [t for t in _pv8.LISTEXT_LAWS + _pv8.LISTEXT["C13"] if t not in THEOREMS]
META["note"] = META["note"] + _pv8.LISTEXT_NOTE


# FINAL ROUND (work package wp17): session forms over HistInstalls at the real builtins (Lemmas/ListExtSession.lean)
MODULE = (MODULE if isinstance(MODULE, list) else [MODULE]) + [_pv8.LISTEXT_SESSION_MODULE]
THEOREMS = THEOREMS + [t for t in _pv8.listext_session("C13") if t not in THEOREMS]
META["note"] = META["note"] + _pv8.LISTEXT_SESSION_NOTE
