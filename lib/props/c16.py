"""C16 — number->string and string->number are mutually inverse."""
from fractions import Fraction
from pipeline import *

META = {
    "text": "Lean 4 theorems about an executable model of Number::parse (i64 -> BigInt -> ratio -> double "
            "fall-through, with std / num-bigint / num-rational from_str_radix modelled character by character), "
            "Display for Number and the radix printers: digit strings in every radix 2..36 read back as the number "
            "they were printed from (strong induction on the value); for every exact number in every representation "
            "(fixnum, bignum incl. small values, reduced 32-bit ratio) and radix 2, 8, 10, 16 "
            "string->number(number->string z r) r is an exact number of equal value; under the FloatText hypotheses a "
            "finite double round-trips in radix 10 through the parser's fall-through; a #b/#o/#d/#x-prefixed printed "
            "form reads, as a literal, to what string->number gives. The model is tied to the code by differential "
            "runs through the VM (Scheme-level results) and the implementation is compared with the round-trip "
            "specification directly.",
    "note": "Trusted: Lean kernel; axioms propext, Classical.choice, Quot.sound; model tied to the code by differential "
            "testing only; float TEXT (Rust's {} / {:e} / {:.1}, str::parse::<f64>, num-traits' radix float parser) and "
            "float conversions are NOT modelled: theorems about doubles assume the FloatText structure (lexical shape "
            "of the three formats, parse(print x) = x for finite x), and on the wire the harness supplies what Rust "
            "produced; the shape hypotheses are checked on every double used. Radix printers were repaired "
            "(fix commits) to print sign and magnitude; the pinned two's-complement behaviour is kept as a proved "
            "counterexample.",
    "technique": "Lean 4 proof (digit inverse by strong induction, structural sign and '/', parser fall-through) + randomized model-vs-implementation correspondence + implementation-vs-specification round trip",
}
MODULE = "Marwood.Proofs.C16"
THEOREMS = [
    "Marwood.Proofs.C16.digits_roundtrip",
    "Marwood.Proofs.C16.int_roundtrip_std",
    "Marwood.Proofs.C16.int_roundtrip_big",
    "Marwood.Proofs.C16.exact_roundtrip",
    "Marwood.Proofs.C16.exact_roundtrip_proc",
    "Marwood.Proofs.C16.float_roundtrip",
    "Marwood.Proofs.C16.pinned_twos_complement_not_inverse",
]
PROFILE = "debug"


def canon(w):
    """wire number -> canonical value/exactness, as the driver's spec-canon prints it"""
    if w.startswith("fix:") or w.startswith("big:"):
        return "exact:%d/1" % int(w[4:])
    if w.startswith("rat:"):
        n, d = w[4:].split("/")
        fr = Fraction(int(n), int(d))
        return "exact:%d/%d" % (fr.numerator, fr.denominator)
    if w.startswith("flo:"):
        return "inexact:" + w[4:]
    return "not-a-number:" + w


def is_nonfinite(spec):
    if not spec.startswith("inexact:"):
        return False
    bits = int(spec[8:], 16)
    return (bits >> 52) & 0x7FF == 0x7FF


def spec_equal(req, impl, spec):
    # impl = `ok <text> <datum read back>`; the property: read back = z in value and exactness
    if req.startswith("c16-literal"):
        f = impl.split(" ")
        return len(f) == 3 and f[0] == "ok" and f[1] == f[2]
    if is_nonfinite(spec):
        return True   # the property speaks of finite inexact numbers only
    f = impl.split(" ")
    if len(f) != 3 or f[0] != "ok":
        return False
    return canon(f[2]) == spec


def nontrivial(req, impl):
    return impl.startswith("ok ")


def streams(ctx):
    q = ctx.quick()
    cases = gen_cases("reader", ["c16-rt", 60000 if q else 600000], ctx.seed, profile=PROFILE)
    md, sd = correspond(ctx, "roundtrip-through-vm", cases, nontrivial, spec_equal=spec_equal)
    settle(ctx, md, sd)
    cases = gen_cases("reader", ["c16-lit", 30000 if q else 300000], ctx.seed, profile=PROFILE)
    # the literal stream carries its own specification: both readings are equal
    cases = [(r, i, "spec-literal-equal") for (r, i, _) in cases]
    md, sd = correspond(ctx, "printed-form-as-prefixed-literal", cases, nontrivial,
                        spec_equal=lambda req, impl, spec: spec_equal(req, impl, spec))
    settle(ctx, md, sd)
    cases = gen_cases("reader", ["c16-proc", 40000 if q else 400000], ctx.seed, profile=PROFILE)
    md, sd = correspond(ctx, "procedures-argument-checks-and-spellings", cases, nontrivial)
    settle(ctx, md, sd)
    for req, impl, _ in cases:
        if impl.startswith("panic"):
            report_case(ctx, {"stream": "procedures-argument-checks-and-spellings", "request": req, "impl": impl,
                              "model": None, "spec_request": None, "spec": "a number, #f or an error"})


def run(ctx):
    return standard_run(
        ctx, MODULE, THEOREMS, ["reader"], streams,
        rule="numbers: boundary palette (0, +-1, i64/i32 limits, 2^53, 1e10 neighbours, subnormal/max doubles) plus "
             "random fixnums of every magnitude, bignums across the fixnum boundary and in small-value BigInt "
             "representation, reduced 32-bit ratios of both signs, doubles by bit pattern; radix 2/8/10/16 for exact, "
             "10 for doubles; (number->string z r) then (string->number s r) evaluated by the VM; also the printed "
             "form as a #b/#o/#d/#x literal vs string->number, and the two procedures on random argument lists "
             "(arity, types, radix 0/1/37/2^32+10, spellings incl. underscores, signs, slashes, exponents); "
             "non-trivial = a string/number came back; distinct by request text",
        trusted_extra=["FloatText hypotheses (not proved): shape of Rust float formatting, parse∘print = id on finite doubles"],
        profile=PROFILE)
