"""C16 — number->string and string->number are mutually inverse."""
from fractions import Fraction
from pipeline import *

META = {
    "text": "Lean 4 theorems about an executable model of Number::parse (i64 -> BigInt -> ratio -> double "
            "fall-through, with std / num-bigint / num-rational from_str_radix modelled character by character), "
            "Display for Number and the radix printers: digit strings in every radix 2..36 read back as the number "
            "they were printed from (strong induction on the value); for every exact number in every representation "
            "(fixnum, bignum incl. small values, reduced 32-bit ratio) and radix 2, 8, 10, 16 "
            "string->number(number->string z r) r is an exact number of equal value; under the FloatText hypotheses a "
            "finite double round-trips in radix 10 through the parser's fall-through; a #b/#o/#d/#x-prefixed printed "
            "form reads, as a literal, to what string->number gives. The model is tied to the code by differential "
            "runs through the VM (Scheme-level results) and the implementation is compared with the round-trip "
            "specification directly.",
    "note": "Trusted: Lean kernel; axioms propext, Classical.choice, Quot.sound; model tied to the code by differential "
            "testing only; float TEXT (Rust's {} / {:e} / {:.1}, str::parse::<f64>, num-traits' radix float parser) and "
            "float conversions (to_exact / to_inexact / BigRational::to_f64) are NOT modelled in this property's model "
            "— they are fields of the parameter structure FloatOps: theorems about doubles assume the FloatText "
            "structure (lexical shape of the three formats, parse(print x) = x for finite x), and on the wire the "
            "harness supplies what Rust produced; the shape hypotheses are checked on every double used. (The pure "
            "IEEE-754 rounding function Fl.rnd that C08's model uses for such conversions is no longer an assumption "
            "there: Marwood.Proofs.C08.rnd_monotone, rnd_exact_on_doubles, rnd_relative_error prove it monotone, exact "
            "on the values of finite doubles and within 2^-53 relative in the normal range — facts about the pure "
            "implementation in Num/F64.lean; that hardware f64 operations and Rust's conversions equal rnd of the "
            "exact result is still only validated bit-for-bit by the C08 streams. None of C16's theorems depends on "
            "either.) Radix printers were repaired (fix commits) to print sign and magnitude; the pinned "
            "two's-complement behaviour is kept as a proved counterexample. T16.3 (a prefixed literal denotes what "
            "string->number gives) is now closed from the TEXT down, not only at token level: literal_denotes is the "
            "token-level statement (prefix token + one Number/Symbol token => parse_number and string->number make "
            "the same parse_with_exactness call); parseText_prefixed adds the scanner (the text '#'+letter+body, "
            "body one Number or Symbol token before a delimiter, scans as exactly those two tokens and parse_text returns "
            "that datum and no remaining text); exactDigits_one_token proves the body hypothesis for every printed "
            "exact number in radix 2/8/10/16 (sign or decimal digit first: Number token; hex digit a-f first: Symbol "
            "token, which parse_number accepts); literal_exact combines them with T16.1: for every well-formed exact "
            "z and r in {2,8,10,16}, parse_text('#'+letter(r)+number->string(z,r)) = the number "
            "string->number(number->string(z,r), r) returns = normalize z (exact, same value) — no hypothesis left; "
            "literal_float is the same for finite doubles with #d under FloatText plus the one-token shape of the "
            "printed double (a FloatLex-type hypothesis, checked on every double used). literal_exact_in_context "
            "is the exact-number statement inside a program: followed by the end of text, a space or ')' and any further "
            "text, the scanner yields prefix token, body token and the tokens of the rest, and parse returns "
            "normalize z leaving exactly those tokens (the remaining-text computation of parse_text for that case is "
            "C11's T11.4, not repeated here). Still carried by the correspondence only: prefixed literals whose body "
            "is followed by other delimiters the scanner accepts (tab, newline, ';', '\"' ...), the #e/#i prefixes "
            "and stacked prefixes (the printed-form-as-prefixed-literal stream uses single radix prefixes). "
            "UNPREFIXED DECIMAL LITERALS WITH A SIGNED EXPONENT (fix c1c04ca, known_findings C16-signed-exponent-literal): "
            "string->number accepts 1e-7, 2.5E+3, .5e-1, but the pinned scanner ended the number token at the sign, so as "
            "program text they were a symbol (unbound variable) or, with a leading dot, two data; marwood's printer never "
            "produces such a spelling (it prints 0.0000001), so no printed-form stream could see it. The scanner model "
            "(Lex.lean numberTail / dotNumberTail) now carries the three booleans of the Rust loops (mantissa, digits, "
            "marker). Closed theorems: signed_exponent_is_number_token (for every decimal mantissa m = optional sign, "
            "digits with at most one dot and at least one digit, marker e/E, sign, digit string d: m++[e,sign]++d "
            "before anything that ends a number token - Stop: end of text, whitespace, bracket, quote, ';' ... - is "
            "exactly one token of type Number spelled that text; d may be empty as far as the scanner goes), "
            "signed_exponent_in_context / signed_exponent_scan (the token list), signed_exponent_literal_denotes "
            "(parse_text of the spelling = the number parse_with_exactness makes of it in radix 10 = what "
            "(string->number spelling) returns; the symbol fall-back exactly where string->number answers #f); the "
            "pinned scanner is kept as numberTailPinned / dotNumberTailPinned: signed_exponent_was_symbol (same text, "
            "first character a sign or digit: one Symbol token) and leading_dot_exponent_was_two_tokens (.5e-1 was "
            ".5e and -1). Whether Rust's float parser accepts a given spelling is a FloatOps field (oracle on the wire). "
            "The stream spelling-as-source-literal runs (quote <spelling>) through Vm::eval_text against "
            "(string->number <spelling>) for spellings the printer produces, Rust's {:e} form of doubles with E / "
            "explicit + variants, and a hand-written near-miss family (1e- 1e-x 1ee-7 .e-1 1e--7 1e+-7 1e-7x #x1e-7 ...): "
            "whenever string->number gives a finite number the literal is that number, and an unprefixed spelling it "
            "rejects (not starting with a dot) is not a number.",
    "technique": "Lean 4 proof (digit inverse by strong induction, structural sign and '/', parser fall-through) + randomized model-vs-implementation correspondence + implementation-vs-specification round trip",
}
MODULE = "Marwood.Proofs.C16"
THEOREMS = [
    "Marwood.Proofs.C16.digits_roundtrip",
    "Marwood.Proofs.C16.int_roundtrip_std",
    "Marwood.Proofs.C16.int_roundtrip_big",
    "Marwood.Proofs.C16.exact_roundtrip",
    "Marwood.Proofs.C16.exact_roundtrip_proc",
    "Marwood.Proofs.C16.float_roundtrip",
    "Marwood.Proofs.C16.literal_denotes",
    "Marwood.Proofs.C16.parseText_prefixed",
    "Marwood.Proofs.C16.exactDigits_one_token",
    "Marwood.Proofs.C16.literal_exact",
    "Marwood.Proofs.C16.literal_exact_in_context",
    "Marwood.Proofs.C16.literal_float",
    "Marwood.Proofs.C16.pinned_twos_complement_not_inverse",
    "Marwood.Proofs.C16.signed_exponent_is_number_token",
    "Marwood.Proofs.C16.signed_exponent_in_context",
    "Marwood.Proofs.C16.signed_exponent_scan",
    "Marwood.Proofs.C16.signed_exponent_literal_denotes",
    "Marwood.Proofs.C16.signed_exponent_was_symbol",
    "Marwood.Proofs.C16.leading_dot_exponent_was_two_tokens",
]
PROFILE = "debug"


def canon(w):
    """wire number -> canonical value/exactness, as the driver's spec-canon prints it"""
    if w.startswith("fix:") or w.startswith("big:"):
        return "exact:%d/1" % int(w[4:])
    if w.startswith("rat:"):
        n, d = w[4:].split("/")
        fr = Fraction(int(n), int(d))
        return "exact:%d/%d" % (fr.numerator, fr.denominator)
    if w.startswith("flo:"):
        return "inexact:" + w[4:]
    return "not-a-number:" + w


def is_nonfinite(spec):
    if not spec.startswith("inexact:"):
        return False
    bits = int(spec[8:], 16)
    return (bits >> 52) & 0x7FF == 0x7FF


def is_num(w):
    return w[:4] in ("fix:", "big:", "rat:", "flo:")


def spec_equal(req, impl, spec):
    # impl = `ok <text> <datum read back>`; the property: read back = z in value and exactness
    if req.startswith("c16-source"):
        # `ok <literal read> <string->number of the spelling>`: whenever string->number gives the spelling a
        # number the unprefixed source literal is that number; an unprefixed spelling it rejects is no number
        f = impl.split(" ")
        if len(f) != 3 or f[0] != "ok":
            return False
        if is_num(f[2]):
            # the property speaks of finite numbers (`inf`, `-inf`, `NaN` are symbols in program text)
            return f[1] == f[2] or is_nonfinite("inexact:" + f[2][4:] if f[2].startswith("flo:") else "")
        # (a leading dot is scan_dot, which ends its token at the first non-number character: `.6e+3-` is two tokens)
        cps = req.split(" ")[2].split(",")
        plain = "35" not in cps and cps[0] != "46"
        return not (plain and f[2] == "b0" and is_num(f[1]))
    if req.startswith("c16-literal"):
        f = impl.split(" ")
        return len(f) == 3 and f[0] == "ok" and f[1] == f[2]
    if is_nonfinite(spec):
        return True   # the property speaks of finite inexact numbers only
    f = impl.split(" ")
    if len(f) != 3 or f[0] != "ok":
        return False
    return canon(f[2]) == spec


def nontrivial(req, impl):
    return impl.startswith("ok ")


def streams(ctx):
    q = ctx.quick()
    cases = gen_cases("reader", ["c16-rt", 60000 if q else 600000], ctx.seed, profile=PROFILE)
    md, sd = correspond(ctx, "roundtrip-through-vm", cases, nontrivial, spec_equal=spec_equal)
    settle(ctx, md, sd)
    cases = gen_cases("reader", ["c16-lit", 30000 if q else 300000], ctx.seed, profile=PROFILE)
    # the literal stream carries its own specification: both readings are equal
    cases = [(r, i, "spec-literal-equal") for (r, i, _) in cases]
    md, sd = correspond(ctx, "printed-form-as-prefixed-literal", cases, nontrivial,
                        spec_equal=lambda req, impl, spec: spec_equal(req, impl, spec))
    settle(ctx, md, sd)
    # fix c1c04ca: decimal spellings with a signed exponent (1e-7, 2.5E+3, .5e-1) as unprefixed source literals
    cases = gen_cases("reader", ["c16-src", 20000 if q else 200000], ctx.seed, profile=PROFILE)
    cases = [(r, i, "spec-literal-equal") for (r, i, _) in cases]
    md, sd = correspond(ctx, "spelling-as-source-literal", cases,
                        lambda req, impl: impl.startswith("ok ") and is_num(impl.split(" ")[-1]),
                        spec_equal=spec_equal)
    settle(ctx, md, sd)
    cases = gen_cases("reader", ["c16-proc", 40000 if q else 400000], ctx.seed, profile=PROFILE)
    md, sd = correspond(ctx, "procedures-argument-checks-and-spellings", cases, nontrivial)
    settle(ctx, md, sd)
    for req, impl, _ in cases:
        if impl.startswith("panic"):
            report_case(ctx, {"stream": "procedures-argument-checks-and-spellings", "request": req, "impl": impl,
                              "model": None, "spec_request": None, "spec": "a number, #f or an error"})


def run(ctx):
    return standard_run(
        ctx, MODULE, THEOREMS, ["reader"], streams,
        rule="numbers: boundary palette (0, +-1, i64/i32 limits, 2^53, 1e10 neighbours, subnormal/max doubles) plus "
             "random fixnums of every magnitude, bignums across the fixnum boundary and in small-value BigInt "
             "representation, reduced 32-bit ratios of both signs, doubles by bit pattern; radix 2/8/10/16 for exact, "
             "10 for doubles; (number->string z r) then (string->number s r) evaluated by the VM; also the printed "
             "form as a #b/#o/#d/#x literal vs string->number, and the two procedures on random argument lists "
             "(arity, types, radix 0/1/37/2^32+10, spellings incl. underscores, signs, slashes, exponents); decimal "
             "spellings with a signed exponent (printer output, {:e} forms with E/+ variants, near-miss family) as "
             "unprefixed source literals vs string->number; "
             "non-trivial = a string/number came back; distinct by request text",
        trusted_extra=["FloatText hypotheses (not proved): shape of Rust float formatting, parse∘print = id on finite doubles"],
        profile=PROFILE)
