"""C02 — lexical scoping: innermost binding wins, closures share mutable locations."""
import os
from pipeline import *
from scope_util import gen_parallel, start, collect

META = {
    "text": "Lean 4 theorems about a model of marwood's scope machinery (environment.rs free-symbol analysis, internal "
            "definitions, EnvironmentMap::new_from_iof, Lambda::binding_location; run.rs CLOSURE / ENTER environment "
            "construction, slot loads and stores). (T02.1) For every syntactic nest of lambda forms of ANY depth over the "
            "scope-skeleton grammar (fixed and rest parameters, internal definitions plain and sugared, references, set!, "
            "calls, begin = the prelude's parameterless lambda, loops) and every order in which the HashSets of free and "
            "internally defined symbols are iterated: a name referenced, assigned or defined in the innermost body compiles "
            "to a global reference iff no level binds it, and otherwise to an environment slot whose chain of "
            "IofEnvironment links runs through exactly the non-binding levels and ends at the first entry for the name in "
            "the map of the level the specification's resolve selects, that entry being the level's own Argument or "
            "InternalDefinition entry; key lemma: the free-symbol analysis hands a name down through every intermediate "
            "lambda that does not bind it. (T02.2) 'Every LexicalEnvPtr points at a slot holding a value, not a pointer' "
            "holds of the empty heap and is preserved by CLOSURE, ENTER and assignment. (T02.3) On the run-time model: two "
            "closures created in one activation denote, for a captured name, the same (environment, slot) in every later "
            "heap; an activation keeps its closure's pointers; an assignment through any operand denoting a location is "
            "read back through every operand denoting it; two activations get different environments and a parameter "
            "lives in its own activation's environment; no CLOSURE, ENTER or assignment removes an environment or changes "
            "which location a slot denotes, so a binding outlives the procedure that created it. (T02.4, refinement) For "
            "EVERY program of the scope-skeleton language (any depth, any names), every specification fuel f and model fuel "
            "g >= 2f: the model evaluator (Vm.EnvRun: variables resolved only through the compiler model's environment maps, "
            "CLOSURE/ENTER environments and slot pointers) yields the same printed outcome of every top-level form and the "
            "same printed read/write log as the definitional scope-chain interpreter (Spec.Scope: resolve = innermost "
            "binding, one fresh location per bound name per activation, closures carry the chain of their creation, the "
            "store never shrinks), unless the specification run stops with 'unbound' or runs out of fuel; proved by a "
            "simulation relation (partial injection from specification locations to value slots, every frame of a chain the "
            "image of ONE activation environment) kept by every evaluation step; (T02.2 second half) in that relation the "
            "slot a compiled reference denotes - directly or through a LexicalEnvPtr - is slot i of the environment ENTER "
            "created for the activation whose frame resolve stops at. The property itself is "
            "checked on the implementation: every scope skeleton of three exhaustive families - (K) chains of 2..3 (thorough: 4) "
            "procedures that return their inner closure x every subset of {a,b,c} bound at every level x 3 binder-kind "
            "schemes x 4 assignment placements, where at every level of the chain the SAME closure is activated twice, both "
            "returned closures are kept, and the first, the second and the first again are invoked (separate activations "
            "get separate locations, also for procedures without formals whose only bindings are internal definitions); (A) 1..4 nested procedures "
            "x every subset of {a,b,c} bound at every level x 3 binder-kind schemes x {invoked inside, invoked twice, "
            "returned and invoked later and repeatedly, created in a loop} x {assignments before, after, both, neither "
            "side of closure creation}; (B) 1..3 nested procedures x every assignment of fixed parameter / rest parameter "
            "/ internal definition / free to a, b, c at every level (54 per level) x the same 16 dynamic variants (all 16 "
            "at depth <= 2, one rotating at depth 3) - plus random skeletons of depth <= 6 over <= 5 names, is run form by "
            "form in the real VM with every read and write logged, and values and logs are compared with the "
            "definitional scope-chain interpreter (Spec.Scope) and with the model evaluator that resolves variables only "
            "through the model's environment maps and slots; the real environment maps and the binding location of every "
            "compiled variable operand are compared with the model's; and after every session the real heap is scanned: "
            "every LexicalEnvPtr stored in a lexical environment points at a value slot of a lexical environment.",
    "note": "Closed theorems: T02.1 (static_resolution, static_resolution_global, free_handed_down, "
            "chain_to_binder, resolveLevel_eq_resolveIdx), T02.2 as preservation (one_level_invariant), T02.3 "
            "(closures_share_location, activation_keeps_location, shared_location_write_read / load_after_store, "
            "activations_separate, location_survives, store_evolves); pointer_leads_to_binder_activation, "
            "closure_pointer_leads_to_binder_activation, enter_establishes_relation (T02.2 second half, stated on the "
            "simulation relation, i.e. for the states reached by runs covered by T02.4). PARTIAL: refinement_partial / "
            "refinement_relation_partial (T02.4) - hypothesis: no top-level form of the SPECIFICATION run ends with 'unbound' "
            "or 'fuel' (decidable: (Spec.Scope.run f p {}).1.any faulty = false); full language of skeletons (rest "
            "parameters, internal definitions plain and sugared, begin, loops, each), any depth, any names, sessions of "
            "several forms; model fuel g >= 2f because a begin is the call of a parameterless lambda. The exclusion of "
            "'unbound' is necessary: refinement_fails_uninitialised (an internal definition read before its initialisation: "
            "specification unbound, model and real VM #<undefined> without error) and refinement_fails_assign_undefined "
            "(set! of an undefined global: specification unbound, model and real VM define it) are proved at concrete "
            "programs; R7RS calls both 'an error', so neither is a violation of C02, and the generated families contain "
            "neither. Also excluded with 'unbound', although the two agree there on every enumerated case: a plain "
            "reference to an undefined global. Non-vacuity: demo (depth 3, shadowing, a counter shared by two closures of one "
            "activation, two activations) satisfies the hypothesis, its specification log with locations and its model log "
            "are evaluated in the kernel. lexical_scoping_partial bundles T02.4 with the four clauses of the property as they "
            "hold in the specification interpreter (innermost binding wins: resolve_innermost/resolve_skip; closures created "
            "in one activation carry that activation's chain and resolve a name they do not rebind to the same location; an "
            "activation's frame consists of the next free locations; no step ever shortens the store: growsAll). Closed, no "
            "hypothesis on the program: reachable_one_level / session_evolves (every state the model evaluator reaches from "
            "the empty state, whatever errors occur, has one level of indirection and Evolves from every earlier state: "
            "keepsAll, induction over all seven evaluator functions). NOT proved: the second half of T02.2 (pointer leads to "
            "the BINDER's activation environment) for states reached by runs that T02.4 excludes. The model evaluator is "
            "tied to the real VM by the correspondence: specification interpreter, model evaluator and real VM agree on "
            "every enumerated skeleton. The static model is over the scope-skeleton grammar, not over "
            "arbitrary data; it is tied to the Rust analysis by comparing, for every lambda of every skeleton, the real "
            "environment map (each entry followed along its IofEnvironment links, by name) and the operand of every "
            "variable reference, and it is cross-checked on every case against the datum-level compiler model of C04 "
            "(Vm.Compile) run on the rendered program. Quasiquote is outside the grammar (find_free_symbols_in_proc "
            "skips it; defect 19, C01). Quick tier: family A depth 1-2 exhaustive, depth 3 one half, depth 4 one 16th; "
            "family B depth 1 exhaustive, depth 2 one quarter, depth 3 one 32nd, family K depth 2 exhaustive (768), depth 3 one "
            "8th (shards rotate with the seed); 300 random. "
            "Thorough tier: families A (224 640 skeletons), B (864 + 46 656 + 157 464) and K (768 + 6 144 + 49 152) "
            "completely, 15 000 random. Family K was added after a seeded change (ENTER reusing the closure's environment "
            "for procedures without formals, seeded/C02-2) went unnoticed by A, B and the random skeletons: none of them "
            "kept the results of two activations of one closure and went back to the first; K flags it on 124 cases of the "
            "quick tier. "
            "Sensitivity of the oracle, tried once in a scratch worktree: a VM whose CLOSURE captures by value instead of "
            "by pointer is flagged on 275 of 384 depth-2 skeletons, one whose new_from_iof takes the last instead of the "
            "first map entry for a name on 944 (runs) + 1056 (maps) of 2 x 3072 depth-3 cases. "
            "Outside the generated family (observed, not judged here): reading an internal definition before its "
            "initialisation yields #<undefined> without an error, set! of an undefined global defines it, a top-level "
            "(begin (define q 1)) defines nothing because begin is ((lambda () ...)).",
    "technique": "Lean 4 proof (environment-map chains end at the innermost binder at any depth, for every HashSet order; "
                 "one-level indirection preserved; run-time environments share/separate locations) + exhaustive "
                 "scope-skeleton enumeration: real VM vs definitional interpreter vs environment-map model evaluator, "
                 "real vs model environment maps",
}
MODULE = "Marwood.Proofs.C02"
THEOREMS = [
    "Marwood.Proofs.C02.static_resolution",
    "Marwood.Proofs.C02.static_resolution_global",
    "Marwood.Vm.Env.free_handed_down",
    "Marwood.Vm.Env.chain_to_binder",
    "Marwood.Proofs.C02.resolveLevel_eq_resolveIdx",
    "Marwood.Proofs.C02.resolve_innermost",
    "Marwood.Proofs.C02.resolve_skip",
    "Marwood.Proofs.C02.closures_share_location",
    "Marwood.Proofs.C02.activation_keeps_location",
    "Marwood.Proofs.C02.activations_separate",
    "Marwood.Proofs.C02.location_survives",
    "Marwood.Vm.Env.store_evolves",
    "Marwood.Proofs.C02.one_level_invariant",
    "Marwood.Proofs.C02.shared_location_write_read",
    "Marwood.Vm.Env.load_after_store",
    "Marwood.Proofs.C02.refinement_partial",
    "Marwood.Proofs.C02.refinement_relation_partial",
    "Marwood.Proofs.C02.refinement_fails_uninitialised",
    "Marwood.Proofs.C02.refinement_fails_assign_undefined",
    "Marwood.Proofs.C02.demo_not_faulty",
    "Marwood.Proofs.C02.pointer_leads_to_binder_activation",
    "Marwood.Proofs.C02.closure_pointer_leads_to_binder_activation",
    "Marwood.Proofs.C02.enter_establishes_relation",
    "Marwood.Proofs.C02.lexical_scoping_partial",
    "Marwood.Proofs.C02.reachable_one_level",
    "Marwood.Proofs.C02.session_evolves",
    "Marwood.Proofs.C02.spec_closure_carries_chain",
    "Marwood.Proofs.C02.spec_closures_share_location",
    "Marwood.Proofs.C02.spec_activation_gets_fresh_locations",
    "Marwood.Proofs.C02.spec_store_never_shrinks",
    "Marwood.Vm.EnvRefine.keepsAll",
    "Marwood.Vm.EnvRefine.growsAll",
    "Marwood.Vm.EnvRefine.sims",
    "Marwood.Vm.EnvRefine.sim_run",
    "Marwood.Vm.EnvRefine.sim_enter",
    "Marwood.Vm.EnvRefine.sim_mkClosure",
]

PAR = 6


def nontrivial(req, impl):
    if req.startswith("scope-envmap"):
        return "e>" in impl          # some variable captured from an enclosing procedure
    return impl.startswith("ok") and "err:" not in impl and "panic:" not in impl


def feed(ctx, label, runs, exhaustive=None):
    for cases in runs:
        for kind, stream in (("scope-run ", "oracle-" + label), ("scope-envmap ", "envmap-" + label),
                             ("#oracle one-level", "real-heap-one-level-" + label)):
            part = [c for c in cases if c[0].startswith(kind)]
            if not part:
                continue
            md, sd = correspond(ctx, stream, part, nontrivial)
            settle(ctx, md, sd)
            if exhaustive is not None:
                ctx.streams[stream]["exhaustive"] = exhaustive


def batches(arglists):
    for i in range(0, len(arglists), PAR):
        yield arglists[i:i + PAR]


def shards(cmd, n, pick=None):
    """argument lists for the n shards of a family (or only the shards in `pick`)"""
    return [cmd + [j, n] for j in (range(n) if pick is None else pick)]


def streams(ctx):
    corpus = os.path.join(VERIF, "corpus", "C02", "cases.txt")
    if os.path.exists(corpus):
        feed(ctx, "corpus", [gen_cases("scope", ["corpus", corpus], ctx.seed)])
    s = ctx.seed
    if ctx.quick():
        plan = [("depth1", shards(["exh", 1], 1), True),
                ("depth2", shards(["exh", 2], 2), True),
                ("depth3-half%d" % (s % 2), shards(["exh", 3], 4, [s % 2, s % 2 + 2]), False),
                ("depth4-shard%dof16" % (s % 16), shards(["exh", 4], 48, [s % 16, s % 16 + 16, s % 16 + 32]), False),
                ("kinds-depth1", shards(["kexh", 1, 16], 1), True),
                ("kinds-depth2-shard%dof4" % (s % 4), shards(["kexh", 2, 16], 8, [s % 4, s % 4 + 4]), False),
                ("kinds-depth3-shard%dof32" % (s % 32), shards(["kexh", 3, 1], 32, [s % 32]), False),
                ("keep-depth2", shards(["keep", 2], 2), True),
                ("keep-depth3-shard%dof8" % (s % 8), shards(["keep", 3], 8, [s % 8]), False),
                ("random-deeper", [["rand", 300, "both", 0]], None)]
        flat = [a for _, al, _ in plan for a in al]
        runs = []
        for b in batches(flat):
            runs += gen_parallel("scope", b, ctx.seed)
        k = 0
        for label, al, exh in plan:
            feed(ctx, label, runs[k:k + len(al)], exh)
            k += len(al)
    else:
        plan = [("depth1", shards(["exh", 1], 1), True),
                ("depth2", shards(["exh", 2], 2), True),
                ("depth3", shards(["exh", 3], 6), True),
                ("depth4", shards(["exh", 4], 48), True),
                ("kinds-depth1", shards(["kexh", 1, 16], 1), True),
                ("kinds-depth2", shards(["kexh", 2, 16], 12), True),
                ("kinds-depth3", shards(["kexh", 3, 1], 36), True),
                ("keep-depth2", shards(["keep", 2], 2), True),
                ("keep-depth3", shards(["keep", 3], 6), True),
                ("keep-depth4", shards(["keep", 4], 24), True),
                ("random-deeper", [["rand", 2500, "both", j] for j in range(6)], None)]
        # generation of the next batch overlaps with checking the previous one
        work = [(label, b, exh) for label, al, exh in plan for b in batches(al)]
        pending = None
        for label, b, exh in work:
            handles = start("scope", b, ctx.seed)
            if pending:
                feed(ctx, pending[0], collect("scope", pending[1]), pending[2])
            pending = (label, handles, exh)
        if pending:
            feed(ctx, pending[0], collect("scope", pending[1]), pending[2])


def run(ctx):
    return standard_run(
        ctx, MODULE, THEOREMS, ["scope"], streams,
        rule="scope skeletons (see META.text) rendered as Scheme sessions whose every variable read goes through (rd site x) "
             "and every assignment through (set! x (wr site e)), all bound values fresh integers: (oracle-*) values of all "
             "top-level forms and the full (site=value) log, real VM vs Lean model evaluator (environment maps + slots) vs "
             "definitional scope-chain interpreter; (envmap-*) for every lambda the real compiler produced: formals, "
             "environment map with each entry followed along its IofEnvironment links to its Argument/InternalDefinition "
             "end, and the binding of every variable operand in code order, vs the model. keep-* streams: chains of "
             "returned closures where every closure of the chain is activated twice, both results are kept and the first, "
             "the second and the first again are invoked. Streams marked exhaustive "
             "cover their whole depth; (real-heap-one-level-*) the heap scan after each session, expected 'ok'; non-trivial = "
             "error-free run (oracle) / some variable captured from an enclosing lambda (envmap); distinct by program",
        trusted_extra=["helper procedures tick/rd/wr/times/each of the probe sessions are ordinary Scheme run by the VM "
                       "under test; the interpreters treat them as primitives",
                       "family A assigns binder kinds by 3 rotating schemes; the full product of kinds is family B (depth <= 3)"])
