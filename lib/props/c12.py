"""C12 — memory is bounded by live data: garbage of every kind is reclaimed."""
from pipeline import *
from policy_util import *

META = {
    "text": "Lean 4 theorems: (T12.1) immediately after run_gc (forced or triggered, with or without growth) a cell of "
            "the heap model is allocated iff it is reachable from the roots in the marker's graph, no mark is left; for "
            "the repaired marker and heaps obeying the kind discipline Plain (no bare LexicalEnvPtr/InstructionPointer "
            "heap cells, no inline environments, bytecode operands are not opcodes) the marker's child function equals "
            "the semantic reference function kind by kind (pairs, vectors, strings, numbers incl. bignums, symbols, "
            "closures, environments, continuations, code with jump offsets excluded), hence allocated-after-GC = "
            "Spec.Live, also read on the post-collection heap alone for well-formed heaps, and the used counter after a "
            "collection = the number of live cells; negation proved for the pinned marker on a 4-cell witness. (T12.2) after the success epilogue "
            "and after the error epilogue (C07's model of run_count) the stack hands no root to the collector, for "
            "every program and failure; likewise the state returned to the caller, given that the collector leaves "
            "stack and registers alone (hypothesis GcRegs of C07's model). (T12.3) Spec.HeapPolicy (capacity, used; alloc grows by grownSize when full, "
            "gcPoint collects iff used/capacity >= 3/4 and grows iff still > 3/4 — the same arithmetic terms as the heap "
            "model): for every operation sequence of any length with at most A allocations between collection points "
            "and at most L live cells at each, capacity <= max(initial, grownSize(chunk, max(L+A, 4A, 4L/3))) <= "
            "max(initial, 6(L+A)+chunk); Heap.alloc and Heap.runGc are proved to project onto the spec's operations, so the "
            "bound holds for every paced run of the heap model itself (alloc / run_gc / counter-preserving steps); "
            "without collection points capacity is unbounded. The model is tied to the code by (a) the (used, capacity) "
            "trace of every run_gc call of 14 garbage-loop templates x live sizes {0,10,1000} x decades of iterations "
            "on the real VM with its natural trigger, replayed through Spec.HeapPolicy (exact equality of capacity "
            "before/after, collect/skip decision, used) and checked against the T12.3 bound with measured A and L; (b) "
            "the implementation oracle capacity(10n) = capacity(n) and live cells / symbol table / global slots / stack "
            "capacity after a final forced collection equal for n and 10n, and host bytes released by dropping the VM "
            "(counting allocator) held(10n) <= 1.5 held(n) + 64 KiB; (c) real heap snapshots before forced "
            "collections: model collector = real allocated set, Plain holds, Spec.Live = real allocated set.",
    "note": "Closed theorems: T12.1 (both forms), T12.2, T12.3 + refinement lemmas; none is _partial. NOT closed "
            "theorems, carried by the exploration only: (i) that the live count L at collection points is bounded by "
            "the program's live data — the first half of C12's first sentence for concrete programs, which is what "
            "oracle (b) tests per allocation kind. The SECOND half, the allocations A between two collection points, is "
            "now a theorem about the concrete machine (Vm/Machine.lean step over Vm/ConcreteHeap.lean concreteOps; "
            "Lemmas/PolicyAllocBound.lean: step_cost = the graded form of step_rel over all 16 opcodes, instantiated with "
            "'exactly j <= k steps Heap.alloc of the erased heap and otherwise edits that leave (capacity, used) alone, "
            "allocator invariant HInv kept'): instr_alloc_bound - one instruction allocates at most opAlloc op + extra "
            "cells, opAlloc = CONS 3, CLOSURE 2, ENTER 1, CALL/TCALL 2 (call/cc: continuation + boxed result; apply: boxed "
            "result; closures / continuations 0), VARARG 3, MOV PUSH JMP JNT RET HALT VPUSH 0 (opAlloc_table, max 3); extra "
            "= growth of `used` across the generic builtin / eval's compiler / VPUSH the instruction calls, 2*argc for "
            "VARARG's rest-argument list (vararg_alloc_bound: <= 3 + 2*argc), 0 for every other instruction "
            "(instr_alloc_bound_core: NonExt => used' <= used + opAlloc op <= used + 3); slice_alloc_bound - n <= 8192 "
            "instructions with no collection in between perform exactly j <= 8192*3 + E policy operations `.alloc`, E = "
            "the sum of extra over the slice (the cells allocated by the builtins called in it); "
            "machine_slice_capacity_bounded - T12.3 (heap_run_capacity_bounded) with A := 8192*3 + E for a slice followed "
            "by a collection point and any continuation of the heap model paced by that A and L; session_capacity_bounded - "
            "any number of blocks 'j allocations then a collection point' with j <= A and live <= L is paced (paced_blocks), "
            "so the bound is independent of the number of slices. Hypotheses: HInv of the "
            "initial heap (a consequence of GoodI) and the law ExtAllocOnly on the unmodelled operations (generic "
            "builtins, eval's compiler, VPUSH change (capacity, used) only through Heap::alloc and keep HInv) - "
            "satisfiable by failingExt and by allocExt whose builtins do allocate (allocExt_allocOnly); non-vacuity: a "
            "CONS step on a 4-cell heap allocating 2 <= 3 cells (hCons_inv, kernel-evaluated), a HALT slice. "
            "SESSION LEVEL (Lemmas/PolicySession*.lean, closed theorems about the modelled machine): cgc_is_gcPoint - a "
            "collection `cgc force s` of the concrete machine acts on (chunk, capacity, used) as the policy's gcPoint "
            "force live with live = liveCount s = the number of cells reachable from the machine roots rootsOf s "
            "through semantic references (from runGc_refines_policy + T12.1 machine level + used_after_gc = live count), "
            "keeps the allocator invariant and is one HRun step (HRun.collected / HRun.skipped), under GcOk s = GoodI s, "
            "CodePlain s.heap, Small of the returned heap; runLoop_blocks_generic - for EVERY machine, from the definition "
            "of runLoop alone (the cycles % 8192 test, the budget stop), an execution with any budget and fuel is a "
            "sequence of closed blocks of <= 8192 instructions each followed by gc, then an open block of < 8192; "
            "runLoop_is_paced / runEval_is_paced (both epilogues end in a collection that closes the last block) / "
            "runHistory_is_session - the same for the concrete machine, for one evaluation and for a whole history of "
            "evaluations (C07's runHistory), as a `Sess` whose records are (instructions, E, state the collection saw), E "
            "= sum of `extra` over the block; session_is_heap_run - a session is ONE HRun of the heap model with "
            "operations blocksOps [(j_i, force, liveCount cp_i)], j_i <= 3 n_i + E_i; session_capacity_bounded_machine - "
            "for every session (closed blocks then an open one, i.e. at every moment) with <= 8192 instructions per block, "
            "<= E cells allocated per block by the unmodelled operations and <= L cells reachable from the roots at every "
            "collection point: capacity <= bound chunk initial (8192*3+E) L <= max(initial, 6(L + 8192*3 + E) + chunk), "
            "independent of the number of instructions, evaluations and collections - C12's first sentence for the "
            "modelled machine, with L and E as the program-dependent parameters. Its hypotheses: ExtAllocOnly, HInv of "
            "the initial heap, the initial state right after a collection point, and GcOk at every collection point. "
            "GcOk is discharged (eval_collection_points_ok, runHistory_session_ok, history_capacity_bounded_machine) from "
            "the bundled invariant VmOkP = VmOk & PInv (an invariant of the real machine, vmOkP_reaches) and CodePlain of "
            "the state each evaluation starts in, the laws ExtLaws / ExtGood / ExtProc / ExtCodePlain, and the physical "
            "size bound EvalSizeBounded (SizeBounded plus the two epilogue collections); the wiped stack of the "
            "epilogues keeps GoodI (onDone_goodI, onError_goodI). For a history, `JobsOk` asks VmOkP and the size bound "
            "of the state each job starts in after prepare (that prepare_eval re-establishes VmOkP is not proved: the "
            "compiler is unmodelled, and runHistory's `prepare` takes the entry lambda as given, so the cells the "
            "compiler allocates are not part of a runHistory session; the general theorem admits them as `Seg.other` "
            "steps counted in E). Non-vacuity: the HALT demo program evaluated twice satisfies every hypothesis "
            "(demo_jobsOk, sHalt_evalSizeBounded; kernel-evaluated). What is still NOT a theorem: that the Lean runLoop "
            "IS run.rs's loop (cycle counter, budget stop, epilogue collections: tied by the policy-trace stream, which "
            "replays every real run_gc call, and by C13's lock-step stream), E for concrete builtins (each builtin's "
            "allocation is proportional to its arguments: oracle (b)), and the bound on L for concrete programs; "
            "(ii) [upgraded to theorems about the concrete machine of Vm/ConcreteHeap.lean: "
            "no_floating_garbage_of_goodI / no_floating_garbage_machine / forced_gc_no_floating_garbage_machine - "
            "started in a state satisfying the invariant GoodI, in EVERY reachable state (any number of instructions, "
            "collections at any boundaries), whenever run_gc collects (always, with the forcing hook: "
            "forced_gc_collects), the allocated set of the returned state = Spec.Live from the machine roots rootsOf s, "
            "read on the heap before and on the heap after. plainRoots, the value/stack/environment/vector/"
            "continuation clauses of plainHeap and the WF facts (sizes, no marks, shape) are now CONSEQUENCES of GoodI "
            "(Lemmas/MachineGarbage.lean), propagated by goodI_reaches under the hypotheses of T03.5/T13.3: "
            "ExtLaws/ExtGood, SizeBounded, StackDiscAlong. The one clause of plainHeap that GoodI does not carry is the "
            "decoding discipline of code objects (CodePlain: an operand cell is never an opcode); it is proved to be an "
            "invariant of its own (codePlain_reaches: run_one - through the generic step_rel over all 16 opcodes - and "
            "run_gc never create or change a code object), so the theorems assume it of the INITIAL state and, as the "
            "law ExtCodePlain, of the unmodelled operations (generic builtins, eval's compiler, VPUSH), like ExtGood; "
            "hypotheses shown jointly satisfiable on the HALT demo state with failingExt.] What remains checked per "
            "snapshot of stream (c) only: that the REAL VM's heap obeys Plain / WF / the decoding discipline (i.e. that "
            "the model's GoodI and the Ext laws describe the Rust code); (iii) T12.2 speaks about C07's machine model (tied to run.rs by C07's lock-step "
            "stream), rendered into collector cells by an arbitrary rendering that maps Undefined to Undefined. "
            "Reachability is stated over the pre-collection heap (contents of reachable cells are unchanged by C03's "
            "T03.2). Iteration counts: quick n <= 10^4 (10n = 10^5) for cheap kinds and one decade less for "
            "eval/toplevel/mixed/failing-evaluation kinds; thorough n <= 10^6 (10n = 10^7) for pairs, vectors, strings, "
            "symbols, bignums, 10^5/10^6 for closures and continuations, 10^4/10^5 for the kinds that compile per "
            "iteration; traces longer than 60000 collection points are not replayed (oracles only). Defects: failed "
            "evaluations never collected (fixed, /repo 1a2fd33); global bindings of never-defined variables are never "
            "reclaimed (known finding C12-undefined-global-binding, templates unbound/globalrefs). Trusted: Lean "
            "kernel; axioms propext, Classical.choice, Quot.sound; f64 utilisation test and 1.5x growth modelled in "
            "exact arithmetic (equal below 2^51 cells); Rust-side payload memory (strings, bignums) is freed with the "
            "cell by Drop: measured only through the held-bytes oracle (with a tolerance, because hash-table capacities "
            "never shrink), not modelled.",
    "technique": "Lean 4 proof (allocated-after-GC = reachable; growth-policy bound by induction over operation sequences; "
                 "refinement heap model -> policy spec) + trace replay of real collection points through the spec + "
                 "implementation-level growth oracle per allocation kind + snapshot correspondence",
}
MODULE = "Marwood.Proofs.C12"
THEOREMS = ["Marwood.Proofs.C12." + t for t in [
    "allocated_after_gc_iff_reachable", "marker_follows_semantic_references", "semantic_references_by_kind",
    "allocated_after_gc_iff_live", "no_floating_garbage", "retainWitness_dead", "unfixed_marker_retains_garbage",
    "wiped_stack_no_roots", "success_epilogue_stack_no_roots", "error_epilogue_stack_no_roots",
    "failed_eval_stack_no_roots", "successful_eval_stack_no_roots",
    "capacity_bounded", "capacity_bounded_prefix", "capacity_bounded_closed_form",
    "alloc_refines_policy", "runGc_refines_policy", "without_collection_points_unbounded",
    "undefined_global_binding_retains_symbol",
    "allocated_after_gc_iff_live_after", "alloc_refines_policy_wf", "used_after_gc_eq_live_count",
    "heap_run_capacity_bounded", "pre_h4",
    "no_floating_garbage_of_goodI", "no_floating_garbage_machine", "forced_gc_no_floating_garbage_machine",
    "sHalt_codePlain", "failingExt_codePlain",
    "instr_alloc_bound", "instr_alloc_bound_core", "opAlloc_table", "vararg_alloc_bound", "slice_alloc_bound",
    "machine_slice_capacity_bounded", "session_capacity_bounded", "failingExt_allocOnly", "allocExt_allocOnly", "hCons_inv",
    "cgc_is_gcPoint", "liveCount_le_capacity", "runLoop_blocks_generic", "runLoop_is_paced", "runEval_is_paced",
    "runHistory_is_session", "session_is_heap_run", "session_capacity_bounded_machine", "codePlain_runEval",
    "eval_collection_points_ok", "runHistory_session_ok", "history_capacity_bounded_machine",
    "hHalt_cgc", "sHalt_evalSizeBounded", "demo_eval", "demo_jobsOk"]]

CHEAP = ["pairs", "vectors", "strings", "symbols", "bignums", "sliced", "abandoned", "bulk", "rejected"]
MEDIUM = ["closures", "continuations", "contchain"]
COMPILING = ["eval", "toplevel", "mixed", "errors", "syntaxerrors", "unbound", "globalrefs", "evallex", "shorterrors"]


def streams(ctx):
    q = ctx.quick()
    # corpus first: the failing-evaluation templates that once grew without bound
    for args in corpus_args("C12"):
        cases = gen_cases("policy", args, ctx.seed)
        md, sd = correspond(ctx, "corpus-garbage-loops", cases, grow_nontrivial)
        settle(ctx, md, sd)
    # garbage-producing loops on the real VM, natural collection trigger
    if q:
        jobs = [["grow", 5, k] for k in CHEAP + MEDIUM] + [["grow", 5] + COMPILING[:4], ["grow", 5] + COMPILING[4:]]
    else:
        jobs = [["grow", 7, k] for k in CHEAP] + [["grow", 6, k] for k in MEDIUM] + [["grow", 6, k] for k in COMPILING]
    cases = gen_parallel("policy", jobs, ctx.seed, workers=4 if q else 6)
    md, sd = correspond(ctx, "garbage-loops", cases, grow_nontrivial)
    settle(ctx, md, sd)
    # snapshots before forced collections (the C03 generator, other seed): allocated set = reachable set
    cases = gen_cases("policy", ["snap", 120 if q else 800, 6], ctx.seed)
    md, sd = correspond(ctx, "gc-snapshots-no-floating-garbage", cases, snap_nontrivial,
                        spec_equal=snap_spec_equal, model_equal=snap_model_equal)
    settle(ctx, md, sd)


def run(ctx):
    return standard_run(
        ctx, MODULE, THEOREMS, ["policy", "gc"], streams,
        rule="(1) garbage-loop templates (pairs, vectors, strings, closures+environments, continuations, eval, "
             "successive top-level forms, interned symbols, bignums, mixed, failing evaluations: runtime / compile-time "
             "/ unbound variable, code mentioning undefined globals) x live sizes {0,10,1000} x decades n=10^2.. on the "
             "real VM, natural trigger: per run the run_gc log replayed through Spec.HeapPolicy (policy-trace) and the "
             "T12.3 bound with measured A, L (policy-bound); per (n,10n) pair '#oracle capacity', '#oracle live' and "
             "'#oracle held-bytes' (implementation vs itself); (2) heap snapshots before forced collections of 16 allocation-heavy program "
             "templates: real allocated set after = model collector = Spec.Live, kind discipline Plain holds. "
             "Non-trivial = a trace with a collection / a bound with L>0 / a snapshot whose collection kept something; "
             "distinct by request text",
        trusted_extra=["first sentence of C12 for concrete programs: L bounded by live data is carried by the '#oracle "
                       "capacity/live/held-bytes' exploration, not by a closed theorem; A per slice of <= 8192 instructions "
                       "is a theorem about the machine model (slice_alloc_bound: <= 8192*3 + cells allocated by the "
                       "builtins called) under the law ExtAllocOnly on the unmodelled operations; the session theorem "
                       "session_capacity_bounded_machine takes L (cells reachable at collection points) and E (cells "
                       "allocated per block by unmodelled operations) as parameters"])


# ROUND 8: the Ext laws are theorems for a table of real builtins (lib/props/procinv_util.py, Lemmas/ListExtC12.lean)
import procinv_util as _pv8
MODULE = _pv8.listext_module("C12")
THEOREMS = THEOREMS + [t for t in _pv8.LISTEXT_LAWS + _pv8.LISTEXT["C12"] if t not in THEOREMS]
META["note"] = META["note"] + _pv8.LISTEXT_NOTE


# ROUND 10 (work package wp14-prepare): prepare_eval re-establishes the machine invariant — JobsOk discharged
THEOREMS = THEOREMS + [t for t in [
    "Marwood.Lemmas.Good.prepare_vmOkP",
    "Marwood.Lemmas.Good.prepare_vmOkP_idle",
    "Marwood.Lemmas.Good.instSteps_all",
    "Marwood.Lemmas.Good.instSteps_codePlain",
    "Marwood.Lemmas.Good.instSteps_allocs",
    "Marwood.Lemmas.Good.IdleOk.installs",
    "Marwood.Lemmas.Good.IdleOk.gc",
    "Marwood.Lemmas.Good.idleOk_runEval",
    "Marwood.Lemmas.Good.histInstalls_ok",
    "Marwood.Lemmas.Good.Sess.prepend",
    "Marwood.Lemmas.Good.histInstalls_session",
    "Marwood.Proofs.C12.history_capacity_bounded_installs",
    "Marwood.Proofs.C12.history_jobs_ok_installs",
    "Marwood.Proofs.C12.history_capacity_bounded_installs_listExt",
    "Marwood.Proofs.C12.history_jobs_ok_installs_listExt",
] if t not in THEOREMS]
MODULE = (MODULE if isinstance(MODULE, list) else [MODULE]) + ["Marwood.Lemmas.ListExtPrepare"]
META["note"] = META["note"] + (
    " ROUND 10 (prepare_eval re-establishes the invariant; Lemmas/Prepare*.lean): history_capacity_bounded_machine asked "
    "VmOkP of EVERY state in which a job starts (JobsOk), because runHistory takes each entry lambda as given. The "
    "relation Installs e fuel s s' entry (Lemmas/PrepareDefs.lean) describes what the compiler and loader inside "
    "prepare_eval do to the concrete machine: registers and stack unchanged, the heap grows by allocator steps "
    "(cput/putNew exactly as the instruction model allocates: free-list head or growth, 2-bit map) of (i) lambda cells "
    "that are Enc-loadings of code objects of the compiler model's compileRunnable e fuel, (ii) data cells of quoted "
    "data (pairs, address-free atoms, vectors), (iii) newly interned symbols and new Undefined global slots (the "
    "allocation of the finding C12-undefined-global-binding), each step with its references already allocated and no "
    "value position designating entry code; InstallsGarbage (a rejected form: the same steps with arbitrary code "
    "objects satisfying the clauses the invariants state of every lambda cell, followed by the collection of the Err "
    "arm). THEOREM prepare_vmOkP: VmOkP of an idle state (sp = 0) + Installs + the size bound => VmOkP of the state the "
    "evaluation starts in (GoodI: WFHeap/Plain/LamAll/EnvOk of the heap and allocated roots; WF-stack from WFS.initial "
    "with the entry lambda verified ENTRY code by T04.6; CInvG IsValue via compiled_lambda_clauses; PInv: a new lemma "
    "cput_hp_any for allocating code cells, cellPF_congr). history_capacity_bounded_installs: the C12 bound for the "
    "history relation HistInstalls (prepare_eval as a step of its own, accepted and rejected forms) with VmOkP and "
    "CodePlain of the INITIAL state only; the loader's allocations (<= 1 per step, instSteps_allocs) are absorbed by "
    "the block in which the evaluation starts (Sess.prepend), so E now bounds builtin AND loader allocations per "
    "block. Left as hypotheses: the laws of the unmodelled builtins, RecSized (heaps <= 2^62 cells), and — carried by "
    "the stream prepare-installs of C07, not proved — that the real prepare_eval is related by Installs (executable "
    "checker installsB, proved sound: installsB_sound). history_capacity_bounded_installs_listExt / history_jobs_ok_installs_listExt "
    "(Lemmas/ListExtPrepare.lean): the same at the 17 real builtins of Vm/ListExt.lean, with no hypothesis about "
    "builtins and no per-job invariant hypothesis.")
