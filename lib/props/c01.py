"""C01 — evaluation agrees with the language semantics for core and derived forms."""
import re
from collections import Counter
from pipeline import *

META = {
    "text": "Lean 4: Spec.Eval is a definitional interpreter for the property's grammar (core forms; let, let*, letrec, named "
            "let, begin, cond incl. =>, case incl. =>, and, or, when, unless, delay/force defined natively with their R7RS "
            "meaning, not through the prelude macros; application with operands left to right then the operator, fixed and "
            "variadic arity, apply, eval, map/for-each, 64 primitives on small exact integers, booleans, characters, symbols, "
            "strings, lists, vectors; global environment by name, store with locations for variables, pairs, vectors, "
            "promises; fuel = nesting depth; failures as classes; state kept on failure). Theorems: (T01.1) independence — "
            "for every session and every definition of a name that does not occur in it, the results of the session are "
            "unchanged, and results are a function of the session alone; (T01.4) in the compiler model the code of an "
            "application is the operand codes in order, each followed by PUSH, then the argument count, then the operator "
            "code, then CALL/TCALL; (T01.2, derived forms vs prelude macros, is not proved — see note). The agreement of the real "
            "parse+expand+compile+run pipeline with Spec.Eval is carried by differential testing: typed generated sessions of "
            "1-12 top-level forms run form by form in a fresh Vm and through the specification (value as datum, error "
            "class, output log), plus two implementation-vs-implementation oracles (same session in a second fresh Vm; same "
            "session preceded by and interleaved with unrelated definitions).",
    "note": "Closed theorems (no _partial): T01.1 independence, about Spec.Eval, at full strength — for every fuel, session h, name x "
            "that occurs nowhere in h (not even in quoted data, which eval could turn into a reference) and definition d that in a "
            "fresh instance only binds x (proved for every (define (x . formals) body...) with x not a reserved word): the "
            "results of d::h after dropping d's own are those of h and the output logs are equal; also from any clean state "
            "and any state that differs from it only in the binding of x (an unrelated definition anywhere in the session); "
            "by induction on the fuel through every special form, every one of the 64 primitives, apply/eval/force/map/for-each "
            "(Lemmas/EvalFrame*.lean). 'Results are a function of the session alone' holds by construction of the specification "
            "(stated, trivial). T01.4 operand order, about the compiler model Vm/Compile.lean: application code = operand codes "
            "left to right each followed by PUSH, then argc, operator code, CALL/TCALL. Spec answers at the witnesses of the three "
            "known findings are proved by kernel evaluation. T01.2 is HALF done: translate/prelude.py regenerates Gen/Prelude.lean "
            "from prelude.scm on every run and Lemmas/EvalPrelude.lean proves (kernel evaluation) that the R7RS matcher of C17 "
            "expands schematic uses of when, unless, begin, and, or, let and case-with-a-final-=> clause with the CURRENT prelude "
            "rules to the expected core forms (so a change of a rule's shape or order breaks a proof); NOT proved: that "
            "evaluating those expansions equals evaluating the form natively in Spec.Eval — it needs fuel monotonicity of "
            "Spec.Eval (an expansion nests deeper than the native form, so the equality is only up to fuel); cond, let*, letrec, "
            "named let, delay are not covered even by the first half; T01.3 (compiler correctness: compile+run of Vm/Compile.lean + Vm/Machine.lean "
            "agrees with Spec.Eval) is not stated. The agreement of the REAL parse+expand+compile+run pipeline with Spec.Eval — "
            "i.e. the first sentence of the property — is carried ONLY by the differential correspondence (generated sessions, "
            "see coverage.streams: feature histogram, named combinations, failure classes), and the fresh-VM / independence "
            "clause on the implementation side by the two implementation-vs-implementation oracles; the theorems are about the "
            "specification (T01.1) and the compiler model (T01.4). Error classes are compared at R7RS granularity "
            "(unbound / not-procedure / user / wrong). Defects found on the pinned tree: four repaired by fix: commits "
            "(macros expanded inside quasiquoted data 9750711; free variables of unquoted expressions not captured f2dec47; "
            "quasiquoted vector template shared between evaluations e0db8cb; case with a final => clause evaluating => as a "
            "variable c92a4af, found by the generator), three known findings (dotted unquote `(a . ,e); top-level begin with "
            "definitions; prelude macros capturing var1 / temp / atom-key).",
    "technique": "Lean 4 definitional interpreter as specification + proved frame/independence theorem, compiler-model operand "
                 "order, derived-form expansion lemmas; generated differential testing of Vm::eval against the specification "
                 "with fresh-VM and independence oracles",
}
MODULE = "Marwood.Proofs.C01"
THEOREMS = [
    "Marwood.Proofs.C01.independence",
    "Marwood.Proofs.C01.independence_from",
    "Marwood.Proofs.C01.define_procedure_onlyBinds",
    "Marwood.Proofs.C01.results_function_of_session",
    "Marwood.Spec.Eval.recOK_evalN",
    "Marwood.Proofs.C01.application_operand_order",
    "Marwood.Proofs.C01.operands_left_to_right",
    "Marwood.Proofs.C01.dotted_unquote_spec_witness",
    "Marwood.Proofs.C01.toplevel_begin_spec_witness",
    "Marwood.Proofs.C01.or_capture_spec_witness",
    "Marwood.Spec.Eval.Prelude.every_macro_is_readable",
    "Marwood.Spec.Eval.Prelude.when_expansion",
    "Marwood.Spec.Eval.Prelude.unless_expansion",
    "Marwood.Spec.Eval.Prelude.begin_expansion",
    "Marwood.Spec.Eval.Prelude.and_expansions",
    "Marwood.Spec.Eval.Prelude.or_expansions",
    "Marwood.Spec.Eval.Prelude.let_expansion",
    "Marwood.Spec.Eval.Prelude.case_final_arrow_expansion",
]

FIXED_NOTE = ("four defects repaired in /repo (fix: 9750711 macros expanded inside quasiquoted data, f2dec47 free variables of "
              "unquoted expressions not captured by enclosing lambdas, e0db8cb quasiquoted vector template shared between "
              "evaluations, c92a4af case with a final => clause); three known findings (dotted unquote, top-level begin with "
              "definitions, prelude macro capture)")


def _dec(t):
    if t == "-":
        return ""
    try:
        return "".join(chr(int(x)) for x in t.split(","))
    except ValueError:
        return ""


def session_forms(req):
    """the form texts of an `eval-session <fuel> F:<features> <text>…` request"""
    w = req.split(" ")
    if len(w) < 3 or w[0] != "eval-session":
        return []
    return [_dec(t) for t in w[3:]]


def session_features(req):
    w = req.split(" ")
    if len(w) < 3 or not w[2].startswith("F:"):
        return []
    return [f for f in w[2][2:].split("+") if f and f != "-"]


@predicate("c01_dotted_unquote")
def c01_dotted_unquote(case, m):
    """some form has a quasiquote template whose tail is an unquote: `(a . ,e)` / (a . (unquote e)) / (a unquote e)"""
    for f in session_forms(case.get("request", "")):
        if ("`" in f or "quasiquote" in f) and re.search(r"\.\s+(,|\(unquote\b)|[^(\s]\s+unquote\s", f):
            return True
    return False


@predicate("c01_toplevel_begin_define")
def c01_toplevel_begin_define(case, m):
    """a top-level form (begin …) that contains a definition"""
    return any(re.match(r"\(begin\b", f) and "(define" in f for f in session_forms(case.get("request", "")))


@predicate("c01_prelude_capture")
def c01_prelude_capture(case, m):
    """the session uses one of the identifiers the prelude's or / cond / case expansions bind"""
    ident = re.compile(r"(?<![^\s()'`,])(var1|temp|atom-key)(?![^\s()])")
    return any(ident.search(f) for f in session_forms(case.get("request", "")))


def nontrivial(req, impl):
    # at least one form produced a value other than #<void>
    res = impl.split(" || ")[0].split(" | ")
    return any(r.startswith("ok ") and r != "ok void" for r in res)


def correspond_spec(ctx, stream, cases):
    """implementation vs specification: the request is answered once by the driver (Spec.Eval is both the
    model column and the specification column); a disagreement is a failing input of the property."""
    st = ctx.streams.setdefault(stream, {"cases": 0, "model_disagree": 0, "spec_disagree": 0,
                                         "bad_op": 0, "impl_panic": 0, "impl_err": 0})
    oracle = [c for c in cases if c[0].startswith("#oracle ")]
    reg = [c for c in cases if not c[0].startswith("#oracle ")]
    _, sd = correspond(ctx, stream, oracle)          # `#oracle` lines only: no driver traffic
    answers = driver_batch([c[0] for c in reg])
    feats, combos = Counter(), Counter()
    forms_n, form_err, spec_timeout = 0, Counter(), 0
    for i, ((req, impl, _), spec) in enumerate(zip(reg, answers)):
        st["cases"] += 1
        ctx.evaluations += 1
        fs = session_features(req)
        feats.update(fs)
        combos[" ".join(fs)] += 1
        res = impl.split(" || ")[0].split(" | ")
        forms_n += len(res)
        for r in res:
            if r.startswith("err "):
                form_err[r[4:]] += 1
        if "panic" in impl:
            st["impl_panic"] += 1
        if any(r.startswith("err") for r in res):
            st["impl_err"] += 1
        if spec == "bad-op":
            st["bad_op"] += 1
        if "timeout" in spec:
            spec_timeout += 1
        nt = nontrivial(req, impl)
        if nt:
            ctx.nontrivial.add(hashlib.blake2b(req.encode(), digest_size=8).digest())
        if len(ctx.samples) < 4 and nt and (i % max(1, len(reg) // 4) == 0):
            ctx.samples.append({"stream": stream, "session": session_forms(req)[:6], "impl": impl, "spec": spec})
        if impl != spec:
            st["spec_disagree"] += 1
            sd.append({"stream": stream, "request": req, "impl": impl, "model": spec, "spec_request": req,
                       "spec": spec, "session": session_forms(req)})
    st["forms"] = st.get("forms", 0) + forms_n
    st["spec_timeouts"] = st.get("spec_timeouts", 0) + spec_timeout
    fe = Counter(st.get("form_errors", {}))
    fe.update(form_err)
    st["form_errors"] = dict(fe)
    fh = Counter(st.get("feature_histogram", {}))
    fh.update(feats)
    st["feature_histogram"] = dict(sorted(fh.items(), key=lambda kv: -kv[1]))
    st["distinct_feature_combinations"] = st.get("distinct_feature_combinations", 0) + len(combos)
    pairs = Counter()
    for combo, n in combos.items():
        fs = combo.split(" ")
        for key in (("apply-variadic", "cond"), ("quasiquote-in-returned-closure-call", "define-variadic"),
                    ("redefine-proc", "call"), ("eval", "closure-counter"), ("force-global-promise", "set!-global"),
                    ("quasiquote-vector", "returned-closure-call"), ("with-failures", "define-proc")):
            if all(k in fs for k in key):
                pairs["+".join(key)] += n
    pc = Counter(st.get("named_combinations", {}))
    pc.update(pairs)
    st["named_combinations"] = dict(pc)
    return [], sd


def _stream(ctx, name, args, seed=None):
    cases = gen_cases("eval", args, ctx.seed if seed is None else seed, timeout=1500)
    md, sd = correspond_spec(ctx, name, cases)
    settle(ctx, md, sd)


def streams(ctx):
    _stream(ctx, "corpus", ["corpus"])
    _stream(ctx, "findings", ["findings", 30 if ctx.quick() else 300])
    if ctx.quick():
        _stream(ctx, "sessions", ["sessions", 2000])
    else:
        for k in range(8):
            _stream(ctx, "sessions", ["sessions", 5000], seed=ctx.seed + 1000003 * k)
    st = ctx.streams.get("sessions", {})
    top = list(st.get("feature_histogram", {}).items())
    ctx.notes.append("sessions: %d sessions, %d forms, %d feature combinations; features (sessions containing them): %s" % (
        st.get("cases", 0) - st.get("oracle_cases", 0), st.get("forms", 0), st.get("distinct_feature_combinations", 0),
        ", ".join("%s=%d" % kv for kv in top)))
    ctx.notes.append(FIXED_NOTE)


def run(ctx):
    return standard_run(
        ctx, MODULE, THEOREMS, ["eval"], streams,
        rule="typed generator over the property's grammar: sessions of 1-12 top-level forms (definitions of variables, fixed and "
             "variadic procedures, procedures returning closures incl. closures that build quasiquote templates, closure "
             "counters, promises, vectors; redefinition of procedures and variables, set! of globals; expressions of type "
             "integer / boolean / list / datum nested to depth 1-3 over if, let, let*, letrec (incl. mutual), named let, begin, "
             "cond (=>, test-only, apply of variadics in arms), case (integers, symbols, characters, =>), and, or, when, unless, "
             "delay/force (memoisation), lambda with rest parameters, apply, eval of constructed forms, map/for-each, "
             "quasiquote with unquotes, vectors, nesting and macro-shaped data, vector and list primitives, display for "
             "evaluation order); every fifth session with injected failures (unbound variable, wrong type, arity, error, "
             "non-procedure, index, malformed top-level form); each session: real Vm form by form vs Spec.Eval (datum of each "
             "value, error class at R7RS granularity unbound/not-procedure/user/wrong, output log), `#oracle fresh-vm` (same "
             "session in a second fresh Vm) and `#oracle independence` (preceded by and interleaved with 2-6 unrelated "
             "definitions); streams: corpus (repaired defects and combinations named in the property's rationale), findings "
             "(feature-keyed known findings), sessions; non-trivial = some form yields a value other than #<void>; distinct by request",
        trusted_extra=["Spec.Eval is a hand-written reading of R7RS 4.1, 4.2, 5.3, 6.x for the grammar of the property; where R7RS "
                       "leaves a value unspecified (define, set!, one-armed if, when/unless, cond/case without match, for-each, "
                       "display) it returns #<void> as the implementation does; operands are evaluated left to right and the "
                       "operator last (the order the property fixes and compile.rs implements)",
                       "error classes are compared at R7RS granularity: unbound | not-procedure | user | wrong (arity, type, range, syntax)",
                       "session texts are read on the Lean side by the reader model of C11 (Marwood.Parse.parseText)"])
