"""C01 — evaluation agrees with the language semantics for core and derived forms."""
import re
from collections import Counter
from pipeline import *

META = {
    "text": "Lean 4: Spec.Eval is a definitional interpreter for the property's grammar (core forms; let, let*, letrec, named "
            "let, begin, cond incl. =>, case incl. =>, and, or, when, unless, delay/force defined natively with their R7RS "
            "meaning, not through the prelude macros; application with operands left to right then the operator, fixed and "
            "variadic arity, apply, eval, map/for-each, 64 primitives on small exact integers, booleans, characters, symbols, "
            "strings, lists, vectors; global environment by name, store with locations for variables, pairs, vectors, "
            "promises; fuel = nesting depth; failures as classes; state kept on failure). Theorems: (T01.1) independence — "
            "for every session and every definition of a name that does not occur in it, the results of the session are "
            "unchanged, and results are a function of the session alone; (T01.4) in the compiler model the code of an "
            "application is the operand codes in order, each followed by PUSH, then the argument count, then the operator "
            "code, then CALL/TCALL; fuel monotonicity of Spec.Eval; (T01.2) for the macros of the regenerated prelude and ALL uses, "
            "the R7RS matcher's expansion is the expected term and evaluating it agrees with the native meaning up to fuel "
            "(closed / partial / open per form: see note). The agreement of the real "
            "parse+expand+compile+run pipeline with Spec.Eval is carried by differential testing: typed generated sessions of "
            "1-12 top-level forms run form by form in a fresh Vm and through the specification (value as datum, error "
            "class, output log), plus two implementation-vs-implementation oracles (same session in a second fresh Vm; same "
            "session preceded by and interleaved with unrelated definitions).",
    "note": "Closed theorems (no _partial): T01.1 independence, about Spec.Eval, at full strength — for every fuel, session h, name x "
            "that occurs nowhere in h (not even in quoted data, which eval could turn into a reference) and definition d that in a "
            "fresh instance only binds x (proved for every (define (x . formals) body...) with x not a reserved word): the "
            "results of d::h after dropping d's own are those of h and the output logs are equal; also from any clean state "
            "and any state that differs from it only in the binding of x (an unrelated definition anywhere in the session); "
            "by induction on the fuel through every special form, every one of the 64 primitives, apply/eval/force/map/for-each "
            "(Lemmas/EvalFrame*.lean). 'Results are a function of the session alone' holds by construction of the specification "
            "(stated, trivial). T01.4 operand order, about the compiler model Vm/Compile.lean: application code = operand codes "
            "left to right each followed by PUSH, then argc, operator code, CALL/TCALL. Spec answers at the witnesses of the three "
            "known findings are proved by kernel evaluation. FUEL MONOTONICITY of Spec.Eval is closed (Lemmas/EvalMono*.lean: "
            "fuel_monotone, fuel_monotone_apply, session_fuel_monotone): a definite outcome (value or error; same globals, store, "
            "output) reached with fuel n is reached with every m >= n, by induction on fuel through every special form, primitive, "
            "apply/eval/force/map/for-each. T01.2: translate/prelude.py regenerates Gen/Prelude.lean from prelude.scm on every run. "
            "FIRST HALF closed for ALL uses (Lemmas/EvalDerivedExpand.lean, arbitrary sub-forms and numbers of clauses/bindings/body "
            "forms, not instances): the R7RS matcher of C17 with the current rules rewrites when, unless, begin, and, or, let, named "
            "let, let*, letrec, cond (7 rules), case (7 rules), delay, delay-force to the terms of Lemmas/EvalDerivedShapes.lean "
            "(12 closed kernel-evaluated facts pin the regenerated rules, so a change of prelude.scm breaks a proof). SECOND HALF "
            "(evaluating the expansion in Spec.Eval = evaluating the form under its native meaning: same value/error class, globals, "
            "store, output, each within k more levels of fuel; t01_2_* combine both halves): CLOSED for when; unless (hypothesis: "
            "`not` not shadowed and globally the primitive — the expansion names it); begin (hypothesis: no definition among the "
            "forms; with one the two differ, begin_define_differs, cf. known finding top-level begin); and (all arities); or with 0/1 "
            "operands; let; let*; named let (against the native letrec); cond else-clause and clauses with a body (rules 1,6,7); case "
            "(else => f). PARTIAL: letrec — expansion = native meaning with #f instead of #<undefined> in not-yet-initialised "
            "variables (derived_letrec_partial; R7RS leaves that unspecified; observable difference proved at a witness), and exact "
            "(closed) for one binding whose init is a lambda expression (t01_2_letrec_single: the shape named let expands to); or with >= 2 "
            "operands, cond (t => f) and (t) clauses followed by more, case with a compound key, case clauses with a datum list — "
            "these expansions allocate cells the native meaning does not have (the variable var1 / temp / atom-key; the quoted list "
            "of (memv k '(d ...))) and run the remaining sub-forms under one more binding, so the outcomes cannot be equal states. "
            "CLOSED UP TO THOSE CELLS, direction native => expansion (t01_2_or, t01_2_cond_test, t01_2_cond_arrow, t01_2_case_key, "
            "t01_2_case_body, t01_2_case_arrow; ExpandsAndAgreesUpToExtra name k use rho st): from every well-formed state (WFSt: no "
            "dangling locations — an invariant of evaluation, wf_evalN / wf_runSession, true of initSt) and under the decidable "
            "hypothesis 'the binder identifier occurs nowhere in the sub-forms evaluated under it' (mentions = false: stronger than "
            "'not free'; the known finding C01-prelude-macro-capture is the negation witness, *_capture_expansion_witness), whenever "
            "the native form has a definite outcome with fuel n, the expansion has with fuel n+k (k = 3,3,2,2,1,1) the same kind of "
            "outcome, the same error class and output log, and values / globals / stores related by an injective renaming of "
            "locations that fixes the initial store (ResRel f (VRel f); agrees_observables: the printed value is the same when the "
            "native value is not cyclic); by outcome_unique it is the only definite outcome of the expansion. For case clauses with a "
            "datum list additionally: the key is a variable or constant (atomKey: what rule 1 leaves), the data are ones quote turns "
            "into atoms (simpleAtom: booleans, characters, (), exact integers, symbols, strings — a pair or vector datum would need "
            "one more allocation argument, an inexact number is a syntax error of Spec.Eval's quote), memv not shadowed and globally "
            "the primitive (the expansion names it). Main lemma extra_cell_invariance (Lemmas/EvalExtra*.lean, ~2600 lines; induction "
            "on the fuel through every special form, every primitive, apply/eval/force/map/for-each; relation: fixed injective "
            "location map f with allocation in lock step f(size+i) = size'+i, cells/globals related, closures with the same code and "
            "environments agreeing on every name outside a list B of names the code does not mention). It is stated for the GUARDED "
            "native run guardN (Lemmas/EvalExtraCut.lean): valToDatum, listOfVal, equalVal, memWalk, zipArgs take their fuel from "
            "store.size+1 and do NOT signal exhaustion, so display/write/eval/equal?/length/... of CYCLIC data depend on the number of "
            "cells — or_cyclic_display_differs is a concrete session on which (or #f (display p)) and its expansion print different "
            "text in Spec.Eval (valToDatum_cyclic_fuel_matters the one-cell core) — guardN turns 'a store-size-fuelled helper ran "
            "into its bound' into a time-out; it agrees with evalN wherever definite (guarded_refines) and the helpers are monotone "
            "from there (valToDatum_stable, listOfVal_stable, equalVal_stable, memWalk_stable, zipArgs_stable). CONVERSE direction (expansion definite => native "
            "definite with the SAME fuel and the related outcome): CLOSED for or (>= 2 operands), cond test / => clauses, case rule 1 "
            "(t01_2_or_converse, t01_2_cond_test_converse, t01_2_cond_arrow_converse, t01_2_case_key_converse; AgreesConv 1) and for "
            "case rules 4-7 (t01_2_case_body_converse, t01_2_case_arrow_converse; AgreesConv atoms.length — NB vacuous from stores "
            "with fewer cells than the clause has data: the expansion's own memv walks the fresh quoted list within the slack), by "
            "a simulation from the LARGER store to the smaller (Lemmas/EvalConverse*.lean, ~2000 lines: ResRelR/SimR/recSimR, a "
            "mechanical mirror of EvalExtra* plus cut_transfer; extra_cell_invariance_converse). The guard sits on the expansion's "
            "side with slack k = number of extra cells (sguardN k: no helper within k of its bound; sguardN k n refines evalN n: "
            "slack_guarded_refines; sguardN 0 = guardN) and the native run is then shown not to hit ITS guard either. When the "
            "guards are quiet: acyclic data shallower than the helper fuel (guards_quiet_on_ranked_data: a rank function decreasing "
            "along the store's edges; guards_quiet_on_allocation_ordered_store). With agrees_unique this makes the two directions an "
            "equivalence on guard-free runs. NOT proved: freeness in the precise sense (bound occurrences of var1 are excluded too), pair / "
            "vector data in case clauses. What the expansions compute is also characterised as before (derived_or_partial, "
            "derived_cond_test_partial, derived_cond_arrow_partial, derived_or_first_true). cond (t) final: native #<void> vs expansion "
            "#f when t is false (derived_cond_test_final, cond_test_final_differs; R7RS unspecified; the REAL VM answers #f, i.e. "
            "Spec.Eval's 'void' is not the implementation's choice here — not exercised by the generator): excluded. case (else r ...): "
            "CLOSED exactly (same state) from every state in which the key evaluates without effect (t01_2_case_else; a constant key "
            "in every state); with an unbound key the two differ (case_else_unbound_key_differs: native error, expansion the body). "
            "delay / force (a change of REPRESENTATION: Spec.Eval has native promise cells, the prelude the list ((done? . value-or-thunk)) "
            "and library procedures make-promise/force/promise-done?/promise-value/promise-update!; Lemmas/EvalPromise*.lean): "
            "prelude_promise_library (the five regenerated definitions evaluate to the closures the proofs are about, by rfl), "
            "PromRep (representation relation: native cell vs root pair + box, same done flag, payloads related / thunks "
            "(lambda () e) vs (lambda () (make-promise #t e))), t01_2_delay_unforced (zero forces: both build the representation of "
            "one unforced promise, no effect), t01_2_delay — PARTIAL, restricted fragment: (force (delay e)) native (slack-1 guarded) "
            "definite => the two-step expansion run with the prelude's library (9 more levels of fuel) has the same kind of outcome, "
            "error class, output log, a value that is the image of the same value, and BOTH promises end forced holding it "
            "(SpanAgree: both runs are images under injective location maps of the evaluation of e at the use; "
            "promise_agrees_observables), t01_2_force_again (forcing a forced promise returns the payload on both sides with no "
            "output and no user code: forced several times = evaluated once), promise_programs_agree (kernel-checked: forced twice "
            "prints once, never forced prints nothing, R7RS 4.2.5 re-entrancy 6/6 on both sides and on the real VM, a delay-force "
            "chain). Proof: converse simulation (native run => eager evaluation I of e), T01.1 frame property for guardN "
            "(recOK_guardN: rebinding the global force), a forward simulation WITH A FRAME (Lemmas/EvalPromiseJ*.lean: cells of "
            "the larger store outside the image stay as they are — the promise cell / the structure and call frames survive the "
            "evaluation of e), symbolic execution of the library closures (EvalPromiseX). RESTRICTIONS: e and every value of the "
            "state do not mention the symbol force (decidable: mentions k_force e = false; Inv k_force st), e not a definition, "
            "force/make-promise not shadowed at the use, evaluating e leaves the library's globals (incl. car cdr cons list "
            "set-car! set-cdr!) alone (hkeep, semantic: redefining car breaks the prelude's force, not a native one). OPEN: the "
            "general VRelP simulation (promises flowing through arbitrary code: needs a Kripke-style growing location map, the "
            "prelude's force allocates call frames the native one does not; and pair?/equal? distinguish the representations), "
            "delay-force (no native meaning in Spec.Eval: first half + chain example vs the R7RS reading (delay (force e))). T01.3 (compiler correctness: compile+run of Vm/Compile.lean + Vm/Machine.lean "
            "agrees with Spec.Eval), ALL PARTIAL, on the model machine Vm.step over an abstract heap with explicit assumed law "
            "structures. STAGE 1 success (compile_correct_stage1_partial, Lemmas/CompileCorrect*.lean): closure-free fragment "
            "(constants, quote of atoms, global reference, set! of a global, if, application with a non-keyword head; (define x e) "
            "separately): the run leaves live stack, bp, ep unchanged, advances ip by the code length, leaves a representation of the "
            "value in acc and a heap representing the new state — under RepLaws (global slots form a store; writing a global preserves "
            "code/representations; truth of #f; void; and `call`: the behaviour of builtins is ASSUMED); laws satisfiable on the concrete "
            "heap model, every hypothesis discharged for (not #t). STAGE 1 ERROR CASE (compile_correct_stage1_error_partial, "
            "Lemmas/CompileCorrect2Err*.lean): when Spec.Eval ends with a definite error of class c (unbound variable, not-a-procedure, "
            "builtin error classes at the granularity unbound/not-procedure/user/wrong), the machine runs without failing to a state "
            "whose next run_one returns an error of the same class, with the start's lambda/bp/ep, the start's live stack below the "
            "pushed operands (the error path does not unwind), and a heap representing the specification's state AT THE FAILURE "
            "(exactly the completed effects) — under the additional assumed law ErrLaws.call_err (a failing apply on a represented "
            "callee is either a non-procedure for the machine's dispatch or a generic builtin failing with the same class). Excluded "
            "by explicit hypotheses: class `syntax` (inexact/rational constants are outside Spec.Eval's grammar, the machine loads them) "
            "and set! of an unbound global (Spec.Eval fails, marwood defines: DESIGN 7.5; set_unbound_spec_fails). ErrLaws derived "
            "from elementary laws for store-free values, dispatch part proved on the concrete heap; every hypothesis discharged for "
            "(if (set! g #t) (g) 1) (demo_err_runs: g := #t is done, then CALL fails InvalidProcedure). QUOTE OF COMPOUND DATA "
            "(quote_compound_partial, Lemmas/CompileCorrect2Quote.lean): over the generic heap with the minimal law extension QuoteLaws "
            "(closure of the representation under heap pairs/vectors, monotone in the store; one opaque observation vecElems) — cheaper "
            "than concreteOps because Machine.lean keeps vector payloads opaque; the compile-time constant (DatumAt) represents every "
            "copy quoteVal allocates (many-to-one; sound while constants are not mutated — Spec.Eval copies per evaluation, marwood "
            "shares: they differ on (set-car! '(1) 2), an R7RS error); laws hold for the closure of any store-independent base "
            "(closedVR_quoteLaws), every hypothesis discharged on the CONCRETE heap model for '(1 . 2) (demo_quote_pair); merged into the "
            "stage-2 fragment (quote of any datum, vector constants; Laws2.vr_pair/vr_vec and the preservation field Ext2.datum "
            "'nothing mutates a compile-time constant'), not into the stage-1 induction (whose quote is still atoms only). STAGE 2 "
            "(compile_correct_stage2_partial, closure_call_stage2_partial, compile_correct_stage2_toplevel; Lemmas/CompileCorrect2*.lean), "
            "success case: fragment F2 = stage-1 forms in ANY binding context + (lambda (x ...) body ...) with fixed arity, distinct "
            "parameters, no internal definitions + application of closures and primitives in tail and non-tail position + references and "
            "set! of lambda parameters at any nesting depth. Proved by induction on the fuel of the SPECIFICATION: CLOSURE builds the "
            "closure environment, CALL pushes ep/ip, ENTER builds the activation environment, the body runs, RET restores; TCALL "
            "(both branches of run.rs: equal and different argument counts) replaces the frame and the run ends in the caller as the "
            "RET of the current activation would have left it (Out2 = Run2 | Ret2). Closures are (lambda, environment) pairs whose "
            "captured slots are one-level LexicalEnvPtr's to the location standing for the captured variable; a partial bijection "
            "(World) relates machine variable locations and specification store locations, so set! through aliases is covered. "
            "ASSUMED (Laws2): observation of values, pair/vector closure of the representation, global store, envPut on a value slot, "
            "every heap operation keeps compile-time constants intact (Ext2.datum), CLOSURE (closure_ok) and ENTER "
            "(activation_ok) as build_closure_environment/build_lexical_environment, behaviour of primitives (call). On the CONCRETE "
            "heap model (concreteOps: the collector's heap with the real allocator — free list head first, growth by chunks, addresses "
            "reused — and CLOSURE/ENTER as in run.rs) every law EXCEPT `call` is a THEOREM (laws2_concrete / concrete_laws2, "
            "Lemmas/CompileCorrect2Concrete*.lean; invariant: CInv of Lemmas/ConcreteLaws.lean, free cells are Undefined, named global "
            "slots exist), likewise ErrLaws2 except the failing-builtin part (concrete_errLaws2), and every hypothesis of the main "
            "theorem is discharged on that heap for ((lambda (x) (if x 1 2)) #t) (demo_concrete_closure_runs: CLOSURE takes free "
            "cells, ENTER grows the heap). All of Laws2 incl. call (vacuous: no primitive) is proved for the small bump-allocating "
            "heap of CompileCorrect2Toy.lean (Toy.laws), every hypothesis discharged for ((lambda (x) (if x 1 2)) #t) (demo_closure_runs) and for the tail call "
            "((lambda (f) (f #t)) (lambda (x) (if x 1 2))) (demo_tailcall_runs) and for a captured variable "
            "((lambda (x) ((lambda (y) x) 2)) 1) (demo_capture_runs). The fragment predicate carries well-scopedness as "
            "computed facts about the compiler model (lambdaParts' environment map = formals ++ captured-from-enclosing-map; a name has "
            "a map entry iff it is lexically bound): adequacy of the free-variable analysis is a per-program checked hypothesis here "
            "(proved in general on the scope-skeleton model in C02); set! of a GLOBAL is restricted to a set of names (RepData2.setG) "
            "that the invariant keeps bound, because marwood's set! of an unbound global defines it where Spec.Eval fails. STAGE 2 "
            "ERROR CASE (compile_correct_stage2_error_partial, Lemmas/CompileCorrect2Fail*.lean): when Spec.Eval ends with an error "
            "of class != syntax at any depth of closure calls and tail calls (unbound variable, non-procedure in operator position, "
            "closure called with the wrong number of arguments -> ENTER fails InvalidNumArgs, failing primitive), the machine runs "
            "without failing to a state whose next run_one returns an error of the same class; the heap there represents the "
            "specification's state at the failure and the start's live stack (in tail position: the caller's) is intact below the "
            "frames of the calls in progress — nothing is unwound, which is the situation C07's reset starts from; additional assumed "
            "law ErrLaws2 (failing primitive = failing generic builtin of the same class; non-procedure values are `other` for the "
            "dispatch), proved on the Toy heap (Toy.errLaws), every hypothesis discharged for ((lambda (x) (x)) #t) "
            "(demo_closure_fails: TCALL fails InvalidProcedure inside the activation). Excluded from stage 2: rest parameters "
            "(VARARG), internal definitions, duplicate parameters ((lambda (x x) x) 1 2): Spec.Eval 2, compiler model and real VM 1 — "
            "an R7RS error; duplicate_parameters_differ), derived forms via macros (T01.2), quasiquote, call/cc, "
            "eval/apply/map/for-each (re-dispatching builtins), GC interleaving. STAGE 3 (Lemmas/CompileCorrect3*.lean; a second "
            "development over the same machine / compiler model / RepData2 / World, stage 2 untouched, F2 ⊆ F3: stage3_contains_stage2), "
            "SUCCESS CASE ONLY, all PARTIAL: compile_correct_stage3_partial = the stage-2 statement for the fragment F3 = F2 + "
            "(lambda (x ... . r) b ...) / (lambda r b ...) + bodies (define y1 e1) ... (define yk ek) b1 ... bm (m >= 1, parameters "
            "and defined names distinct). (1) REST PARAMETERS (closure_call_stage3_rest_partial, vararg_frame_stage3_partial): the "
            "prologue VARARG; ENTER — VARARG's three cases of run.rs (too few arguments: excluded by Spec.Eval's success; exactly one "
            "extra operand wrapped in place; otherwise operands popped, consed last to first, frame rewritten to args.len() operands) "
            "against bindArgs' fresh list; the value relation VR3 is closed under heap pairs whose components are VR3 values, so the "
            "rest list may contain closures. (2) INTERNAL DEFINITIONS (body_stage3_defines_partial): ENTER leaves the slots of the "
            "internally defined names Undefined (new law), Spec.Eval's evalBody allocates #<undefined> variables; each define = "
            "code of e, MOV acc <slot>, void. The fragment carries a set `us` of names that may not be READ yet and demands "
            "(decidably) that e_i and everything nested in it, lambda bodies included, does not mention y_i ... y_k: the let*-like use. "
            "(Mutual) recursion through internal define is therefore EXCLUDED (the closure would capture a name before its definition "
            "has been evaluated); the simpler-looking rule 'lambda initialisers may mention later names' is unsound: "
            "(define (g) z) (define y (g)) (define z 1) reads z uninitialised. The exclusion is needed: marwood reads the Undefined "
            "slot silently, Spec.Eval reads #<undefined>; they print alike but a global assigned that value becomes UNBOUND in the VM "
            "(internal_define_read_before_init_differs + real VM run: ok void, ok void, err unbound) — R7RS: an error; spec/VM "
            "divergence at a point R7RS leaves open, not a defect. (3) apply RE-DISPATCH (apply_redispatch_stage3_partial): at the "
            "CALL/TCALL with the apply builtin in acc and operands f a1..ak lst: one step shifts the fixed arguments over f, pushes "
            "the list elements and the new count, winds ip back; the same instruction then dispatches f (a stage-3 closure — the "
            "interplay with VARARG is covered — or a first-order builtin) and the run ends as that call ends; hypotheses: f is a heap "
            "pointer, lst proper and SHORTER THAN THE MODEL'S GUARD (Machine.lean bounds the element loop by 100000 to stay total; Rust "
            "has no bound), ListLaws (how Nil / a pair cell of a stage-1 list looks to heap.get). It is a theorem about the CALL site, "
            "NOT integrated into the F3 induction (the guard is a property of the whole run, and the re-dispatching builtins "
            "apply/eval/force/map/for-each are not represented values of the main theorem: Laws3.vr_no_redisp). ASSUMED Laws3 = "
            "heap laws of stage 2 with Ext3 (= Ext2 + heap pairs and initialised slots kept) + internal slots Undefined after ENTER + "
            "heap.put returns a pointer observing the same value / a fresh pair + `call` for FIRST-ORDER builtins. Laws3 is PROVED "
            "for the toy heap of CompileCorrect3Toy.lean (laws3_toy: put allocates, CLOSURE/ENTER as run.rs, the only builtin is apply so call is "
            "vacuous); every hypothesis of the main theorem discharged there for ((lambda (a . r) r) 1 2 3) (demo_stage3_rest_runs: "
            "acc shows (2 3)) and ((lambda (x) (define y (if x 1 2)) y) #t) (demo_stage3_define_runs); ListLaws proved there (listLaws3_toy) and every "
            "hypothesis of the apply theorem discharged for the whole compiled (apply (lambda (a b) b) 1 '(2)) (demo_stage3_apply_runs: "
            "operands by the main theorem, load of the global apply, re-dispatch, ENTER, body, RET; acc shows 2). NOT proved on the concrete heap "
            "model (open: put laws, Ext3.pairs/init for the free-list allocator). Of the error cases of stage 3 only the arity error of a variadic "
            "call is proved (closure_call_stage3_rest_arity_error_partial: fewer arguments than fixed parameters — Spec.Eval arity, the "
            "machine's VARARG fails InvalidNumArgs at once); errors inside initialisers / bodies: open. Open: quasiquote, call/cc escapes, eval/map/for-each, recursion through internal "
            "definitions, stage-3 error case, Laws3 on the concrete heap, the builtin laws (call / call_err) on the concrete heap, GC interleaving. The agreement of the REAL parse+expand+compile+run pipeline with Spec.Eval — "
            "i.e. the first sentence of the property — is carried ONLY by the differential correspondence (generated sessions, "
            "see coverage.streams: feature histogram, named combinations, failure classes), and the fresh-VM / independence "
            "clause on the implementation side by the two implementation-vs-implementation oracles; the theorems are about the "
            "specification (T01.1) and the compiler model (T01.4). Error classes are compared at R7RS granularity "
            "(unbound / not-procedure / user / wrong). Defects found on the pinned tree: four repaired by fix: commits "
            "(macros expanded inside quasiquoted data 9750711; free variables of unquoted expressions not captured f2dec47; "
            "quasiquoted vector template shared between evaluations e0db8cb; case with a final => clause evaluating => as a "
            "variable c92a4af, found by the generator), three known findings (dotted unquote `(a . ,e); top-level begin with "
            "definitions; prelude macros capturing var1 / temp / atom-key). STAGE 3, continued (Lemmas/CompileCorrect3{Concrete,Err,Rec}*.lean, statements in Lemmas/CompileCorrect3Props.lean), all PARTIAL: (i) Laws3 and ListLaws are THEOREMS on the concrete heap model (laws3_concrete, listLaws3_concrete) except `call`, the behaviour of the first-order builtins, which stays the one assumed law; Laws3 was restated first because on the real heap ENTER copies internal-definition slots from the CLOSURE environment (internal slots are Undefined only because closure environments are never written); (ii) the error case of stage 3 (compile_correct_stage3_error_partial, closure_call_stage3_error_partial) incl. errors in initialisers of internal definitions and both arity errors, additional assumed law ErrLaws3 (proved on the toy heap, dispatch part on the concrete heap); (iii) recursion through internal definitions: blocks of consecutive lambda-initialised definitions may be self/mutually recursive (compile_correct_stage3_rec_partial); a block may not be interrupted by a non-lambda definition. Still open: builtin laws on the concrete heap, quasiquote, call/cc, eval/map/for-each in the compiler theorem, GC interleaving (covered separately by C03/C13).",
    "technique": "Lean 4 definitional interpreter as specification + proved frame/independence theorem, compiler-model operand "
                 "order, fuel monotonicity, derived-form expansion theorems (matcher, all uses) and expansion-vs-native evaluation "
                 "theorems; generated differential testing of Vm::eval against the specification "
                 "with fresh-VM and independence oracles",
}
MODULE = "Marwood.Proofs.C01"
THEOREMS = [
    "Marwood.Proofs.C01.independence",
    "Marwood.Proofs.C01.independence_from",
    "Marwood.Proofs.C01.define_procedure_onlyBinds",
    "Marwood.Proofs.C01.results_function_of_session",
    "Marwood.Spec.Eval.recOK_evalN",
    "Marwood.Proofs.C01.application_operand_order",
    "Marwood.Proofs.C01.operands_left_to_right",
    "Marwood.Proofs.C01.dotted_unquote_spec_witness",
    "Marwood.Proofs.C01.toplevel_begin_spec_witness",
    "Marwood.Proofs.C01.or_capture_spec_witness",
    "Marwood.Proofs.C01.fuel_monotone",
    "Marwood.Proofs.C01.outcome_unique",
    "Marwood.Proofs.C01.fuel_monotone_apply",
    "Marwood.Proofs.C01.session_fuel_monotone",
    "Marwood.Spec.Eval.recLe_evalN",
    "Marwood.Proofs.C01.derived_limit",
    "Marwood.Proofs.C01.t01_2_when",
    "Marwood.Proofs.C01.t01_2_unless",
    "Marwood.Proofs.C01.t01_2_begin",
    "Marwood.Proofs.C01.t01_2_and",
    "Marwood.Proofs.C01.t01_2_or_short",
    "Marwood.Proofs.C01.t01_2_let",
    "Marwood.Proofs.C01.t01_2_letStar",
    "Marwood.Proofs.C01.t01_2_namedLet",
    "Marwood.Proofs.C01.t01_2_letrec_single",
    "Marwood.Proofs.C01.t01_2_cond_else",
    "Marwood.Proofs.C01.t01_2_cond_body",
    "Marwood.Proofs.C01.t01_2_case_else_arrow",
    "Marwood.Proofs.C01.t01_2_first_half_rest",
    "Marwood.Proofs.C01.derived_when",
    "Marwood.Proofs.C01.derived_unless",
    "Marwood.Proofs.C01.derived_begin",
    "Marwood.Proofs.C01.begin_define_differs",
    "Marwood.Proofs.C01.derived_and",
    "Marwood.Proofs.C01.derived_or_short",
    "Marwood.Proofs.C01.derived_or_partial",
    "Marwood.Proofs.C01.derived_or_first_true",
    "Marwood.Proofs.C01.or_capture_expansion_witness",
    "Marwood.Proofs.C01.derived_let",
    "Marwood.Proofs.C01.derived_letStar",
    "Marwood.Proofs.C01.derived_namedLet",
    "Marwood.Proofs.C01.derived_letrec_partial",
    "Marwood.Proofs.C01.derived_letrec_single",
    "Marwood.Proofs.C01.letrec_uninitialised_differs",
    "Marwood.Proofs.C01.derived_cond_else",
    "Marwood.Proofs.C01.derived_cond_body",
    "Marwood.Proofs.C01.derived_cond_test_final",
    "Marwood.Proofs.C01.cond_test_final_differs",
    "Marwood.Proofs.C01.derived_cond_test_partial",
    "Marwood.Proofs.C01.derived_cond_arrow_partial",
    "Marwood.Proofs.C01.cond_capture_expansion_witness",
    "Marwood.Proofs.C01.derived_case_else_arrow",
    "Marwood.Proofs.C01.derived_case_else_partial",
    "Marwood.Proofs.C01.case_capture_expansion_witness",
    "Marwood.Proofs.C01.guarded_refines",
    "Marwood.Proofs.C01.extra_cell_invariance",
    "Marwood.Proofs.C01.extra_cell_invariance_top",
    "Marwood.Proofs.C01.extra_cells_appended",
    "Marwood.Proofs.C01.or_cyclic_display_differs",
    "Marwood.Proofs.C01.t01_2_or",
    "Marwood.Proofs.C01.t01_2_cond_test",
    "Marwood.Proofs.C01.t01_2_cond_arrow",
    "Marwood.Proofs.C01.agrees_observables",
    "Marwood.Proofs.C01.agrees_unique",
    "Marwood.Proofs.C01.agrees_printed",
    "Marwood.Proofs.C01.t01_2_case_key",
    "Marwood.Proofs.C01.t01_2_case_else",
    "Marwood.Proofs.C01.case_else_unbound_key_differs",
    "Marwood.Proofs.C01.t01_2_case_body",
    "Marwood.Proofs.C01.t01_2_case_arrow",
    "Marwood.Spec.Eval.Derived.case_datum_agrees",
    "Marwood.Spec.Eval.Derived.memvTest_eval",
    "Marwood.Spec.Eval.Extra.recSim",
    "Marwood.Spec.Eval.Extra.binder_agree",
    "Marwood.Proofs.C01.slack_guarded_refines",
    "Marwood.Proofs.C01.slack_zero_is_guard",
    "Marwood.Proofs.C01.extra_cell_invariance_converse",
    "Marwood.Proofs.C01.converse_gives_forward",
    "Marwood.Proofs.C01.guards_quiet_on_ranked_data",
    "Marwood.Proofs.C01.guards_quiet_on_allocation_ordered_store",
    "Marwood.Proofs.C01.t01_2_or_converse",
    "Marwood.Proofs.C01.t01_2_cond_test_converse",
    "Marwood.Proofs.C01.t01_2_cond_arrow_converse",
    "Marwood.Proofs.C01.t01_2_case_key_converse",
    "Marwood.Proofs.C01.t01_2_case_body_converse",
    "Marwood.Proofs.C01.t01_2_case_arrow_converse",
    "Marwood.Proofs.C01.converse_native_definite",
    "Marwood.Spec.Eval.Conv.recSimR",
    "Marwood.Spec.Eval.Conv.recSimR_guard",
    "Marwood.Spec.Eval.Conv.cut_transfer",
    "Marwood.Spec.Eval.Derived.binder_agree_conv",
    "Marwood.Proofs.C01.prelude_promise_library",
    "Marwood.Proofs.C01.t01_2_delay_expands",
    "Marwood.Proofs.C01.t01_2_delay_unforced",
    "Marwood.Proofs.C01.t01_2_delay",
    "Marwood.Proofs.C01.promise_agrees_observables",
    "Marwood.Proofs.C01.t01_2_force_again",
    "Marwood.Proofs.C01.promise_programs_agree",
    "Marwood.Spec.Eval.ExtraJ.recSimJ",
    "Marwood.Spec.Eval.Derived.native_leg",
    "Marwood.Spec.Eval.Derived.expansion_leg",
    "Marwood.Spec.Eval.Derived.forceDelayX_ok",
    "Marwood.Spec.Eval.Derived.forceDelayX_err",
    "Marwood.Spec.Eval.recOK_guardN",
    "Marwood.Spec.Eval.wf_evalN",
    "Marwood.Spec.Eval.wf_initSt",
    "Marwood.Spec.Eval.guardN_le_evalN",
    "Marwood.Spec.Eval.valToDatum_cyclic_fuel_matters",
    "Marwood.Proofs.C01.compile_correct_stage1_partial",
    "Marwood.Lemmas.CompileCorrect.compileExpr_correct",
    "Marwood.Lemmas.CompileCorrect.compileDefine_correct",
    "Marwood.Lemmas.CompileCorrect.compileArgs_correct",
    "Marwood.Lemmas.CompileCorrect.compileExpr_correct_atoms",
    "Marwood.Lemmas.CompileCorrect.concrete_atomLaws",
    "Marwood.Lemmas.CompileCorrect.demo_not_runs",
    "Marwood.Proofs.C01.compile_correct_stage1_error_partial",
    "Marwood.Proofs.C01.set_unbound_spec_fails",
    "Marwood.Lemmas.CompileCorrect.compileExpr_correct_err",
    "Marwood.Lemmas.CompileCorrect.atomErrLaws_errLaws",
    "Marwood.Lemmas.CompileCorrect.concrete_atomErrLaws",
    "Marwood.Lemmas.CompileCorrect.demo_err_runs",
    "Marwood.Proofs.C01.quote_compound_partial",
    "Marwood.Lemmas.CompileCorrect.quote_rep",
    "Marwood.Lemmas.CompileCorrect.closedVR_quoteLaws",
    "Marwood.Lemmas.CompileCorrect.demo_quote_pair",
    "Marwood.Proofs.C01.compile_correct_stage2_partial",
    "Marwood.Proofs.C01.closure_call_stage2_partial",
    "Marwood.Proofs.C01.compile_correct_stage2_toplevel",
    "Marwood.Lemmas.CompileCorrect2.compileExpr_correct2",
    "Marwood.Lemmas.CompileCorrect2.stepTCall_closure",
    "Marwood.Lemmas.CompileCorrect2.monoOK",
    "Marwood.Lemmas.CompileCorrect2.Toy.laws",
    "Marwood.Lemmas.CompileCorrect2.Toy.demo_closure_runs",
    "Marwood.Lemmas.CompileCorrect2.Toy.demo_tailcall_runs",
    "Marwood.Lemmas.CompileCorrect2.Toy.demo_capture_runs",
    "Marwood.Proofs.C01.compile_correct_stage2_error_partial",
    "Marwood.Lemmas.CompileCorrect2.compileExpr_correct2_err",
    "Marwood.Lemmas.CompileCorrect2.closureCall_correct2_err",
    "Marwood.Lemmas.CompileCorrect2.Toy.errLaws",
    "Marwood.Lemmas.CompileCorrect2.Toy.demo_closure_fails",
    "Marwood.Proofs.C01.laws2_concrete",
    "Marwood.Lemmas.CompileCorrect2.Conc.concrete_laws2",
    "Marwood.Lemmas.CompileCorrect2.Conc.concrete_errLaws2",
    "Marwood.Lemmas.CompileCorrect2.Conc.demo_concrete_closure_runs",
    "Marwood.Vm.Concrete.cput_alloc",
    "Marwood.Proofs.C01.compile_correct_stage3_partial",
    "Marwood.Proofs.C01.stage3_contains_stage2",
    "Marwood.Proofs.C01.closure_call_stage3_rest_partial",
    "Marwood.Proofs.C01.closure_call_stage3_partial",
    "Marwood.Proofs.C01.vararg_frame_stage3_partial",
    "Marwood.Proofs.C01.body_stage3_defines_partial",
    "Marwood.Proofs.C01.apply_redispatch_stage3_partial",
    "Marwood.Proofs.C01.laws3_toy",
    "Marwood.Proofs.C01.demo_stage3_rest_runs",
    "Marwood.Proofs.C01.demo_stage3_define_runs",
    "Marwood.Proofs.C01.internal_define_read_before_init_differs",
    "Marwood.Proofs.C01.lambda_initialiser_rule_unsound",
    "Marwood.Proofs.C01.closure_call_stage3_rest_arity_error_partial",
    "Marwood.Proofs.C01.listLaws3_toy",
    "Marwood.Proofs.C01.demo_stage3_apply_runs",
    "Marwood.Lemmas.CompileCorrect3.compileExpr_correct3",
    "Marwood.Lemmas.CompileCorrect3.enter_closure3",
    "Marwood.Lemmas.CompileCorrect3.varArg_ok",
    "Marwood.Lemmas.CompileCorrect3.step_apply",
    "Marwood.Lemmas.CompileCorrect3.bindArgs3_inv",
    "Marwood.Proofs.C01.duplicate_parameters_differ",
    "Marwood.Proofs.C01.quoted_constant_mutation_spec",
    "Marwood.Spec.Eval.Prelude.every_macro_is_readable",
    "Marwood.Spec.Eval.Prelude.when_expansion",
    "Marwood.Spec.Eval.Prelude.unless_expansion",
    "Marwood.Spec.Eval.Prelude.begin_expansion",
    "Marwood.Spec.Eval.Prelude.and_expansions",
    "Marwood.Spec.Eval.Prelude.or_expansions",
    "Marwood.Spec.Eval.Prelude.let_expansion",
    "Marwood.Spec.Eval.Prelude.case_final_arrow_expansion",
    # stage 3 continued: laws on the concrete heap, error case, recursion through internal definitions
    "Marwood.Proofs.C01.laws3_concrete",
    "Marwood.Proofs.C01.listLaws3_concrete",
    "Marwood.Proofs.C01.demo_concrete_stage3_rest_runs",
    "Marwood.Proofs.C01.demo_concrete_stage3_define_runs",
    "Marwood.Proofs.C01.compile_correct_stage3_error_partial",
    "Marwood.Proofs.C01.closure_call_stage3_error_partial",
    "Marwood.Proofs.C01.errLaws3_toy",
    "Marwood.Proofs.C01.errLaws3_concrete",
    "Marwood.Proofs.C01.demo_stage3_define_init_fails",
    "Marwood.Proofs.C01.stage3_rec_block_intro",
    "Marwood.Proofs.C01.compile_correct_stage3_rec_partial",
    "Marwood.Proofs.C01.body_stage3_rec_block_partial",
    "Marwood.Proofs.C01.demo_stage3_selfrec_runs",
    "Marwood.Proofs.C01.demo_stage3_mutrec_runs",
]

FIXED_NOTE = ("four defects repaired in /repo (fix: 9750711 macros expanded inside quasiquoted data, f2dec47 free variables of "
              "unquoted expressions not captured by enclosing lambdas, e0db8cb quasiquoted vector template shared between "
              "evaluations, c92a4af case with a final => clause); three known findings (dotted unquote, top-level begin with "
              "definitions, prelude macro capture)")


def _dec(t):
    if t == "-":
        return ""
    try:
        return "".join(chr(int(x)) for x in t.split(","))
    except ValueError:
        return ""


def session_forms(req):
    """the form texts of an `eval-session <fuel> F:<features> <text>…` request"""
    w = req.split(" ")
    if len(w) < 3 or w[0] != "eval-session":
        return []
    return [_dec(t) for t in w[3:]]


def session_features(req):
    w = req.split(" ")
    if len(w) < 3 or not w[2].startswith("F:"):
        return []
    return [f for f in w[2][2:].split("+") if f and f != "-"]


@predicate("c01_dotted_unquote")
def c01_dotted_unquote(case, m):
    """some form has a quasiquote template whose tail is an unquote: `(a . ,e)` / (a . (unquote e)) / (a unquote e)"""
    for f in session_forms(case.get("request", "")):
        if ("`" in f or "quasiquote" in f) and re.search(r"\.\s+(,|\(unquote\b)|[^(\s]\s+unquote\s", f):
            return True
    return False


@predicate("c01_toplevel_begin_define")
def c01_toplevel_begin_define(case, m):
    """a top-level form (begin …) that contains a definition"""
    return any(re.match(r"\(begin\b", f) and "(define" in f for f in session_forms(case.get("request", "")))


@predicate("c01_prelude_capture")
def c01_prelude_capture(case, m):
    """the session uses one of the identifiers the prelude's or / cond / case expansions bind"""
    ident = re.compile(r"(?<![^\s()'`,])(var1|temp|atom-key)(?![^\s()])")
    return any(ident.search(f) for f in session_forms(case.get("request", "")))


def nontrivial(req, impl):
    # at least one form produced a value other than #<void>
    res = impl.split(" || ")[0].split(" | ")
    return any(r.startswith("ok ") and r != "ok void" for r in res)


def correspond_spec(ctx, stream, cases):
    """implementation vs specification: the request is answered once by the driver (Spec.Eval is both the
    model column and the specification column); a disagreement is a failing input of the property."""
    st = ctx.streams.setdefault(stream, {"cases": 0, "model_disagree": 0, "spec_disagree": 0,
                                         "bad_op": 0, "impl_panic": 0, "impl_err": 0})
    oracle = [c for c in cases if c[0].startswith("#oracle ")]
    reg = [c for c in cases if not c[0].startswith("#oracle ")]
    _, sd = correspond(ctx, stream, oracle)          # `#oracle` lines only: no driver traffic
    answers = driver_batch([c[0] for c in reg])
    feats, combos = Counter(), Counter()
    forms_n, form_err, spec_timeout = 0, Counter(), 0
    for i, ((req, impl, _), spec) in enumerate(zip(reg, answers)):
        st["cases"] += 1
        ctx.evaluations += 1
        fs = session_features(req)
        feats.update(fs)
        combos[" ".join(fs)] += 1
        res = impl.split(" || ")[0].split(" | ")
        forms_n += len(res)
        for r in res:
            if r.startswith("err "):
                form_err[r[4:]] += 1
        if "panic" in impl:
            st["impl_panic"] += 1
        if any(r.startswith("err") for r in res):
            st["impl_err"] += 1
        if spec == "bad-op":
            st["bad_op"] += 1
        if "timeout" in spec:
            spec_timeout += 1
        nt = nontrivial(req, impl)
        if nt:
            ctx.nontrivial.add(hashlib.blake2b(req.encode(), digest_size=8).digest())
        if len(ctx.samples) < 4 and nt and (i % max(1, len(reg) // 4) == 0):
            ctx.samples.append({"stream": stream, "session": session_forms(req)[:6], "impl": impl, "spec": spec})
        if impl != spec:
            st["spec_disagree"] += 1
            sd.append({"stream": stream, "request": req, "impl": impl, "model": spec, "spec_request": req,
                       "spec": spec, "session": session_forms(req)})
    st["forms"] = st.get("forms", 0) + forms_n
    st["spec_timeouts"] = st.get("spec_timeouts", 0) + spec_timeout
    fe = Counter(st.get("form_errors", {}))
    fe.update(form_err)
    st["form_errors"] = dict(fe)
    fh = Counter(st.get("feature_histogram", {}))
    fh.update(feats)
    st["feature_histogram"] = dict(sorted(fh.items(), key=lambda kv: -kv[1]))
    st["distinct_feature_combinations"] = st.get("distinct_feature_combinations", 0) + len(combos)
    pairs = Counter()
    for combo, n in combos.items():
        fs = combo.split(" ")
        for key in (("apply-variadic", "cond"), ("quasiquote-in-returned-closure-call", "define-variadic"),
                    ("redefine-proc", "call"), ("eval", "closure-counter"), ("force-global-promise", "set!-global"),
                    ("quasiquote-vector", "returned-closure-call"), ("with-failures", "define-proc")):
            if all(k in fs for k in key):
                pairs["+".join(key)] += n
    pc = Counter(st.get("named_combinations", {}))
    pc.update(pairs)
    st["named_combinations"] = dict(pc)
    return [], sd


def _stream(ctx, name, args, seed=None):
    cases = gen_cases("eval", args, ctx.seed if seed is None else seed, timeout=1500)
    md, sd = correspond_spec(ctx, name, cases)
    settle(ctx, md, sd)


def streams(ctx):
    _stream(ctx, "corpus", ["corpus"])
    _stream(ctx, "findings", ["findings", 30 if ctx.quick() else 300])
    if ctx.quick():
        _stream(ctx, "sessions", ["sessions", 2000])
    else:
        for k in range(8):
            _stream(ctx, "sessions", ["sessions", 5000], seed=ctx.seed + 1000003 * k)
    st = ctx.streams.get("sessions", {})
    top = list(st.get("feature_histogram", {}).items())
    ctx.notes.append("sessions: %d sessions, %d forms, %d feature combinations; features (sessions containing them): %s" % (
        st.get("cases", 0) - st.get("oracle_cases", 0), st.get("forms", 0), st.get("distinct_feature_combinations", 0),
        ", ".join("%s=%d" % kv for kv in top)))
    ctx.notes.append(FIXED_NOTE)


def run(ctx):
    return standard_run(
        ctx, MODULE, THEOREMS, ["eval"], streams,
        rule="typed generator over the property's grammar: sessions of 1-12 top-level forms (definitions of variables, fixed and "
             "variadic procedures, procedures returning closures incl. closures that build quasiquote templates, closure "
             "counters, promises, vectors; redefinition of procedures and variables, set! of globals; expressions of type "
             "integer / boolean / list / datum nested to depth 1-3 over if, let, let*, letrec (incl. mutual), named let, begin, "
             "cond (=>, test-only, apply of variadics in arms), case (integers, symbols, characters, =>), and, or, when, unless, "
             "delay/force (memoisation), lambda with rest parameters, apply, eval of constructed forms, map/for-each, "
             "quasiquote with unquotes, vectors, nesting and macro-shaped data, vector and list primitives, display for "
             "evaluation order); every fifth session with injected failures (unbound variable, wrong type, arity, error, "
             "non-procedure, index, malformed top-level form); each session: real Vm form by form vs Spec.Eval (datum of each "
             "value, error class at R7RS granularity unbound/not-procedure/user/wrong, output log), `#oracle fresh-vm` (same "
             "session in a second fresh Vm) and `#oracle independence` (preceded by and interleaved with 2-6 unrelated "
             "definitions); streams: corpus (repaired defects and combinations named in the property's rationale), findings "
             "(feature-keyed known findings), sessions; non-trivial = some form yields a value other than #<void>; distinct by request",
        trusted_extra=["Spec.Eval is a hand-written reading of R7RS 4.1, 4.2, 5.3, 6.x for the grammar of the property; where R7RS "
                       "leaves a value unspecified (define, set!, one-armed if, when/unless, cond/case without match, for-each, "
                       "display) it returns #<void> as the implementation does; operands are evaluated left to right and the "
                       "operator last (the order the property fixes and compile.rs implements)",
                       "error classes are compared at R7RS granularity: unbound | not-procedure | user | wrong (arity, type, range, syntax)",
                       "session texts are read on the Lean side by the reader model of C11 (Marwood.Parse.parseText)"])
