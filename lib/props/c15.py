"""C15 — string and character procedures index by character over all of Unicode."""
from pipeline import *
import c14 as _c14

META = {
    "text": "Lean 4 theorems about an executable model of string.rs and char.rs in which a string is a list of "
            "Unicode scalar values and every index computation is the UTF-8 byte-offset computation the Rust code "
            "performs (char_indices().nth = prefix sum of encoded widths, &s[a..b] and replace_range panic off a "
            "character boundary): for every string over all of Unicode and every index/range, string-ref, "
            "string-set!, substring/string-copy, string->list's selection, string-fill! equal the List Char operation "
            "at character positions (cs[k], cs.set k c, drop/take, take++replicate++drop), mutators change exactly the "
            "addressed positions whatever the UTF-8 widths of old and new characters, nothing can panic, and every "
            "invalid index or range (start>len, end>len, end<start, also for empty ranges) is `err`; over the store: "
            "only the addressed string changes (aliases see it), string-copy/string/make-string/string-append/"
            "list->string/vector->string/string->vector/case conversions build new objects with the specified contents, "
            "list->string rejects improper lists; the n-ary string and char predicates (incl. -ci, parametric in the "
            "case table) are conjunctions over adjacent pairs of the code-point lexicographic comparison with no short "
            "circuit, and that comparison is proved to be the bytewise comparison of the UTF-8 (RFC 3629) encodings "
            "Rust performs (UTF-8 order preservation, for all texts), with the model's byte offsets, slices and "
            "panic conditions restated and proved over the encoded bytes; integer->char accepts exactly the scalar values (surrogates, > 0x10FFFF, negatives are errors) and "
            "inverts char->integer. The model is tied to the Rust code by random operation sequences (2-4 setup + up "
            "to 10 operations over strings mixing 1-4 byte characters and empty strings, indices -1..len+1 and beyond, "
            "fill/set characters of every width, integers across the surrogate range) executed as Scheme text in a "
            "real Vm in release and debug profile with full read-back of every pool object; the same sequences run "
            "against a reference store in which a string is an array of scalar values (property oracle). Unicode case "
            "mapping and character classes are an oracle table computed by the harness with Rust's own char methods.",
    "note": "Trusted: Lean kernel; axioms propext, Classical.choice, Quot.sound; hand-written model tied to the code by "
            "differential testing only; Rust's bytewise `str` ordering is modelled as code-point lexicographic order, "
            "and that the two coincide is now a THEOREM, not an observation: with Utf8.encode defined per RFC 3629 "
            "(proved equal, byte for byte, to Lean's own String.utf8EncodeChar, every byte < 256: utf8_encode_is_core) "
            "the encoding of a character is injective and prefix-free, characters are ordered as their encodings "
            "(utf8_encode_injective, utf8_encode_prefix_free, utf8_char_order), and for all texts the lexicographic "
            "comparison of the encoded byte strings equals the comparison by code points (utf8_order, utf8_order_rel "
            "for < = <=; utf8_order_core states it with core Lean's String.utf8EncodeChar and List UInt8 only), hence the model's cmpText is the bytewise comparison of the encodings and each of "
            "string=? string<? string>? string<=? string>=? (and -ci on the folded images) decides the bytewise "
            "relation (cmpText_bytewise, cmpOp_bytewise, stringComp_bytewise); the model's byte offsets are lengths "
            "of encoded prefixes (utf8_encode_length, utf8_byteLen, nthOffset_eq_encoded, charOffset_eq_encoded, "
            "charOffsetInclusive_eq_encoded) and its slicing/patching succeeds exactly where both offsets pass "
            "str::is_char_boundary on the bytes (not a continuation byte 10xxxxxx, or the end) and then acts on the "
            "bytes as &s[a..b] / replace_range do (strSlice_on_bytes, replaceRange_on_bytes). What remains trusted "
            "here: that Rust's String holds exactly these bytes and that `str: Ord` is the lexicographic order of "
            "the bytes (both documented guarantees of std, exercised by the correspondence); both lower-casings of string.rs are "
            "modelled since fix fbafd01: string-foldcase and the five string-ci comparisons fold every character on its "
            "own (strLower = flatMap of char::to_lowercase; context free: foldcase_context_free, and pairwise char-ci=? "
            "strings with one-character foldings are string-ci=?: string_ci_eq_of_pairwise, "
            "string_ci_eq_of_char_ci_eq, stringCiEq_ok), string-downcase is str::to_lowercase INCLUDING its "
            "context-sensitive Final_Sigma rule (strLowerCtx: U+03A3 becomes ς iff preceded, skipping Case_Ignorable "
            "characters, by a Cased character and not followed, skipping Case_Ignorable characters, by a Cased one, else "
            "σ - a transcription of map_uppercase_sigma / case_ignorable_then_cased of library/alloc/src/str.rs); "
            "closed theorems relate the two: equal on strings without U+03A3 (downcase_ctx_eq_lower_of_no_sigma), in "
            "general one piece per source character that differs only at a capital sigma, whose piece is σ or ς "
            "(downcase_ctx_sigma_only; position by position on the results, with equal lengths, for a table mapping Σ "
            "to σ: downcase_ctx_pointwise, downcase_ctx_length), and the distinction is real: on a concrete table "
            "fragment strLowerCtx is not context free and, used as a folding (the code before the fix), makes "
            "string-ci=? disagree with pairwise char-ci=? (final_sigma_context_sensitive, final_sigma_breaks_ci). "
            "Σ σ ς are generated in word-final, -initial, -medial position, alone, doubled, next to Case_Ignorable "
            "characters (. : ' soft hyphen, combining acute, middle dot, and ʰ which is Cased and Case_Ignorable) and to "
            "uncased ones (digit, space, €) for every case operation, with a corpus regression for the repaired witness "
            "(string-ci=? \"ΑΣ\" \"ασ\"). The two predicates of the rule are oracle bits `cased` and `caseIgnorable` "
            "sent per character with the case table; char::is_cased / is_case_ignorable are not public, so the harness "
            "observes them through str::to_lowercase itself (cased := (c+\"Σ\").to_lowercase() ends in ς, i.e. Cased and "
            "not Case_Ignorable; caseIgnorable := not cased and (\"Α\"+c+\"Σ\").to_lowercase() ends in ς; std skips "
            "Case_Ignorable characters before it asks is_cased, so the cased bit of an ignorable character is never "
            "consulted) - this ties the SHAPE of the rule (skip, then test, on both sides) to std on every generated "
            "string, while the membership of the two Unicode classes, like the case mappings, stays trusted to std's "
            "Unicode tables; the ASCII-prefix fast path of str::to_lowercase is covered by the correspondence only; "
            "R7RS's char-foldcase/string-foldcase are Unicode case FOLDING (which maps ς to σ) while marwood folds with "
            "char::to_lowercase (ς stays ς, so (char-ci=? #\\σ #\\ς) and (string-ci=? \"ΑΣ\" \"ας\") are #f): the "
            "property is stated relative to the case table, this is observed, not judged; "
            "case mapping/character classes are parameters of the theorems and an oracle table in the "
            "correspondence (so agreement with the Unicode standard itself is not claimed); string->list is covered "
            "for its character selection (substring theorem) and by correspondence for the list it builds; char "
            "predicates/char-upcase etc. are table lookups; the ASCII fast path is closed both ways: it agrees with the simple "
            "case mapping of any table that maps ASCII letters to their ASCII counterparts (charUpcase_eq_simple, "
            "charFoldcase_eq_simple) and, with no assumption on the table, equals Lean's own ASCII-only "
            "Char.toUpper / Char.toLower (charUpcase_ascii, charFoldcase_ascii); "
            "make-string beyond isize::MAX bytes is a modelled capacity-overflow panic and is not generated; optional "
            "ranges of string->vector/vector->string and string-copy! are not implemented by marwood and not generated.",
    "technique": "Lean 4 proof (UTF-8 byte-offset model = character-indexed List Char specification, for all strings "
                 "and indices) + randomized operation-sequence correspondence model-vs-implementation and "
                 "reference-store-vs-implementation",
}
MODULE = "Marwood.Proofs.C15"
P = "Marwood.Proofs.C15."
THEOREMS = [P + t for t in """nthOffset_eq stringRef_contents stringRef_contents_err stringSet_contents
stringSet_contents_err substring_contents substring_contents_err stringFill_contents stringFill_contents_err
stringLength_ok stringRef_ok stringRef_err_range stringRef_err_index stringSet_ok stringSet_err_range
stringRef_stringSet stringCopy_ok stringCopy_err stringFill_ok stringFill_err makeString_ok string_ok
stringAppend_ok stringComp_ok charComp_ok popString_err listToString_ok listToString_err vectorToString_ok
stringToVector_ok stringCase_ok integerToChar_ok integerToChar_err charToInteger_ok integerToChar_charToInteger
charUpcase_eq_simple charFoldcase_eq_simple charUpcase_ascii charFoldcase_ascii
utf8_encode_injective utf8_encode_prefix_free utf8_char_order utf8_encode_length utf8_byteLen utf8_encode_is_core
utf8_order utf8_order_rel utf8_order_core cmpText_bytewise cmpOp_bytewise stringComp_bytewise nthOffset_eq_encoded
charOffset_eq_encoded charOffsetInclusive_eq_encoded strSlice_on_bytes replaceRange_on_bytes
downcase_ctx_eq_lower_of_no_sigma downcase_ctx_sigma_only downcase_ctx_pointwise downcase_ctx_length
foldcase_context_free string_ci_eq_of_pairwise string_ci_eq_of_char_ci_eq stringCiEq_ok
final_sigma_context_sensitive final_sigma_breaks_ci""".split()]


def nontrivial(req, impl):
    # at least three successful operations and a final state with a non-empty string that
    # contains a multi-byte character (code point >= 128)
    import re
    steps = impl[3:].split("|")
    oks = sum(1 for s in steps if s.startswith("ok"))
    last = steps[-1] if len(steps[-1]) > 8 else (steps[-2] if len(steps) > 1 else "")
    multi = any(int(cp) >= 128 for m in re.finditer(r"\{#\d+ ([\d,]+)\}", last) for cp in m.group(1).split(","))
    return oks >= 3 and multi


def op_stats(ctx, stream, cases):
    import re
    ops, errs = {}, {}
    # Final_Sigma evidence: successful case operations / -ci comparisons executed while a string containing
    # U+03A3 is live, and string-downcase results (the newest string) containing the final form U+03C2
    sigma = {"downcase_with_capital_sigma_live": 0, "downcase_result_has_final_sigma": 0,
             "foldcase_with_capital_sigma_live": 0, "string_ci_with_capital_sigma_live": 0}
    for req, impl, _ in cases:
        toks = req.split(" ")[2:]
        steps = impl[3:].split("|")
        for t, s in zip(toks, steps):
            name = t.split(",")[0]
            ops[name] = ops.get(name, 0) + 1
            if not s.startswith("ok"):
                errs[name] = errs.get(name, 0) + 1
            elif name in ("string-downcase", "string-foldcase") or name.startswith("string-ci"):
                strs = [m.group(1).split(",") for m in re.finditer(r"\{#\d+ ([\d,]+)\}", s)]
                live = any("931" in x for x in strs)
                if name == "string-downcase":
                    sigma["downcase_with_capital_sigma_live"] += live
                    sigma["downcase_result_has_final_sigma"] += bool(strs) and "962" in strs[-1]
                elif name == "string-foldcase":
                    sigma["foldcase_with_capital_sigma_live"] += live
                else:
                    sigma["string_ci_with_capital_sigma_live"] += live
    ctx.streams[stream]["final_sigma"] = sigma
    ctx.streams[stream]["ops"] = ops
    ctx.streams[stream]["ops_failed"] = errs
    ctx.streams[stream]["steps"] = sum(ops.values())


def streams(ctx):
    ok, log = build_harness(["store"], "debug")
    if not ok:
        report_broken(ctx, "harness-build-debug", log[-3000:])
    for profile in ("release", "debug"):
        cases = _c14.corpus_cases("C15", "store", profile)
        if cases:
            md, sd = correspond(ctx, "c15-corpus-" + profile, cases, nontrivial)
            settle(ctx, md, sd)
    n = 25000 if ctx.quick() else 150000
    cases = gen_cases("store", ["c15", n], ctx.seed)
    md, sd = correspond(ctx, "c15-sequences-release", cases, nontrivial)
    op_stats(ctx, "c15-sequences-release", cases)
    settle(ctx, md, sd)
    if ok:
        n = 5000 if ctx.quick() else 30000
        cases = gen_cases("store", ["c15", n], ctx.seed + 1000, profile="debug")
        md, sd = correspond(ctx, "c15-sequences-debug", cases, nontrivial)
        op_stats(ctx, "c15-sequences-debug", cases)
        settle(ctx, md, sd)


def run(ctx):
    return standard_run(
        ctx, MODULE, THEOREMS, ["store"], streams,
        rule="random operation sequences: 2-4 setup operations (string of 0-5 characters, make-string, list/vector of "
             "characters, vector aliasing two strings) followed by 1-10 operations drawn from string-length string-ref "
             "string-set! substring string-copy string-fill! string->list string->vector vector->string list->string "
             "string make-string string-append string{=,<,>,<=,>=}? string-ci{…}? string-upcase/-downcase/-foldcase "
             "char->integer integer->char char-alphabetic?/-numeric?/-whitespace?/-upper-case?/-lower-case? "
             "char-upcase/-downcase/-foldcase char{=,<,>,<=,>=}? char-ci{…}? (mutators and copies weighted up); "
             "characters from a 38-element alphabet of 1-, 2-, 3- and 4-byte characters (case pairs, multi-character "
             "case images ß ŉ İ ﬁ, title case ǅ, non-ASCII digits/white space, NUL, U+D7FF, U+E000, U+FFFD, astral "
             "letters) and, one time in six, from the Final_Sigma alphabet Σ σ ς Α α a Z . : ' U+00AD U+0301 U+00B7 "
             "U+02B0 1 space €; words of 1-5 characters over that alphabet are set up as strings, are the argument of one "
             "in three string-upcase/-downcase/-foldcase and half of the case-counterpart pairs fed to string-ci…? "
             "(the counterpart of a sigma being any of the three); indices/ranges -1..len+1 plus len+5, 2^63-1, 2^63, 2^64-1, 2^64, -2^63, non-numbers; "
             "integer->char arguments around and inside the surrogate range, 0x10FFFF, 0x110000, 2^32-1, 2^32, -1, "
             "random below 0x110100; each operation is (define p<k> (proc arg ...)) evaluated with eval_text in a real "
             "Vm (release and debug profile), every pool object read back after every operation with sharing labels; "
             "implementation vs Lean model and vs the array-of-scalar-values reference store; non-trivial = at least 3 "
             "successful operations and a final state containing a string with a multi-byte character; distinct by "
             "request text",
        trusted_extra=["case-mapping/character-class oracle table: computed per sequence by the harness with Rust's "
                       "char::to_lowercase/to_uppercase/is_* for every character occurring in the sequence (closed under "
                       "the mappings), plus the two context bits cased / caseIgnorable observed through "
                       "str::to_lowercase on the probe strings c+Σ and Α+c+Σ; an entry without the context bits is not "
                       "decoded (bad-op), a character missing from the table maps to U+FFFD+itself (string-downcase then "
                       "uses the per-character images), a visible disagreement; `store replay` recomputes the table, "
                       "so corpus lines carry a bare `T`",
                       "reference store Marwood.Spec (RStore + StrVec) used as property oracle"])
