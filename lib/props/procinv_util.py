"""ROUND 6 (work package wp7-callee): the callee guard is a theorem. Shared THEOREMS / META.note fragments for the
properties whose machine-level theorems used to assume `CalleeOkAlong` (C03, C04, C07, C13) and for C05."""

COMMON_THEOREMS = [
    "Marwood.Lemmas.Good.statePB_sound",
    "Marwood.Lemmas.Good.calleeOk_of_pinv",
    "Marwood.Lemmas.Good.pinv_step",
    "Marwood.Lemmas.Good.pinv_gc",
    "Marwood.Lemmas.Good.vmOkP_step",
    "Marwood.Lemmas.Good.vmOkP_gc",
    "Marwood.Lemmas.Good.vmOkP_reaches",
    "Marwood.Lemmas.Good.calleeOkAlong_of_vmOk",
    "Marwood.Lemmas.Good.Demo.sHalt_pinv",
    "Marwood.Lemmas.Good.Demo.sHalt_vmOkP",
]

NOTE = (
    " ROUND 6 (CalleeOkAlong is a THEOREM): two more heap-invariant clauses, PInv (Lemmas/ProcInv*.lean; executable form "
    "Vm/ProcInv.lean statePB, statePB_sound): (a) every closure cell's lambda is a lambda cell holding PROCEDURE code "
    "([VARARG] ENTER .. RET: lambda bodies, compile_runnable's top-level lambda, the lambda the eval builtin compiles - "
    "procedure.rs emits ENTER .. RET there, so CALL of eval's result is a call of procedure code and CalleeOk needs no "
    "weakening); (b) no VALUE points to ENTRY code (PUSHIMM argc0; MOVIMM l acc; CALL; HALT - only ip.0 and saved "
    "InstructionPointer cells refer to it): acc, the live stack cells 0..=sp (stale cells above sp are NOT constrained: they "
    "can dangle across evaluations), global slots, lexical-environment slots, vector elements, car/cdr of pair cells, the "
    "stack copies of continuation objects, the immediates of MOVIMM/PUSHIMM in every code object (a pointer to a "
    "procedure-code lambda is allowed there: MOVIMM <lambda> acc; CLOSURE), and what the symbol table looks up. "
    "pinv_step: preserved by all 16 opcodes of the REAL machine (run_one over concreteOps, incl. apply / call/cc / eval / "
    "generic builtins, continuation invocation, both TCALL variants, VARARG); pinv_gc: preserved by the collector (it "
    "moves nothing; a kept closure cell was reachable, hence so was its lambda). calleeOk_of_pinv: GoodI and PInv imply "
    "the callee guard, so VmOkP = VmOk /\\ PInv is an invariant of the real machine with NO hypothesis along the run "
    "besides SizeBounded (vmOkP_reaches) and calleeOkAlong_of_vmOk discharges CalleeOkAlong. The *_closed theorems "
    "restate the *_wf / *_machine theorems WITHOUT CalleeOkAlong; remaining hypotheses: ExtLaws, ExtGood, ExtCodeLawsV "
    "and the NEW law ExtProc (Lemmas/ProcInvOps.lean: given HP, LF (the free list holds no cell a closure refers to - without this premise the law is FALSE of cons: extProc_needs_lf) and arguments that are values not pointing to entry "
    "code, the generic builtins / eval's compiler / VPUSH create no entry code, keep HP, and return a value that does not "
    "lead to entry code; a parameter like ExtGood, satisfiable: failingExt_proc), VmOk and PInv of the INITIAL state, "
    "SizeBounded (C07 also CompLaws/CompGood, and VmOk /\\ PInv of the two prepared states s2, t2 - as before for VmOk - "
    "rather than a compiler law). The *_wf theorems are kept. Checked against the code: the stream safe-side-conditions "
    "(C03) now also evaluates statePB on every real state (700 quick states incl. hand-assembled programs, heaps with "
    "40+ entry lambdas left by earlier evaluations and 25+ closures: 0 violations; first violated clause is reported as "
    "bad proc-<clause>); the oracle callee-ok of the bytecode-verifier stream stays. Non-vacuity: Demo.sHalt_pinv "
    "(through the executable check), Demo.sHalt_vmOkP, and every *_closed theorem is instantiated on the demo."
)

# only for modules that import Proofs/C13.lean (C03, C05, C07, C13)
FAILING_EXT = ["Marwood.Proofs.C13.failingExt_proc"]


# ROUND 8 (work package wp10-ext): the law structures are THEOREMS for a table of real builtins
LISTEXT_LAWS = [
    "Marwood.Lemmas.Sim.listExtWith_laws",
    "Marwood.Lemmas.Good.listExtWith_good",
    "Marwood.Vm.Concrete.listExtWith_codeLawsG",
    "Marwood.Vm.Concrete.listExtWith_codeLawsV",
    "Marwood.Lemmas.MachineGarbage.listExtWith_codePlain",
    "Marwood.Lemmas.PolicyAlloc.listExtWith_allocOnly",
    "Marwood.Lemmas.Good.listExtWith_proc",
    "Marwood.Lemmas.Good.ProcWitness.cons_breaks_hp",
    "Marwood.Lemmas.Good.extProc_needs_lf",
    "Marwood.Lemmas.Good.evalSetPair_eq_rust",
    "Marwood.Lemmas.Good.LDemo.sDemo_vmOk",
    "Marwood.Lemmas.Good.LDemo.sDemo_pinv",
    "Marwood.Lemmas.Good.LDemo.sDemo_sizeBounded",
]
# wave 11 (work package listext-c06): the two laws of T06.6 (waves 9-10) at the real builtins. A separate list: these
# theorems live in Lemmas/ListExtNoPanic.lean / ListExtEnv.lean, reachable from Lemmas/ListExtC06.lean only (the modules
# audited by C03, C04, C05, C07, C12, C13, C18 do not import them). Used by lib/props/c06.py.
LISTEXT_LAWS_C06 = [
    "Marwood.Lemmas.Good.evalPrim_np",
    "Marwood.Lemmas.Good.listExtWith_noPanic",
    "Marwood.Lemmas.Taint.listExtWith_taint",
    "Marwood.Lemmas.Good.cwrite_val_fit",
    "Marwood.Lemmas.Good.listExtWith_fit",
    "Marwood.Lemmas.Good.listExtWith_envInv",
    "Marwood.Lemmas.Good.LDemo.sDemo_npinv",
    "Marwood.Lemmas.Good.LDemo.sDemo_envInv",
]
LISTEXT = {
 "C06": [
  "Marwood.Proofs.C06.step_never_panics_listExt",
  "Marwood.Proofs.C06.run_never_panics_listExt",
  "Marwood.Proofs.C06.eval_never_panics_listExt",
  "Marwood.Proofs.C06.history_never_panics_listExt",
  "Marwood.Proofs.C06.demo_hypotheses",
  "Marwood.Proofs.C06.demo_steps_never_panic",
  "Marwood.Proofs.C06.demo_run_never_panics"
 ],
 "C03": [
  "Marwood.Proofs.C03.calleeOkAlong_listExt",
  "Marwood.Proofs.C03.gc_unobservable_listExt",
  "Marwood.Proofs.C03.gc_unobservable_value_listExt",
  "Marwood.Proofs.C03.run_one_preserves_vmOkP_listExt",
  "Marwood.Proofs.C03.demo_every_schedule",
  "Marwood.Proofs.C03.demo_forced_schedules"
 ],
 "C13": [
  "Marwood.Proofs.C13.sliced_value_eq_uninterrupted_listExt",
  "Marwood.Proofs.C13.sliced_error_eq_uninterrupted_listExt",
  "Marwood.Proofs.C13.demo_every_slicing"
 ],
 "C07": [
  "Marwood.Proofs.C07.failed_eval_equivalent_later_listExt",
  "Marwood.Proofs.C07.failed_eval_equivalent_later_installs_listExt"
 ],
 "C04": [
  "Marwood.Proofs.C04.tail_loop_sp_listExt"
 ],
 "C05": [
  "Marwood.Proofs.C05.invoke_run_same_result_listExt"
 ],
 "C18": [
  "Marwood.Proofs.C18.stackDiscAlong_listExt",
  "Marwood.Proofs.C18.symbols_interned_listExt",
  "Marwood.Proofs.C18.symbol_production_interns_listExt"
 ],
 "C12": [
  "Marwood.Proofs.C12.no_floating_garbage_listExt",
  "Marwood.Proofs.C12.forced_gc_no_floating_garbage_listExt",
  "Marwood.Proofs.C12.slice_alloc_bound_listExt"
 ]
}

# final round (work package wp17): session forms over HistInstalls (Lemmas/ListExtSession.lean) - for a whole history of
# eval calls with prepare_eval explicit, from IdleOk of the INITIAL state and RecSized only, every accepted job satisfies
# the conclusions of gc_unobservable(_value)_listExt / sliced_(value|error)_eq_uninterrupted_listExt. The module imports
# Lemmas/PrepareHistory.lean, ListExtC03/C07/C13.lean and PrepareDemo.lean, so it is appended to the MODULE list of
# c03.py / c13.py / c07.py (every module of the list is imported by the axiom audit).
LISTEXT_SESSION_MODULE = "Marwood.Lemmas.ListExtSession"
LISTEXT_SESSION = {
 "common": [
  "Marwood.Lemmas.Good.histInstalls_ok",
  "Marwood.Proofs.C03.session_jobs_hyps_listExt",
  "Marwood.Lemmas.Good.SDemo.stEq_sound",
  "Marwood.Lemmas.Good.SDemo.evalSizeBounded_of_closed",
  "Marwood.Lemmas.Good.SDemo.p0_evalSizeBounded",
  "Marwood.Lemmas.Good.SDemo.demo_hist",
  "Marwood.Lemmas.Good.Demo.demo_installs"
 ],
 "C03": [
  "Marwood.Proofs.C03.session_gc_unobservable_listExt",
  "Marwood.Proofs.C03.session_gc_unobservable_rel_listExt",
  "Marwood.Proofs.C03.demo_session_every_schedule"
 ],
 "C13": [
  "Marwood.Proofs.C13.session_sliced_eq_uninterrupted_listExt",
  "Marwood.Proofs.C13.session_sliced_error_eq_uninterrupted_listExt",
  "Marwood.Proofs.C13.demo_session_every_slicing"
 ],
 "C07": [
  "Marwood.Lemmas.Good.SDemo.fail_installs",
  "Marwood.Lemmas.Good.SDemo.fail_evalSizeBounded",
  "Marwood.Lemmas.Good.SDemo.fail_eval",
  "Marwood.Proofs.C07.demo_failed_installs_listExt"
 ]
}


def listext_session(prop):
    return LISTEXT_SESSION["common"] + LISTEXT_SESSION[prop]


LISTEXT_SESSION_NOTE = (
    " FINAL ROUND (session forms at real builtins, Lemmas/ListExtSession.lean): for a history HistInstalls (listExtWith "
    "eqTag) force s0 recs sf (prepare_eval a step of its own: Installs / InstallsGarbage) from an IdleOk initial state with "
    "the size bounds RecSized, EVERY accepted job's evaluation satisfies the per-evaluation theorems: "
    "session_gc_unobservable_listExt (any schedule of collections returns the value of the collection-free run; "
    "_rel: same status in Sim-related states), session_sliced_eq_uninterrupted_listExt / _error_ (any sequence of positive "
    "budgets gives the same value / the same failure). No hypothesis about builtins, none about any later state "
    "(histInstalls_ok supplies VmOkP of every prepared state). Non-vacuity: demo_session_every_schedule / "
    "demo_session_every_slicing run the one-job session of Demo.demo_installs (the form #t, 7 instructions; RecSized proved "
    "by enumerating the 16 states reachable under any interleaving of collections - three of four cells in use, so the "
    "utilisation-tested collector really collects) through the theorems. Still carried by the stream prepare-installs of "
    "C07 only: that the real prepare_eval is related by Installs."
)

LISTEXT_SESSION_NOTE_C07 = (
    " FINAL ROUND (T07.4 with prepare_eval explicit at real builtins): failed_eval_equivalent_later_installs_listExt "
    "(Lemmas/ListExtC07.lean) = failed_eval_equivalent_later_installs at listExtWith eqTag: IdleOk of the state before the "
    "failing job, Installs for the three prepare_eval steps, SizeBounded, CompLaws comp (inherent to the two-heap "
    "statement); no ExtLaws/ExtGood/ExtCodeLawsV/ExtProc hypothesis. Non-vacuity (Lemmas/ListExtSession.lean): "
    "demo_failed_installs_listExt - the form (#t) on the idle demo machine (fail_installs: Installs through installsB_sound "
    "by kernel evaluation) fails with InvalidProcedure at its TCALL (fail_eval), every hypothesis is discharged and the "
    "theorem is applied."
)


def listext_module(prop):
    return ["Marwood.Proofs." + prop, "Marwood.Lemmas.ListExt" + prop]


LISTEXT_NOTE = (
    " ROUND 8 (the Ext laws are THEOREMS for real builtins): Vm/ListExt.lean models 17 Rust builtins over the concrete heap "
    "as the Rust code does (car cdr cons set-car! set-cdr! null? pair? eq? not eqv? boolean? char? string? symbol? number? "
    "vector? procedure?; payload equality of two numbers / two strings is a parameter eqTag; apply and call/cc are modelled by "
    "Machine.lean itself); for listExtWith eqTag ALL six law structures are proved (ExtLaws, ExtGood, ExtCodeLawsG/V, "
    "ExtCodePlain, ExtAllocOnly, ExtProc), so the *_listExt corollaries (Lemmas/ListExtCNN.lean) have NO hypothesis about the "
    "builtins: what remains is VmOk and PInv of the INITIAL state and SizeBounded. Non-vacuity: LDemo.sDemo (hand-assembled "
    "(define p (cons 1 2)) (set-car! p 3) (car p)) satisfies all of them; demo_every_schedule / demo_every_slicing / "
    "demo_forced_schedules run it through the theorems. Tie: stream concrete-heap-step-listext (simstep runlx: CALL/TCALL of "
    "a table builtin on real states, the driver computes the result with ListExt.builtinEval and the whole post-state is "
    "compared with the real VM). Builtins outside the table still go through the law structures (failingExt_* show "
    "satisfiability; C06/C08/C14/C15 model them one by one at the value level)."
)


LISTEXT_NOTE_C06 = (
    " WAVE 11 (T06.6 at real builtins): the two laws T06.6 asks of the unmodelled operations are THEOREMS for listExtWith "
    "eqTag (Vm/ListExt.lean, the 17 Rust builtins car cdr cons set-car! set-cdr! null? pair? eq? not eqv? and the type "
    "predicates over the concrete heap) - both AS STATED, no premise had to be added: listExtWith_noPanic : ExtNoPanic "
    "(Lemmas/ListExtNoPanic.lean; evalPrim_np: no builtin of the table has a panic site on ANY heap and argument list - the "
    "law's premises HG / VOk are not used; the heap a builtin returns is reached by heap.puts and overwrites with val "
    "cells (Eff), so no continuation cell and no lambda cell is created) and listExtWith_envInv : ExtEnvInv = ExtTaint + "
    "ExtFit (Lemmas/ListExtEnv.lean; ExtTaint mirrors listExtWith_proc with capAt for entryAt, the premise LF h was "
    "already part of the law; ExtFit: cons = two puts of first-class values = FStep NoClaim; set-car!/set-cdr! = one put "
    "and the overwrite of a val cell by a non-closure val cell, which changes no lambda and no environment cell: "
    "cwrite_val_fit; no builtin of the table returns an inline closure). Hence step_/run_/eval_/history_never_panics_"
    "listExt (Lemmas/ListExtC06.lean) = the four closed T06.6 theorems with NO hypothesis about builtins: what remains is "
    "VmOkP, NPInv, EnvInv of the INITIAL state (of every prepared state for a history: HistGoodE) and SizeBounded. "
    "Non-vacuity: demo_hypotheses (LDemo.sDemo, the hand-assembled (define p (cons 1 2)) (set-car! p 3) (car p), "
    "satisfies all four; sDemo_npinv / sDemo_envInv through the executable checks), demo_steps_never_panic (every state "
    "of the 17-instruction run, under any interleaving of utilisation-tested collections, through the theorem), "
    "demo_run_never_panics (no run of the demo ends in a panic for any budget and fuel: the theorem leaves apply's guard, "
    "the program has no apply). Builtins outside the table still go through ExtNoPanic / ExtEnvInv as parameters "
    "(failingExt_noPanic, failingExt_envInv show satisfiability) and through the exploration streams of this property."
)
