"""ROUND 6 (work package wp7-callee): the callee guard is a theorem. Shared THEOREMS / META.note fragments for the
properties whose machine-level theorems used to assume `CalleeOkAlong` (C03, C04, C07, C13) and for C05."""

COMMON_THEOREMS = [
    "Marwood.Lemmas.Good.statePB_sound",
    "Marwood.Lemmas.Good.calleeOk_of_pinv",
    "Marwood.Lemmas.Good.pinv_step",
    "Marwood.Lemmas.Good.pinv_gc",
    "Marwood.Lemmas.Good.vmOkP_step",
    "Marwood.Lemmas.Good.vmOkP_gc",
    "Marwood.Lemmas.Good.vmOkP_reaches",
    "Marwood.Lemmas.Good.calleeOkAlong_of_vmOk",
    "Marwood.Lemmas.Good.Demo.sHalt_pinv",
    "Marwood.Lemmas.Good.Demo.sHalt_vmOkP",
]

NOTE = (
    " ROUND 6 (CalleeOkAlong is a THEOREM): two more heap-invariant clauses, PInv (Lemmas/ProcInv*.lean; executable form "
    "Vm/ProcInv.lean statePB, statePB_sound): (a) every closure cell's lambda is a lambda cell holding PROCEDURE code "
    "([VARARG] ENTER .. RET: lambda bodies, compile_runnable's top-level lambda, the lambda the eval builtin compiles - "
    "procedure.rs emits ENTER .. RET there, so CALL of eval's result is a call of procedure code and CalleeOk needs no "
    "weakening); (b) no VALUE points to ENTRY code (PUSHIMM argc0; MOVIMM l acc; CALL; HALT - only ip.0 and saved "
    "InstructionPointer cells refer to it): acc, the live stack cells 0..=sp (stale cells above sp are NOT constrained: they "
    "can dangle across evaluations), global slots, lexical-environment slots, vector elements, car/cdr of pair cells, the "
    "stack copies of continuation objects, the immediates of MOVIMM/PUSHIMM in every code object (a pointer to a "
    "procedure-code lambda is allowed there: MOVIMM <lambda> acc; CLOSURE), and what the symbol table looks up. "
    "pinv_step: preserved by all 16 opcodes of the REAL machine (run_one over concreteOps, incl. apply / call/cc / eval / "
    "generic builtins, continuation invocation, both TCALL variants, VARARG); pinv_gc: preserved by the collector (it "
    "moves nothing; a kept closure cell was reachable, hence so was its lambda). calleeOk_of_pinv: GoodI and PInv imply "
    "the callee guard, so VmOkP = VmOk /\\ PInv is an invariant of the real machine with NO hypothesis along the run "
    "besides SizeBounded (vmOkP_reaches) and calleeOkAlong_of_vmOk discharges CalleeOkAlong. The *_closed theorems "
    "restate the *_wf / *_machine theorems WITHOUT CalleeOkAlong; remaining hypotheses: ExtLaws, ExtGood, ExtCodeLawsV "
    "and the NEW law ExtProc (Lemmas/ProcInvOps.lean: given HP and arguments that are values not pointing to entry "
    "code, the generic builtins / eval's compiler / VPUSH create no entry code, keep HP, and return a value that does not "
    "lead to entry code; a parameter like ExtGood, satisfiable: failingExt_proc), VmOk and PInv of the INITIAL state, "
    "SizeBounded (C07 also CompLaws/CompGood, and VmOk /\\ PInv of the two prepared states s2, t2 - as before for VmOk - "
    "rather than a compiler law). The *_wf theorems are kept. Checked against the code: the stream safe-side-conditions "
    "(C03) now also evaluates statePB on every real state (700 quick states incl. hand-assembled programs, heaps with "
    "40+ entry lambdas left by earlier evaluations and 25+ closures: 0 violations; first violated clause is reported as "
    "bad proc-<clause>); the oracle callee-ok of the bytecode-verifier stream stays. Non-vacuity: Demo.sHalt_pinv "
    "(through the executable check), Demo.sHalt_vmOkP, and every *_closed theorem is instantiated on the demo."
)

# only for modules that import Proofs/C13.lean (C03, C05, C07, C13)
FAILING_EXT = ["Marwood.Proofs.C13.failingExt_proc"]
