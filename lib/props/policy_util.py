"""Helpers of the POLICY area plugin (C12)."""
import glob, os
from concurrent.futures import ThreadPoolExecutor
from pipeline import *
from heap_util import field


def corpus_args(prop):
    """corpus/<prop>/*.args: one harness argument list per non-comment line"""
    out = []
    for p in sorted(glob.glob(os.path.join(VERIF, "corpus", prop, "*.args"))):
        for line in open(p):
            line = line.strip()
            if line and not line.startswith("#"):
                out.append(line.split())
    return out


def gen_parallel(binname, arglists, seed, workers=4, timeout=3000):
    """run several harness invocations concurrently; returns the concatenated cases in argument order"""
    with ThreadPoolExecutor(max_workers=workers) as ex:
        futs = [ex.submit(gen_cases, binname, a, seed, "release", timeout) for a in arglists]
        out = []
        for f in futs:
            out += f.result()
    return out


def grow_nontrivial(req, impl):
    # a trace in which at least one collection ran, or a bound check on a run that collected (L > 0)
    if req.startswith("policy-trace"):
        return impl.startswith("ok ") and ":1:" in impl
    if req.startswith("policy-bound"):
        return impl == "ok within" and req.split(" ")[6] != "0"
    return impl.startswith("ok")


def snap_model_equal(req, impl, model):
    return impl == model


def snap_spec_equal(req, impl, spec):
    # property oracle: allocated set left by the real collector = Spec.Live of the snapshot
    return impl.startswith("ok ") and spec.startswith("ok ") and field(impl, "a") == field(spec, "a")


def snap_nontrivial(req, impl):
    return impl.startswith("ok ") and field(impl, "a") not in (None, "-")


@predicate("c12_undefined_global_kind")
def c12_undefined_global_kind(case, m):
    req = case.get("request", "")
    return any(("kind=%s " % k) in req for k in m.get("kinds", []))
