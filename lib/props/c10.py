"""C10 — written data reads back as the same data."""
from pipeline import *
from print_util import *

META = {
    "text": "Lean 4 theorems about executable models of the datum printer (cell.rs Display in display and write mode, "
            "quote sugar, dotted and vector forms, string escapes, char.rs write_escaped_char), the scanner, the datum "
            "parser, the number printer/reader and the datum<->heap conversion. T10.1, by structural induction over the "
            "four mutually recursive printer functions: for every readable datum d (booleans; every scalar value as a "
            "character; every text as a string; numbers of every representation, doubles finite; symbols that read back "
            "from their own spelling; pairs, proper and improper lists, vectors, quote forms, nested arbitrarily) "
            "parse_text (write d) = ok (d', nothing remaining), d' equals d in structure, characters, strings and "
            "symbols with numbers equal in value and exactness, and write d' = write d. It is built from atom lemmas "
            "proved for all inputs: parse_string inverts the printer's escaping for every text; parse_char inverts "
            "write_escaped_char for every scalar value; a written string is one token whatever follows; characters, "
            "numbers and identifiers are one token before end/space/')'; printed exact numbers read back through the "
            "C16 theorems. T10.2: put_cell followed by get_as_cell is the identity on every datum with a heap form, from "
            "any store, so evaluating (quote d) returns d; and the composition text -> reader -> heap -> result -> text. "
            "The models are tied to the code by differential runs: a recursive datum generator (all kinds, depth 0-6+), "
            "every Unicode scalar value as character and inside strings (exhaustive in the thorough tier), "
            "write/parse_text/write, Vm::eval_text of (quote <written>), Vm::eval of (quote d), display and write of "
            "arbitrary data; the implementation is compared with the round-trip specification directly.",
    "note": "T10.2 ALSO ON THE CONCRETE HEAP (Vm/ConcreteHeap.lean: cells + 2-bit map + real free list + growth + "
            "symbol table; the heap the machine-level theorems of C03/C13/C18/C12 run on): put_then_read_cell_concrete "
            "(Heap::put of any non-pointer value returns a pointer to an allocated cell holding exactly that value, "
            "payload included - free-list cell, grown cell or the interned cell of a symbol - and every allocated cell "
            "keeps its content), heap_roundtrip_concrete (putDatum = put_cell for every datum built from atoms - "
            "booleans, characters, numbers, strings, symbols, nil, void, undefined - and pairs, i.e. proper/dotted "
            "lists nested arbitrarily: the returned address reads back as the datum, data stored earlier still reads "
            "the same, WFHeap is kept) and heap_read_unique_concrete (the read-back is a function: it reads as nothing "
            "else). get_as_cell is stated as a structural relation Rep (no fuel). A concrete cell does NOT erase scalar "
            "payloads (opaque tag, first character = kind), so the round trip is exact, not up to erasure; the coding "
            "of a number payload as tag text is a parameter NumCode with a left inverse (inhabited: unaryNumCode). "
            "Hypotheses: WFHeap of the start heap, Small (2^62 cells) of the final heap. NOT covered on the concrete "
            "heap: vectors (CCell.vector stores the Rc payload by value, ConcreteHeap.lean decision 3) - for vectors "
            "T10.2 remains the abstract-store theorem heap_roundtrip; the concrete putDatum/Rep are not run against "
            "the Rust heap by a stream of their own (the concrete heap is tied to the code by C03's "
            "concrete-heap-step stream). "
            "Closed theorems: T10.1 write_read_write (+ read_result, readable_of_fragment), T10.2 heap_roundtrip, "
            "heap_roundtrip_unboxed, eval_quote_id, text_heap_result_text, source_text_trip (the text (quote <written>) "
            "reads as the quote form around a datum that evaluates to itself and is written as the same text), and the "
            "atom lemmas. write_read_write_fragment_partial is the same statement under a decidable hypothesis (symbols "
            "of plain identifier shape or number-initial symbol tokens such as 1+ ->x 1e--7; since fix c1c04ca a sign directly "
            "after the exponent marker of a decimal mantissa continues the number - 1e-7 is no symbol any more - which "
            "numSymFlag tracks with the scanner's three booleans). Hypotheses, not proved: FloatText (C16: reading a printed finite double gives it back; it "
            "contains '.' or 'e' and no '/') and FloatLex (a printed finite double is an optional '-', a digit, then "
            "digits/'.'/'e') about Rust's float formatting and parsing; both are checked on sampled doubles by the "
            "stream float-text-hypotheses, and a toy FloatOps satisfying both is exhibited. Readable symbols are "
            "DEFINED as those that scan as one Symbol token (or one Number token that is not a number) before a "
            "delimiter; plain identifiers are proved to be in the class, peculiar ones are covered case by case "
            "(example: ...) and by the correspondence. The class excluded is real: behind a radix prefix the reader "
            "produces symbols spelled like decimal numbers (#b12 is the symbol 12), which write prints as 12 and read "
            "returns as a number — proved (prefix_symbol_not_readable), known finding "
            "C10-prefix-symbol-reads-as-number. T10.2 is over an abstract store with fresh allocation (no free list, "
            "no collection) and models 'eval of (quote d)' as allocate + read back; that the compiler emits exactly "
            "that is covered by the correspondence streams "
            "eval-of-quoted-datum and source-text-heap-result-text, not by a theorem. Native recursion depth of "
            "printer/reader/put_cell/get_as_cell is C19's subject, not modelled here. Trusted: Lean kernel; axioms "
            "propext, Classical.choice, Quot.sound; hand-written models tied to the code by differential testing only.",
    "technique": "Lean 4 proof (printer/reader inverse: atom lemmas and structural induction; heap conversion inverse) + "
                 "randomized and exhaustive model-vs-implementation correspondence + implementation-vs-specification "
                 "round trip",
}
MODULE = "Marwood.Proofs.C10"
THEOREMS = ["Marwood.Proofs.C10." + t for t in [
    "write_read_write", "read_result", "readable_of_fragment", "write_read_write_fragment_partial",
    "heap_roundtrip", "heap_roundtrip_unboxed", "eval_quote_id", "text_heap_result_text", "source_text_trip",
    "string_escape_inverse", "string_token_self_delimiting", "char_spelling_inverse",
    "char_token_self_delimiting", "exact_number_token", "plain_identifier_token", "number_initial_symbol_token",
    "prefix_symbol_not_readable", "toy_floatText", "toy_floatLex",
    "put_then_read_cell_concrete", "heap_roundtrip_concrete", "heap_read_unique_concrete"]]


def nontrivial(req, impl):
    # the printer produced text and the reader (or the VM) gave a datum back
    return impl.startswith("ok ") and "| err" not in impl and not impl.endswith("panic")


def rt_spec_equal(req, impl, spec):
    """impl: `ok <w> | <d'> | <rest> | <w2>` (write/read/write) or `ok <w> | <result> | <w2>` (trip);
    spec: the datum with numbers as value+exactness. Property: d' ≈ d, nothing remains, w2 = w."""
    if not impl.startswith("ok "):
        return False
    f = impl[3:].split(" | ")
    if req.startswith("c10-trip"):
        if len(f) != 3:
            return False
        w, d2, w2 = f
    else:
        if len(f) != 4 or f[2] != "none":
            return False
        w, d2, _, w2 = f
    return w2 == w and canon_datum(d2) == spec


@predicate("symbol_spelled_as_decimal_number")
def symbol_spelled_as_decimal_number(case, m):
    """the datum contains a symbol whose spelling reads as a number in radix 10 (the reader produces
    such symbols only behind a radix prefix: #b12 is the symbol 12)"""
    for w in case["request"].split(" "):
        if w.startswith("sym:"):
            t = dec_text(w[4:])
            if t is not None and spelled_as_decimal_number(t):
                return True
    return False


def datum_of(req):
    f = req.split(" ")
    if f[0] in ("c10-rt", "c10-trip"):
        return f[2:]
    if f[0] == "print":
        return f[3:]
    if f[0] == "c10-eval":
        return f[1:]
    return None


def run_stream(ctx, name, args, spec_equal=None):
    cases = gen_cases("print", args, ctx.seed)
    md, sd = correspond(ctx, name, cases, nontrivial, spec_equal=spec_equal)
    settle(ctx, md, sd)
    record_distribution(ctx, name, cases, datum_of)
    return cases


def streams(ctx):
    q = ctx.quick()
    for path in corpus_files("C10", "*.scm"):
        run_stream(ctx, "corpus", ["c10-corpus", path], spec_equal=lambda r, i, s: (
            i == s if r.startswith("c10-eval") else rt_spec_equal(r, i, s)))
    run_stream(ctx, "write-read-write", ["c10-rt", 60000 if q else 600000], spec_equal=rt_spec_equal)
    run_stream(ctx, "every-scalar-value-as-char-and-in-strings", ["c10-chars", "quick" if q else "full"],
               spec_equal=rt_spec_equal)
    ctx.streams["every-scalar-value-as-char-and-in-strings"]["exhaustive"] = not q
    run_stream(ctx, "source-text-heap-result-text", ["c10-trip", 30000 if q else 300000], spec_equal=rt_spec_equal)
    cases = run_stream(ctx, "eval-of-quoted-datum", ["c10-eval", 30000 if q else 300000])
    run_stream(ctx, "arbitrary-data-write-read", ["c10-any", 30000 if q else 300000])
    run_stream(ctx, "arbitrary-data-display-and-write", ["c10-print", 30000 if q else 300000])
    # the hypotheses about Rust's float text, on sampled finite doubles (implementation vs hypothesis)
    cases = gen_cases("print", ["c10-floattext", 20000 if q else 300000], ctx.seed)
    md, sd = correspond(ctx, "float-text-hypotheses", cases)
    settle(ctx, md, sd)


def run(ctx):
    return standard_run(
        ctx, MODULE, THEOREMS, ["print"], streams,
        rule="recursive datum generator: booleans, numbers (boundary palette and random fixnums, bignums across the "
             "fixnum boundary and small values as BigInt, reduced 32-bit ratios, doubles by bit pattern with boundary "
             "bias, finite only in the specification streams), characters and strings over all of Unicode weighted "
             "to controls / delimiters / escapes / Latin-1 / astral planes, reader-producible symbols (plain, peculiar, "
             "number-like tokens that are not numbers, escaped, non-ASCII; rarely the prefix-only kind of the known "
             "finding), nil, proper and dotted lists, vectors, quote / quasiquote / unquote shapes around the sugar "
             "rule, pairs; depth 0..6 (+2 through quote shapes); plus every scalar value as a character, inside a "
             "string and in a dotted pair (blocks of 16; all of Unicode in the thorough tier). Compared: written text, "
             "datum read back (wire form with number representation), remaining text, text written again; result and "
             "text of Vm::eval_text of (quote <written>); result of Vm::eval of (quote d); display/write text of "
             "arbitrary data incl. opaque values, unreadable symbols and non-finite doubles (model only). "
             "Non-trivial = a datum came back; distinct by request text; input kinds and depths are in "
             "coverage.streams.*.input_kinds / input_depths",
        trusted_extra=["FloatText hypotheses (not proved): shape of Rust float formatting, parse∘print = id on finite "
                       "doubles; on the wire doubles are bit patterns and the float texts Rust produced are passed to "
                       "the model as an oracle table (a missing entry is reported, never defaulted)"])
