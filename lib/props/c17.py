"""C17 — syntax-rules is sound where supported and always terminates."""
from pipeline import *

META = {
    "text": "Lean 4 theorems about a line-by-line model of transform.rs (Pattern::build, find_expanded_variables, the "
            "definition-time checks, the iterator state machine of pattern_match with its len()+2 hand-off, expand with the "
            "per-variable cursors; outcomes ok/err/panic/fuel-exhausted) against an independent R7RS matcher and template "
            "instantiator (Spec.Match: trees of matches, dotted/vector patterns, nested and consecutive ellipses, (... ...), "
            "literal precedence): soundness of every expansion the model produces (first matching rule, earlier rules do not "
            "match, expansion = instantiation), termination with an explicit fuel bound, and the proved negation at the "
            "witness of the one residual defect. The model is tied to the Rust code, and the Rust code to the spec, by "
            "generated transformers x uses run through Transform::try_new/transform directly and through define-syntax with "
            "quoted templates in a Vm, each case in a worker process under a wall budget and an address-space limit.",
    "note": "Closed theorems: soundness (first matching rule, earlier rules do not match, expansion = R7RS instantiation) for "
            "every transformer accepted by try_new in which the ellipsis occurs in no pattern and no template "
            "(soundness_noEllipsis_partial, with rule selection rule_selection_partial / rule_selection_gapfree and "
            "accepted_patterns_wellformed); pattern_match terminates on every input (patternMatch_terminates); the pinned "
            "expand loops on a template `(a ...)` whose `a` is not ellipsis-bound and fix ff58560 rejects that definition "
            "(expand_diverges_without_definition_check, definition_check_rejects_diverging_template). The full statement "
            "T17.1 is FALSE for the code (soundness_fails_at_witness: `(_ a ... b)` declines a use with no item for `a`, a "
            "later rule then fires; pinned by the unit test expansion_edge_cases, recorded as a known finding with the "
            "decidable guard GapFree). NOT closed theorems: soundness for patterns/templates with ellipsis (trailing "
            "ellipsis, ellipsis followed by a fixed tail, nested ellipsis, custom ellipsis) and termination of expand for "
            "accepted transformers — these are carried by the correspondence only: generated transformers (1-3 rules, "
            "depth 3, literals, underscore, custom ellipsis, ellipsis depth 0-2, fixed tails; templates reusing, dropping, "
            "duplicating, nesting variables) x matching and non-matching uses, implementation vs the independent R7RS "
            "matcher/instantiator Spec.Match and vs the line-by-line model, each case in a worker under a wall budget. "
            "Hygiene renaming is outside the property ('up to the renaming that hygiene would add'). Trusted: Lean kernel; "
            "axioms propext, Classical.choice, Quot.sound.",
    "technique": "Lean 4 proof (model of transform.rs vs R7RS matcher/instantiator) + generated model-vs-implementation and implementation-vs-spec correspondence, hang-safe",
}
MODULE = "Marwood.Proofs.C17"
THEOREMS = [
    "Marwood.Proofs.C17.soundness_noEllipsis_partial",
    "Marwood.Proofs.C17.soundness_fails_at_witness",
    "Marwood.Proofs.C17.gap_model",
    "Marwood.Proofs.C17.gap_spec",
    "Marwood.Proofs.C17.gap_guard",
    "Marwood.Proofs.C17.patternMatch_terminates",
    "Marwood.Proofs.C17.expand_diverges_without_definition_check",
    "Marwood.Proofs.C17.definition_check_rejects_diverging_template",
]

_GAP = {}


def _gap_request(req):
    if req.startswith("tr-use-vm "):
        return "tr-gap " + req[len("tr-use-vm "):]
    if req.startswith("tr-use "):
        return "tr-gap " + req[len("tr-use "):]
    return None


def _classify(cases):
    reqs = [c["request"] for c in cases if c["request"] not in _GAP and _gap_request(c["request"])]
    reqs = list(dict.fromkeys(reqs))
    if reqs:
        for r, a in zip(reqs, driver_batch([_gap_request(r) for r in reqs])):
            _GAP[r] = a


@predicate("c17_zero_rep_tail")
def c17_zero_rep_tail(case, m):
    """the use meets `Spec.Match.zeroRepTail` for some rule (decided by the Lean driver, the same
    function that guards the _partial theorems), the implementation answered normally (an expansion or
    a reported error), and the specification has an expansion"""
    req = case.get("request", "")
    if _gap_request(req) is None:
        return False
    impl, spec = case.get("impl", ""), case.get("spec") or ""
    if not (impl.startswith("ok ") or impl.startswith("err")):
        return False
    if not spec.startswith("ok "):
        return False
    if req not in _GAP:
        _classify([case])
    return _GAP.get(req) == "gap"


def nontrivial(req, impl):
    # a definition accepted / an expansion produced
    return impl == "ok" or impl.startswith("ok ")


def spec_ok(req, impl, spec):
    """the property oracle: an expansion must be the one R7RS prescribes (uses whose ellipsis
    variables matched different numbers of items — spec `mismatch` — are excluded); a reported error
    or a rejected definition is always allowed; a hang or a panic never is"""
    if impl in ("hang", "panic", "def-panic", "def-hang") or impl.startswith("panic"):
        return False
    if impl.startswith("ok "):
        return spec == impl or spec == "mismatch"
    return True


def _run_stream(ctx, name, args):
    cases = gen_cases("transform", args, ctx.seed)
    if len(cases) < int(args[1]) and name not in ("corpus", "vm-corpus"):
        report_broken(ctx, "correspondence-run", "stream %s produced %d of %s cases" % (name, len(cases), args[1]))
    md, sd = correspond(ctx, name, cases, nontrivial, spec_equal=spec_ok)
    _classify(sd + md)
    st = ctx.streams[name]
    st["impl_hang"] = sum(1 for c in cases if c[1] == "hang")
    st["impl_def_err"] = sum(1 for c in cases if c[1] == "def-err")
    st["expansions"] = sum(1 for c in cases if c[1].startswith("ok "))
    settle(ctx, md, sd)


def streams(ctx):
    q = ctx.quick()
    _run_stream(ctx, "corpus", ["corpus", 100])
    _run_stream(ctx, "vm-corpus", ["vm-corpus", 100])
    _run_stream(ctx, "defs", ["defs", 4000 if q else 60000])
    _run_stream(ctx, "uses", ["uses", 20000 if q else 400000])
    _run_stream(ctx, "vm", ["vm", 6000 if q else 100000])


def run(ctx):
    return standard_run(
        ctx, MODULE, THEOREMS, ["transform"], streams,
        rule="generated (define-syntax m (syntax-rules [custom ellipsis] (literals) rule{1,3})) with patterns nested to depth 3 "
             "(variables, literals, _, data, sub-lists, one ellipsis per list after a variable / sub-pattern / datum, fixed "
             "tails of 0-2 items, ellipsis depth 0-2, plus deliberately unsupported shapes: dotted, vector, second ellipsis, "
             "leading ellipsis) and templates reusing, dropping, duplicating and nesting the variables (ellipsis groups with "
             "one or two ellipsis variables, plus deliberately unsupported shapes) x uses built to match a rule (0-3 items per "
             "ellipsis, same or independent counts) and mutated or random non-matching uses; streams: defs (try_new only, half "
             "structurally damaged), uses (try_new + transform), vm (define-syntax with quoted templates, value of the use), "
             "corpus (the defects observed on the pinned tree). implementation vs Lean model (exact response) and vs the R7RS "
             "spec (an expansion must be the specified one unless the spec says the ellipsis variables matched different "
             "counts; hang/panic never allowed); non-trivial = definition accepted / expansion produced; distinct by request",
        trusted_extra=["Spec.Match is a hand-written reading of R7RS 4.3.2 (non-hygienic); data are compared with marwood's own "
                       "equal? (Cell ==, numbers numerically)",
                       "definitions are read by the spec as leniently as the implementation reads them (extra elements of a rule ignored)"])
