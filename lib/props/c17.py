"""C17 — syntax-rules is sound where supported and always terminates."""
from pipeline import *

META = {
    "text": "Lean 4 theorems about a line-by-line model of transform.rs (Pattern::build, find_expanded_variables, the "
            "definition-time checks, the iterator state machine of pattern_match with its len()+2 hand-off, expand with the "
            "per-variable cursors; outcomes ok/err/panic/fuel-exhausted) against an independent R7RS matcher and template "
            "instantiator (Spec.Match: trees of matches, dotted/vector patterns, nested and consecutive ellipses, (... ...), "
            "literal precedence): soundness of every expansion the model produces (first matching rule, earlier rules do not "
            "match, expansion = instantiation), termination with an explicit fuel bound, and the proved negation at the "
            "witness of the one residual defect. The model is tied to the Rust code, and the Rust code to the spec, by "
            "generated transformers x uses run through Transform::try_new/transform directly and through define-syntax with "
            "quoted templates in a Vm, each case in a worker process under a wall budget and an address-space limit. The "
            "expansion driver Vm::transform (compile.rs) has its own model (structural walk of the form, fuel only for the "
            "re-transformation of an expansion), its own R7RS specification (outermost-first expansion of a whole form) and "
            "theorems (soundness under a decidable guard, the transformer sees the use as written, fuel exhaustion only "
            "along a chain of expansions, quoted and quasiquoted data untouched), tied to the code by generated forms "
            "transformed in a Vm that evaluated generated define-syntax forms.",
    "note": "Closed theorems (T17.1 soundness = first matching rule, earlier rules do not match per R7RS, expansion = R7RS "
            "instantiation unless the spec answers `mismatch`, i.e. ellipsis variables of one sub-template matched different "
            "numbers of items — the uses the property excludes; every class predicate is a decidable Bool function of the "
            "transformer): (1) no ellipsis in any pattern or template: soundness_noEllipsis_partial; (2) trailing ellipsis "
            "`(_ p1..pn x ...)`: soundness_trailingEllipsis_partial (class TrailingEllipsis; no guard needed: "
            "trailingEllipsis_gapFree); (3) ellipsis followed by a fixed tail `(_ p1..pn x ... q1..qm)`, the len()+2 hand-off: "
            "soundness_ellipsisThenTail_partial (class EllipsisThenTail, guard GapFree); (4) a sub-pattern under the ellipsis "
            "`(_ p1..pn P ... q1..qm)` with templates `((a b) ...)`, `(a ...) (b ...)`, …: soundness_subpatternEllipsis_partial "
            "(class SubpatternEllipsis, guard GapFree); (5) literals, `_`, data, a custom ellipsis identifier are allowed in "
            "all of (1)-(4) (the classes are stated for the transformer's own ellipsis and literal list); general form "
            "soundness_depthOne_partial (class DepthOne: ellipsis depth <= 1 anywhere in the patterns, also inside nested "
            "lists, templates built from groups `U ...` with U ellipsis-free, at least one and no repeated ellipsis variable "
            "per group, several groups per list allowed; guard GapFree) and soundness_depthOne_exact_partial (explicit "
            "decidable hypothesis CountsAgree on the use: then transform = ok e implies specExpand = ok e). "
            "(6) nested ellipsis (depth 2) is rejected at definition, and in fact EVERY transformer try_new accepts is in "
            "DepthOne (accepted_depthOne, derived from check_pattern_support / check_template_syntax / "
            "check_template_support and Pattern::build; witnesses definition_check_rejects_nested_ellipsis), hence "
            "soundness_gapfree_partial / soundness_gapfree_exact_partial: T17.1 for every accepted transformer and every use "
            "with the single decidable guard GapFree (the known finding) — no class hypothesis left. "
            "Rule selection for every accepted transformer: rule_selection_partial / rule_selection_gapfree / "
            "accepted_patterns_wellformed. T17.2: pattern_match terminates on every input (patternMatch_terminates); expand "
            "terminates for every rule of every transformer accepted by try_new with the explicit fuel "
            "expandFuel T n = 2*(n+1)*|T| (n bindings) (expand_terminates), transform terminates with fuel "
            "max(3|u|+1, expandFuel template |u|) and with the driver's useFuel (transform_terminates, "
            "transform_terminates_driver_fuel); the pinned expand loops on `(a ...)` with `a` not ellipsis-bound and fix "
            "ff58560 rejects that definition (expand_diverges_without_definition_check, "
            "definition_check_rejects_diverging_template). The full statement T17.1 is FALSE for the code "
            "(soundness_fails_at_witness: `(_ a ... b)` declines a use with no item for `a`, a later rule then fires; pinned "
            "by the unit test expansion_edge_cases, recorded as a known finding with the decidable guard GapFree). NOT closed "
            "theorems: T17.1 on the uses GapFree excludes (there it is false, see the finding); that the model is the Rust "
            "code; T17.3 (the expansion driver in compile.rs) — carried by the correspondence only: generated "
            "transformers (1-3 rules, depth 3, literals, underscore, custom ellipsis, ellipsis depth 0-2, fixed tails; templates "
            "reusing, dropping, duplicating, nesting variables) x matching and non-matching uses, implementation vs the "
            "independent R7RS matcher/instantiator Spec.Match and vs the line-by-line model, each case in a worker under a wall "
            "budget. Hygiene renaming is outside the property ('up to the renaming that hygiene would add'). Trusted: Lean "
            "kernel; axioms propext, Classical.choice, Quot.sound.",
    "technique": "Lean 4 proof (model of transform.rs vs R7RS matcher/instantiator) + generated model-vs-implementation and implementation-vs-spec correspondence, hang-safe",
}
MODULE = "Marwood.Proofs.C17"
THEOREMS = [
    "Marwood.Proofs.C17.soundness_noEllipsis_partial",
    "Marwood.Proofs.C17.soundness_fails_at_witness",
    "Marwood.Proofs.C17.gap_model",
    "Marwood.Proofs.C17.gap_spec",
    "Marwood.Proofs.C17.gap_guard",
    "Marwood.Proofs.C17.patternMatch_terminates",
    "Marwood.Proofs.C17.expand_diverges_without_definition_check",
    "Marwood.Proofs.C17.definition_check_rejects_diverging_template",
    "Marwood.Proofs.C17.rule_selection_partial",
    "Marwood.Proofs.C17.rule_selection_gapfree",
    "Marwood.Proofs.C17.accepted_patterns_wellformed",
    "Marwood.Proofs.C17.soundness_trailingEllipsis_partial",
    "Marwood.Proofs.C17.soundness_ellipsisThenTail_partial",
    "Marwood.Proofs.C17.soundness_subpatternEllipsis_partial",
    "Marwood.Proofs.C17.soundness_depthOne_partial",
    "Marwood.Proofs.C17.soundness_depthOne_exact_partial",
    "Marwood.Proofs.C17.trailingEllipsis_gapFree",
    "Marwood.Proofs.C17.accepted_depthOne",
    "Marwood.Proofs.C17.soundness_gapfree_partial",
    "Marwood.Proofs.C17.soundness_gapfree_exact_partial",
    "Marwood.Proofs.C17.definition_check_rejects_nested_ellipsis",
    "Marwood.Proofs.C17.expand_terminates",
    "Marwood.Proofs.C17.transform_terminates",
    "Marwood.Proofs.C17.transform_terminates_driver_fuel",
    # T17.3: the expansion driver (Vm::transform)
    "Marwood.Proofs.C17.tableOf_accepted",
    "Marwood.Proofs.C17.useFuelT_sufficient",
    "Marwood.Proofs.C17.driver_sound_partial",
    "Marwood.Proofs.C17.driver_sound_fails_at_witness",
    "Marwood.Proofs.C17.kwFormals_model",
    "Marwood.Proofs.C17.kwFormals_spec",
    "Marwood.Proofs.C17.kwFormals_guard",
    "Marwood.Proofs.C17.driver_outermost_first",
    "Marwood.Proofs.C17.driver_expansion_of_use",
    "Marwood.Proofs.C17.driver_error_propagates",
    "Marwood.Proofs.C17.driver_operands_as_written",
    "Marwood.Proofs.C17.driver_exhaustion_has_chain",
    "Marwood.Proofs.C17.driver_fuel_mono",
    "Marwood.Proofs.C17.driver_terminates_iff",
    "Marwood.Proofs.C17.driver_macro_free_terminates",
    "Marwood.Proofs.C17.driver_loops_on_self_expanding_macro",
    "Marwood.Proofs.C17.driver_quote_unchanged",
    "Marwood.Proofs.C17.driver_quasiquote_mask",
]

_GAP = {}


def _gap_request(req):
    if req.startswith("tr-use-vm "):
        return "tr-gap " + req[len("tr-use-vm "):]
    if req.startswith("tr-use "):
        return "tr-gap " + req[len("tr-use "):]
    return None


def _classify(cases):
    reqs = [c["request"] for c in cases if c["request"] not in _GAP and _gap_request(c["request"])]
    reqs = list(dict.fromkeys(reqs))
    if reqs:
        for r, a in zip(reqs, driver_batch([_gap_request(r) for r in reqs])):
            _GAP[r] = a


_WHY = {}


def _why_request(case):
    sreq = case.get("spec_request") or ""
    if sreq.startswith("spec-tr-expand "):
        return "tr-expand-why " + sreq[len("spec-tr-expand "):]
    return None


@predicate("c17_zero_rep_tail")
def c17_zero_rep_tail(case, m):
    """the use meets `Spec.Match.zeroRepTail` for some rule (decided by the Lean driver, the same
    function that guards the _partial theorems), the implementation answered normally (an expansion or
    a reported error), and the specification has an expansion"""
    req = case.get("request", "")
    if req.startswith("tr-expand "):
        # a form transformed by Vm::transform: some use visited during the expansion is in the gap (the test `uses` of
        # Spec.ExpandAll.expandGuard fails; a use with unequal counts would have made the spec answer `mismatch`)
        impl, spec = case.get("impl", ""), case.get("spec") or ""
        w = _why_request(case)
        if w is None or not (" ok " in impl or " err " in impl) or " ok " not in spec:
            return False
        if w not in _WHY:
            _WHY[w] = driver_batch([w])[0]
        return _WHY[w] == "use"
    if _gap_request(req) is None:
        return False
    impl, spec = case.get("impl", ""), case.get("spec") or ""
    if not (impl.startswith("ok ") or impl.startswith("err")):
        return False
    if not spec.startswith("ok "):
        return False
    if req not in _GAP:
        _classify([case])
    return _GAP.get(req) == "gap"


@predicate("c17_driver_keyword_binding")
def c17_driver_keyword_binding(case, m):
    """a `tr-expand` case on which the test `binders` of `Spec.ExpandAll.expandGuard` fails (a macro keyword occurs in
    the formals of a lambda / the target of a define met during the expansion — decided by the Lean driver with the
    function that guards driver_sound_partial) while the tests for the uses pass, and the implementation answered
    normally"""
    w = _why_request(case)
    if w is None:
        return False
    impl = case.get("impl", "")
    if not (" ok " in impl or " err " in impl):
        return False
    if w not in _WHY:
        _WHY[w] = driver_batch([w])[0]
    return _WHY[w] == "binding"


def nontrivial(req, impl):
    # a definition accepted / an expansion produced
    return impl == "ok" or impl.startswith("ok ") or (req.startswith("tr-expand ") and " ok " in impl)


def spec_ok_expand(req, impl, spec):
    """oracle of the `expand` streams: an expansion must be the one R7RS prescribes (outermost first, operands as
    written) unless the spec says the ellipsis variables of some use matched different counts; a reported error is
    always allowed; a panic never is; running forever only where the specification's chain of expansions does not end
    either (a user macro that expands to itself)"""
    if impl == "hang":
        return spec == "hang"
    if impl.endswith(" panic") or impl.startswith("panic"):
        return False
    if " ok " in impl:
        return spec == impl or spec.endswith(" mismatch")
    return True


def _run_expand(ctx, name, args):
    cases = gen_cases("transform", args, ctx.seed)
    if len(cases) < int(args[1]) and name != "expand-corpus":
        report_broken(ctx, "correspondence-run", "stream %s produced %d of %s cases" % (name, len(cases), args[1]))
    md, sd = correspond(ctx, name, cases, nontrivial, spec_equal=spec_ok_expand)
    st = ctx.streams[name]
    st["impl_hang"] = sum(1 for c in cases if c[1] == "hang")
    st["expansions"] = sum(1 for c in cases if " ok " in c[1])
    st["changed_by_expansion"] = sum(1 for c in cases if " ok " in c[1] and not c[0].endswith(c[1].split(" ok ", 1)[1]))
    settle(ctx, md, sd)


def spec_ok(req, impl, spec):
    """the property oracle: an expansion must be the one R7RS prescribes (uses whose ellipsis
    variables matched different numbers of items — spec `mismatch` — are excluded); a reported error
    or a rejected definition is always allowed; a hang or a panic never is"""
    if impl in ("hang", "panic", "def-panic", "def-hang") or impl.startswith("panic"):
        return False
    if impl.startswith("ok "):
        return spec == impl or spec == "mismatch"
    return True


def _run_stream(ctx, name, args):
    cases = gen_cases("transform", args, ctx.seed)
    if len(cases) < int(args[1]) and name not in ("corpus", "vm-corpus"):
        report_broken(ctx, "correspondence-run", "stream %s produced %d of %s cases" % (name, len(cases), args[1]))
    md, sd = correspond(ctx, name, cases, nontrivial, spec_equal=spec_ok)
    _classify(sd + md)
    st = ctx.streams[name]
    st["impl_hang"] = sum(1 for c in cases if c[1] == "hang")
    st["impl_def_err"] = sum(1 for c in cases if c[1] == "def-err")
    st["expansions"] = sum(1 for c in cases if c[1].startswith("ok "))
    settle(ctx, md, sd)


def streams(ctx):
    q = ctx.quick()
    _run_stream(ctx, "corpus", ["corpus", 100])
    _run_stream(ctx, "vm-corpus", ["vm-corpus", 100])
    _run_stream(ctx, "defs", ["defs", 4000 if q else 60000])
    _run_stream(ctx, "uses", ["uses", 20000 if q else 400000])
    _run_stream(ctx, "vm", ["vm", 6000 if q else 100000])
    _run_expand(ctx, "expand-corpus", ["expand-corpus", 100])
    _run_expand(ctx, "expand", ["expand", 2000 if q else 60000])


def run(ctx):
    return standard_run(
        ctx, MODULE, THEOREMS, ["transform"], streams,
        rule="generated (define-syntax m (syntax-rules [custom ellipsis] (literals) rule{1,3})) with patterns nested to depth 3 "
             "(variables, literals, _, data, sub-lists, one ellipsis per list after a variable / sub-pattern / datum, fixed "
             "tails of 0-2 items, ellipsis depth 0-2, plus deliberately unsupported shapes: dotted, vector, second ellipsis, "
             "leading ellipsis) and templates reusing, dropping, duplicating and nesting the variables (ellipsis groups with "
             "one or two ellipsis variables, plus deliberately unsupported shapes) x uses built to match a rule (0-3 items per "
             "ellipsis, same or independent counts) and mutated or random non-matching uses; streams: defs (try_new only, half "
             "structurally damaged), uses (try_new + transform), vm (define-syntax with quoted templates, value of the use), "
             "corpus (the defects observed on the pinned tree), expand / expand-corpus (0-3 define-syntax forms from a pool — "
             "quoting, rule choice by operand shape, expanding to other user and prelude macros, a redefined prelude keyword, "
             "a rejected definition, a self-expanding macro, random T17.1 transformers — evaluated in a fresh Vm, then "
             "Vm::transform of a generated form: prelude and user macro uses nested as operands, in lambda/define/if/set!, "
             "under quote, in quasiquote templates at levels 0-2 and in vectors, as operators, improper combinations, rarely a "
             "keyword in a binding position). implementation vs Lean model (exact response) and vs the R7RS "
             "spec (an expansion must be the specified one unless the spec says the ellipsis variables matched different "
             "counts; hang/panic never allowed); non-trivial = definition accepted / expansion produced; distinct by request",
        trusted_extra=["Spec.Match is a hand-written reading of R7RS 4.3.2 (non-hygienic); data are compared with marwood's own "
                       "equal? (Cell ==, numbers numerically)",
                       "definitions are read by the spec as leniently as the implementation reads them (extra elements of a rule ignored)"])
