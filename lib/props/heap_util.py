"""Helpers shared by the HEAP area plugins (C03, C12, C18)."""
import glob, os
from pipeline import *


def dec_text(s):
    if s == "-":
        return ""
    try:
        return "".join(chr(int(x)) for x in s.split(","))
    except ValueError:
        return s


def field(resp, letter):
    """`ok c8192 a0-3 f4-8191 u0 t… Wok/ok` -> the token starting with `letter`"""
    for tok in resp.split(" ")[1:]:
        if tok.startswith(letter):
            return tok[len(letter):]
    return None


def snap_spec_equal(req, impl, spec):
    # property oracle: the set left allocated by the real collector = the set reachable from the
    # roots through semantic references (Spec.Reach on the snapshot taken before the collection)
    return impl.startswith("ok ") and spec.startswith("ok ") and field(impl, "a") == field(spec, "a")


def snap_nontrivial(req, impl):
    # a collection that actually freed something while something stayed allocated
    return impl.startswith("ok ") and field(impl, "a") not in (None, "-")


def obs_nontrivial(req, impl):
    t = dec_text(impl)
    return " ; " in t or t.startswith("ok")


def corpus_sessions(prop):
    return sorted(glob.glob(os.path.join(VERIF, "corpus", prop, "*.scm")))
