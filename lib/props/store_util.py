"""Helpers shared by the C14/C15 plugins (Store area)."""
import hashlib, os, re
from pipeline import REPO

PRELUDE = os.path.join(REPO, "marwood/prelude.scm")


def top_level_forms(text):
    """Split Scheme source into its top-level parenthesised forms (strings and ; comments respected)."""
    forms, depth, start, i, n = [], 0, None, 0, len(text)
    while i < n:
        c = text[i]
        if c == ";":
            j = text.find("\n", i)
            i = n if j < 0 else j
            continue
        if c == '"':
            i += 1
            while i < n and text[i] != '"':
                i += 2 if text[i] == "\\" else 1
            i += 1
            continue
        if c == "#" and text.startswith("#\\", i):
            i += 3
            continue
        if c in "([":
            if depth == 0:
                start = i
            depth += 1
        elif c in ")]":
            depth -= 1
            if depth == 0 and start is not None:
                forms.append(text[start:i + 1])
                start = None
        i += 1
    return forms


def defined_name(form):
    m = re.match(r"\(\s*define\s+\(\s*([^\s()]+)", form) or re.match(r"\(\s*define\s+([^\s()]+)", form)
    return m.group(1) if m else None


def normalise(form):
    return " ".join(form.split())


def prelude_hashes(path=PRELUDE):
    out = {}
    for f in top_level_forms(open(path).read()):
        name = defined_name(f)
        if name:
            out[name] = hashlib.sha256(normalise(f).encode()).hexdigest()[:16]
    return out


def check_prelude(expected, path=PRELUDE):
    """Names whose Scheme text no longer hashes to what the Lean model was written against."""
    now = prelude_hashes(path)
    return [(n, h, now.get(n)) for n, h in expected.items() if now.get(n) != h]
