"""C04 — calls in tail position run in constant stack space."""
from pipeline import *

META = {
    "text": "Lean 4 theorems about the models of TCALL/ENTER (run.rs) and of the compiler (compile.rs), for every heap, "
            "frame and program: (T04.1) a tail call to a closure rewrites the current frame in place in both the "
            "equal- and the different-argc branch — new operands at the old frame's base, saved ep/ip/bp of the "
            "replaced frame kept, nothing below touched; with the callee's ENTER the new frame starts at the same "
            "stack index, returns to the same caller, and sp on entry is base+arity+3, independent of how many tail "
            "calls preceded (one loop iteration, self or mutual, any arity pair); a (tail) call of an ordinary builtin "
            "pops argc+1 cells and pushes nothing; (T04.2) for every expression the compiler accepts, the call "
            "instructions it emits are TCALL exactly for the calls R7RS 3.5 puts in tail position (if-branches, last "
            "body expression; operands, tests, define/set! values, unquoted parts are not) and CALL otherwise. "
            "Machine model tied to run_one by lock-step replay of every instruction, compiler model by comparing "
            "compiled code objects (bytecode, jump targets, environment maps by name) on generated and malformed "
            "forms; the property itself is checked on loops of 10/10^3/2*10^4 (thorough 10^5) tail calls through "
            "composed derived-form contexts, arities 0..4, variadics, apply/call-cc/eval, 1-3 procedure cycles: "
            "stack high-water mark independent of n.",
    "note": "Trusted: Lean kernel; axioms propext/Quot.sound/Classical.choice. The loop theorem now holds for n "
            "iterations with ARBITRARY verified bodies (tail_loop_same_frame / tail_loop_sp, by induction on n): that "
            "the code between ENTER and the next TCALL leaves the frame header intact is a theorem (WF-stack "
            "preservation step_preserves for all 16 opcodes incl. builtin dispatch, apply/eval/call-cc re-dispatch, "
            "continuation capture/invocation, VARARG, both TCALL branches; Trace.stable) for every code object the "
            "executable bytecode verifier Vm/Verify.lean accepts, under the explicit hypothesis structures CodeLaws "
            "(generic heap: lambda bytecode immutable under heap operations, callee lambdas verify, continuations are "
            "snapshots of WF states) — parameters, not axioms. That the REAL compiler's output verifies is not a "
            "theorem about the compiler model (verify (compile e) = ok is not proved) but translation validation: the "
            "bytecode-verifier stream runs the verifier on every lambda object found in the real heap (prelude, "
            "eval-compiled, variadic, call/cc receivers, every derived form) and compares the verifier's abstract stack "
            "height with the observed sp-bp-4 at every executed (code, offset). Loop traces exclude continuation "
            "invocation inside the loop body (Trace) and require closure (not bare-lambda) tail-call targets. Tail positions inside derived forms (cond, case, and, or, "
            "when, unless, let-family, begin) rest on their prelude macro expansions, which are not part of the "
            "compiler theorem; they are covered by the high-water-mark exploration through every derived form. "
            "VARARG normalisation is modelled and replayed in lock-step but has no closed frame theorem yet. "
            "Round 4: the verifier now also rejects (a) a BasePointerOffset SOURCE operand unless in procedure code "
            "with offset <= 0 (bpSrcOk; hence BpLive is a theorem, WFS.bp_src / bpLive_of_wfs), (b) a Ptr destination "
            "of MOV/MOVIMM (dstOk; it would overwrite a heap cell, a lambda included — HeapStep.setAt is gone); 0 "
            "rejects on every real code object. CodeLaws / GcLaws / LiveLaws are now THEOREMS for the concrete heap "
            "(Vm/ConcreteHeap.lean over the C03 heap model, real collector cgc): concreteLaws, cgc_gcLaws (from "
            "T03.2 runGc_spec + collect_spec/grow_spec), concreteLiveLaws; step_preserves_concrete, "
            "step_halt_concrete, tail_loop_sp_concrete have as hypotheses only CInv of the INITIAL heap (every "
            "lambda cell passes verifyLam, is not on the free list, has no IofArgument source; continuation cells "
            "are WF snapshots; map size facts), ExtCodeLaws ext (builtins/eval's compiler/VPUSH keep CInv: eval's "
            "output verifies) and, per executed CALL/TCALL/ENTER, CalleeOk (a closure / bare-lambda callee "
            "designates a lambda cell holding procedure code — NOT derivable from 'every lambda verifies': the "
            "entry lambda of an evaluation is a heap cell too, and callee passes inline Closure values through): "
            "the theorems are stated for gops ext = concreteOps ext with a guarded callee, step_gops shows the "
            "guard invisible in CalleeOk states, and the bytecode-verifier stream checks CalleeOk at every "
            "executed call site (oracle callee-ok), argNeed <= args.len(), and iof=0 on every lambda. ROUND 5 (value-typed verifier, real machine): the verifier now types temporaries val | argc n | any (PUSHACC / PUSHIMM-of-a-value push val, CONS pops two typed cells, CALL/TCALL need argc n over n typed cells, MOV never loads through a Ptr, MOVIMM loads a value, HALT is the last cell); WF-stack is re-proved for it for all 16 opcodes (val cells, argument blocks and frame arguments hold values; acc holds a value; a frame has at least argNeed argument cells), 0 rejects on every real code object. tail_loop_sp_machine states T04.5 on the REAL machine (run_one over concreteOps, no callee guard, no per-step CalleeOk): hypotheses ExtLaws/ExtGood/ExtCodeLawsV, GoodI and WF-stack of the FIRST state of the loop, SizeBounded, and CalleeOkAlong (callee guard at reachable CALL/TCALL/ENTER sites = oracle callee-ok; a reachability fact that is NOT derived from WF-stack, see Lemmas/StackDiscOfWFS.lean). step_preserves_machine: one real instruction preserves GoodI and WFS. Bridge: step_vops (the guards of vops are invisible on GoodI states). The *_concrete theorems (gops, per-step CalleeOk) are kept.",
    "technique": "Lean 4 proof (frame-replacement lemmas for TCALL/ENTER over an abstract heap; compiler emits TCALL iff R7RS tail position, by induction) + lock-step replay, compiled-code comparison, stack high-water-mark oracle",
}
MODULE = "Marwood.Proofs.C04"
THEOREMS = [
    "Marwood.Proofs.C04.tcall_replaces_frame",
    "Marwood.Proofs.C04.enter_completes_frame",
    "Marwood.Proofs.C04.tail_call_iteration",
    "Marwood.Proofs.C04.builtin_call_pops",
    "Marwood.Proofs.C04.compile_tail_calls",
    "Marwood.Proofs.C04.compile_body_tail_calls",
    "Marwood.Proofs.C04.application_call_op",
    "Marwood.Vm.tcallCopyDiff_spec",
    "Marwood.Vm.tcallCopySame_spec",
    # WF-stack: the stack discipline of verified bytecode (Lemmas/StackWF*.lean), under CodeLaws
    "Marwood.Vm.step_preserves",
    "Marwood.Vm.step_halt",
    "Marwood.Vm.tcallTail_ok",
    "Marwood.Vm.stepVarArg_ok",
    "Marwood.Vm.Trace.stable",
    "Marwood.Vm.header_of_base",
    "Marwood.Proofs.C04.frame_header_intact_at_tcall",
    "Marwood.Proofs.C04.tail_loop_same_frame",
    "Marwood.Proofs.C04.tail_loop_sp",
    # the heap laws as theorems about the concrete heap (Lemmas/ConcreteLaws*.lean), BpLive from WF-stack
    "Marwood.Vm.WFS.bp_src",
    "Marwood.Vm.bpLive_of_wfs",
    "Marwood.Vm.step_wc",
    "Marwood.Vm.Concrete.concreteLaws",
    "Marwood.Vm.Concrete.cgc_gcLaws",
    "Marwood.Vm.Concrete.concreteLiveLaws",
    "Marwood.Vm.Concrete.step_gops",
    "Marwood.Vm.Concrete.simBpLive_of_wfs",
    "Marwood.Proofs.C04.step_preserves_concrete",
    "Marwood.Proofs.C04.step_halt_concrete",
    "Marwood.Proofs.C04.tail_loop_sp_concrete",
    "Marwood.Proofs.C04.step_to_vops",
    "Marwood.Proofs.C04.trace_to_vops",
    "Marwood.Proofs.C04.tailLoop_to_vops",
    "Marwood.Proofs.C04.tail_loop_sp_machine",
    "Marwood.Proofs.C04.step_preserves_machine",
    "Marwood.Lemmas.Good.step_vops",
    "Marwood.Lemmas.Good.vmOk_step",
    "Marwood.Lemmas.Good.stackDisc_of_wfs",
    "Marwood.Vm.Concrete.concreteLawsV",
    "Marwood.Vm.Concrete.cgc_gcLawsV",
]


# ROUND 6: the callee guard is a theorem (lib/props/procinv_util.py)
import procinv_util as _pv
THEOREMS = THEOREMS + [t for t in _pv.COMMON_THEOREMS if t not in THEOREMS] + ['Marwood.Proofs.C04.tail_loop_sp_closed', 'Marwood.Proofs.C04.step_preserves_closed']
META["note"] = META["note"] + _pv.NOTE + ' C04: tail_loop_sp_closed (T04.5 on the real machine: GoodI, WF-stack and PInv of the FIRST state of the loop, SizeBounded), step_preserves_closed (one real instruction preserves GoodI, PInv and WFS; no CalleeOk hypothesis).'

def nontrivial(req, impl):
    if req.startswith("step"):
        return "tcallAcc" in req or "varArg" in req or "code=openter" in req
    if req.startswith("compile"):
        return "tcallAcc" in impl
    return True


def bc_model_equal(req, impl, model):
    """bytecode-verifier stream: `vbc` (a code object of the real heap) must be accepted, with the kind
    the harness sees, at least the number of temporaries observed while stepping it, VARARG present
    exactly for variadic lambdas, and its bp-relative operands inside the lambda's own argument cells; `vat` (an executed offset): the verifier's height = the observed one."""
    if req.startswith("vbc "):
        i, m = impl.split(), model.split()
        # iof=0: no environment map of the lambda has an IofArgument source (CInv.noIofArg)
        if len(m) != 4 or m[0] != "ok" or m[1] != i[1] or "shape=1" not in impl or "iof=0" not in impl:
            return False
        # m[3]: number of argument cells the code's BasePointerOffset operands address (Verify.argNeed):
        # at most args.len() of the real lambda (compile.rs emits bp - argc + i + 1 for argument i only)
        argc = [int(f[5:]) for f in i if f.startswith("argc=")]
        if len(argc) != 1 or int(m[3]) > argc[0]:
            return False
        return i[2] == "-" or int(i[2]) <= int(m[2])
    return impl == model


def bc_nontrivial(req, impl):
    return "callAcc" in req or "tcallAcc" in req or "jnt" in req


def streams(ctx):
    n = 40 if ctx.quick() else 1500
    cases = gen_cases("verifybc", ["lambdas", n], ctx.seed)
    md, sd = correspond(ctx, "bytecode-verifier", cases, bc_nontrivial, model_equal=bc_model_equal)
    settle(ctx, md, sd)
    n = 100 if ctx.quick() else 2000
    cases = gen_cases("vm", ["trace", n], ctx.seed)
    md, sd = correspond(ctx, "lockstep-run_one", cases, nontrivial)
    settle(ctx, md, sd)
    n = 300 if ctx.quick() else 6000
    cases = gen_cases("vm", ["compile", n], ctx.seed)
    md, sd = correspond(ctx, "compiler-model-vs-compiled-code", cases, nontrivial)
    settle(ctx, md, sd)
    # the compiler MODEL's output through the bytecode verifier: the driver evaluates Vm.verifyCompiled =
    # verify (encodeLam .) of every code object of compileRunnable (table, top-level lambda, entry lambda) on
    # the same forms; theorem T04.6 (Proofs.C04.compile_verifies / vcompile_never_rejects) says the answer is
    # never `reject`; the implementation side is the constant "ok" for every form the real compiler accepted
    vc = [("vcompile " + req[len("compile "):], "ok" if impl.startswith("ok") else "err", None)
          for (req, impl, _) in cases if req.startswith("compile ")]
    md, sd = correspond(ctx, "compiler-model-output-verifies", vc, lambda r, i: i == "ok",
                        model_equal=lambda r, i, m: m.split()[0] == i)
    settle(ctx, md, sd)
    n, big = (150, 20000) if ctx.quick() else (1500, 100000)
    cases = gen_cases("vm", ["tailloops", n, big], ctx.seed)
    md, sd = correspond(ctx, "tail-loop-high-water-mark", cases, nontrivial)
    settle(ctx, md, sd)


def run(ctx):
    return standard_run(
        ctx, MODULE, THEOREMS, ["vm", "verifybc"], streams,
        rule="(0) bytecode-verifier (translation validation of the stack discipline): every Lambda object found in the real "
             "heap after hand-written sessions (every derived form, variadics, eval-compiled code, call/cc receivers, "
             "apply, quasiquote, user macros, deep nested applications, failures) and generated sessions — prelude "
             "procedures included — must be accepted by the Lean bytecode verifier, and at every executed (code object, "
             "offset) the verifier's abstract stack height must equal the observed sp-bp-4 (below the argument block at "
             "CALL/TCALL; sp - entry sp in entry code); the compiler model's own output (canonical loading Vm.encodeLam, entry lambda included) is run through "
             "the verifier on the forms of stream (2) — Vm.verifyCompiled, which theorem vcompile_never_rejects is about; (1) every instruction of generated sessions replayed through the Lean model of run_one (non-trivial: "
             "TCALL/VARARG/ENTER steps); (2) macro-expanded generated and malformed forms: real compiled code object "
             "vs compiler model, canonical by symbol name (non-trivial: code containing TCALL); (3) tail-call loops "
             "through 0..3 composed tail contexts (if/cond/case/and/or/when/unless/let/let*/letrec/begin/lambda/named "
             "let), caller/callee arities 0..4, rest parameters, direct/apply/call-cc/eval calls, cycles of 1..3 "
             "procedures: value = iteration count and max_sp(n) equal for n = 10, 10^3, 2*10^4 (quick) or 10^5 "
             "(thorough; 5000 when eval recompiles each step)")


# ROUND 9 (T04.6): the compiler model emits only code the verifier accepts
THEOREMS = THEOREMS + [
    "Marwood.Proofs.C04.compile_verifies",
    "Marwood.Proofs.C04.compile_verifies_loaded",
    "Marwood.Proofs.C04.verify_encode_irrelevant",
    "Marwood.Proofs.C04.compile_runnable_verifies",
    "Marwood.Proofs.C04.entry_code_verifies",
    "Marwood.Proofs.C04.vcompile_never_rejects",
    "Marwood.Vm.Verify.infer_checkAll",
    "Marwood.Vm.Verify.verify_of_infer",
    "Marwood.Vm.Verify.blk_scan",
    "Marwood.Vm.blkOK_all",
    "Marwood.Vm.compileTop_shape",
    "Marwood.Proofs.C04.compiled_code_loaded_by_codeAt2_verifies",
    "Marwood.Proofs.C04.compiled_lambda_clauses",
    "Marwood.Proofs.C04.compiled_install_keeps_cinv",
    "Marwood.Vm.Concrete.loaded_ok",
    "Marwood.Vm.Concrete.GrowsL.inv",
    "Marwood.Vm.blk_opsOK",
]
META["note"] = META["note"] + (
    " ROUND 9 (T04.6) — supersedes 'verify (compile e) = ok is not proved' above: for the compiler MODEL it is now a "
    "closed theorem. compile_verifies: for every datum e and fuel, if compileTop e fuel = ok (st, lam) then verifyLam "
    "(encodeLam lam) and verifyLam (encodeLam l) for every l in st.lambdas succeed — all forms of the model (define in "
    "both shapes, lambda incl. rest parameters and internal definitions, one- and two-armed if, set!, quote, "
    "quasiquote/unquote incl. nesting and vector templates, CALL/TCALL applications), no excluded form, no guard; "
    "compile_runnable_verifies adds the entry lambda PUSHIMM argc0; MOVIMM l acc; CALL; HALT (accepted as entry code, "
    "the others as procedure code). compile_verifies_loaded / verify_encode_irrelevant: the same for EVERY loading of "
    "the symbolic code into machine cells that keeps what the verifier reads (Vm.Enc: opcodes, acc, argc n, jump "
    "targets exact; any GlobalEnvSlot / LexicalEnvSlot index; any data cell — pointer or address-free immediate — for "
    "a quoted datum; any pointer for a code object), with the SAME typing (abstract stack per offset) and the same "
    "maximal number of temporaries in all loadings. Proof in three independent parts: (a) Lemmas/CompileBlk.lean — by "
    "induction on the fuel over all six mutual compiler functions, the emitted code is structured (inductive Blk: "
    "single instructions with the operand kinds compile.rs emits, sequencing, framing, the conditional with its two "
    "forward jumps) with a typed stack effect (operands push val, PUSHIMM argc pushes argc n, CALL/TCALL pop the "
    "block, CONS pops two values), under the invariant that every formal is in the environment map (hence no "
    "BasePointerOffset operand is ever emitted: emitLoc_locB); (b) Lemmas/VerifyBlk.lean + VerifyProc.lean — the "
    "verifier's forward pass runs through every Blk at every offset with every pending-edge context (joins meet equal "
    "stacks, no edge is left pending), hence through [VARARG] ENTER body RET; (c) Lemmas/VerifyInfer.lean — "
    "infer_checkAll: for ALL bytecode (not only compiled code) an assignment returned by the forward pass passes the "
    "independent local check, so verify accepts exactly when infer succeeds (verify_of_infer). No finding: the "
    "verifier accepts everything the compiler model emits. Executable tie: the driver command vcompile now "
    "evaluates Vm.verifyCompiled (the function vcompile_never_rejects is about) on every form of the "
    "compiled-code comparison stream (stream compiler-model-output-verifies: 0 rejects). What this does NOT say: "
    "that the real compiler equals the model (carried by stream compiler-model-vs-compiled-code, by symbol name) "
    "and that the real loader's cells satisfy Enc (carried by the bytecode-verifier stream on real heaps); macro "
    "expansion is outside compileTop. Corollaries (Lemmas/CompileVerifiesLoads.lean, CompileVerifiesOps.lean, "
    "CompileVerifiesCInv.lean): compiled_code_loaded_by_codeAt2_verifies — the loading relation CodeAt2 of the C01 "
    "compiler-correctness proofs implies Enc once quoted data are data cells (Loads/Loads2 constrain a datum cell only "
    "through the parameter VR), so a heap lambda that CodeAt2-holds compiled code verifies; compiled_lambda_clauses — "
    "every lambda object that is a loading of a code object of compile_runnable satisfies the four code clauses of the "
    "machine invariants: CInv.lamVer (verifies), CInv.noIofArg (the model's environment maps never have an "
    "IofArgument source: newEnvmap_noIof, from 'every formal is in the enclosing map'), CInv.lamArgs (argNeed = 0: no "
    "BasePointerOffset cell at all) and LamOk (MOV/MOVIMM operands at EVERY offset holding those opcodes, not only "
    "reachable ones: blk_opsOK); compiled_install_keeps_cinv — the code half of what C12's note calls 'prepare_eval "
    "re-establishes VmOkP is not proved: the compiler is unmodelled' and of the assumed law ExtCodeLaws.compileEval: a "
    "heap that differs from a CInv heap by allocated lambda cells holding loaded compiler-model output (GrowsL; the "
    "allocation facts of Heap::put — not on the free list, map sizes, continuation cells untouched — stay hypotheses) "
    "is a CInv heap again, keeps all old code, and keeps LamAll. NOT covered: the data cells the compiler allocates "
    "for quoted constants (GoodI's heap-shape clauses), PInv, and the identification of ext.compileEval with this model."
)

# ROUND 8: the Ext laws are theorems for a table of real builtins (lib/props/procinv_util.py, Lemmas/ListExtC04.lean)
import procinv_util as _pv8
MODULE = _pv8.listext_module("C04")
THEOREMS = THEOREMS + [t for t in _pv8.LISTEXT_LAWS + _pv8.LISTEXT["C04"] if t not in THEOREMS]
META["note"] = META["note"] + _pv8.LISTEXT_NOTE
