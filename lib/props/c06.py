"""C06 — Total API: every input yields Ok or Err, never a panic, abort or hang."""
from pipeline import *
import importlib.util, threading

META = {
    "text": "Exploration of the real library in a DEBUG build (overflow checks on), every case in an isolated worker "
            "process under catch_unwind, an instruction budget (prepare_eval + run_count), a wall-clock limit and an "
            "address-space limit: every global procedure of a fresh Vm (142 Rust builtins + 26 prelude closures, "
            "enumerated from the global environment through the hooks) x arity 0..5 x a boundary palette of 95 argument "
            "expressions (0, -1, i32/i64 extremes +-1, bignums, rationals, +-0.0, +-inf, NaN, denormal; non-ASCII "
            "characters and strings; empty / one-element / shared / nested lists and vectors; symbols; builtin, lambda, "
            "variadic and prelude procedures, a continuation, a macro and the unspecified value as data; lists and vectors "
            "containing those; six circular structures into list? length equal? display write and as the value of an "
            "evaluation), followed by the probe (+ 1 2) in the SAME Vm; every returned error and value is rendered with "
            "Display under catch_unwind. Unicode token soup and mutated (ill-formed) programs go into scan, parse_text, "
            "prepare_eval+run_count, eval_text, highlight and highlight_check at every byte cursor. The regenerated table "
            "Gen.builtins (translate/builtins.py: load_builtin + first pop_argc of every builtin) is cross-checked against "
            "the real registry (names; arity windows by probing). Lean theorems over the existing models: the scanner, "
            "parser and highlighter models never panic and need no fuel (re-exported from C11/C20); for the list, vector, "
            "string, character and comparison builtins of the Store model, on every well-formed store and every argument "
            "list, the outcome is never `panic` (one lemma per builtin); list walkers terminate within a fuel bound that is a "
            "function of the heap size on every (also circular) store where that is true (list? and, since its repair, the "
            "prelude's length), equal? (since its repair dfd9e81) never exhausts the fuel equalFuel(s) on any store, and the "
            "negation is proved on a circular witness for the pinned list?, the pinned length and the pinned equal?; rendering an error never panics; after a failed evaluation the machine is "
            "quiescent (re-exported from C07). The outcome CLASS of every palette call is compared with the model wherever a "
            "model exists (Store, Num); the other builtins are covered by the exploration alone.",
    "note": "Closed theorems (all inputs): T06.1 scan/parse/highlight totality (from C11/C20), T06.2 no-panic lemmas of the "
            "Store builtins listed in THEOREMS under a well-formedness hypothesis on the store (every reference inside the "
            "heap — what the VM guarantees; without it the model panics like the Rust code would on a wild pointer) and, for "
            "make-vector/make-string, the size bound of the property (<= 10^6, far below the capacity-overflow panic), "
            "T06.3 fuel bounds and circular-witness negations, T06.4 error rendering, T06.5 quiescence after failure. "
            "T06.3 for the repaired list? (3d7bbb6) is closed for EVERY store: isListTH_total — on every well-formed store of "
            "any size, circular or not, and every valid argument, fuel >= 2*|cells|+2 gives `ok b` (never diverge, panic or "
            "err), the store is unchanged and b = #t iff the cdr chain reaches () (inductive ProperList); "
            "isListTH_never_diverges drops the well-formedness hypothesis altogether (a wild reference panics, it does not "
            "hang). Floyd/pigeonhole argument in Lemmas/TotalListP.lean (core Lean only); the driver passes fuel "
            "4*fuelOf(s)+64 >= 2*|cells|+2. T06.3 for the repaired prelude length (two cursors, accumulator) is closed for EVERY "
            "store as well: length_total — on every well-formed store, circular or not, and every valid argument, fuel >= "
            "|cells|+2 gives an exact integer when the cdr chain reaches () (ProperList) and the `expected pair` error when it "
            "does not (improper list, non-list, circular list): never diverge, never panic (Lemmas/TotalLength.lean, on the "
            "chain lemmas of TotalListP; `eq?` on two pair cells compares contents in marwood — the proof covers both the "
            "same-address and the same-contents hit); length_circular_diverges is now a theorem about the PINNED definition "
            "(Store.Pinned.length), length_circular_self / length_circular_two evaluate the repaired one on the same witness. "
            "T06.3 for the repaired equal? (dfd9e81: a set of pairs of heap locations whose comparison has begun is threaded "
            "through equal_seen / compare_pair / compare_vector; the model Store.equalSeen carries it as a list): "
            "equal_circular_diverges is now a theorem about the PINNED functions (Store.Pinned.equal), "
            "equal_circular_terminates / equal_circular_terminates_car_vec evaluate the repaired one on cdr-circular lists "
            "(equal periods and different periods: #t), car-circular pairs, self-containing vectors (#t) and a mismatch (#f); "
            "equal_total closes it for EVERY store: on every store of the shape of a real heap (Store.Shaped: no heap cell is "
            "itself a reference, vector slots hold values — no well-formedness needed, a wild reference panics) and any two "
            "values, fuel >= equalFuel(s) = |cells|^2*(maxVecLen+5)+1 is never exhausted (measure: pairs of locations not yet "
            "in the set; Lemmas/EqualTotal.lean, core Lean only); equalB_terminates adds equalB_noPanic: ok or err. The driver "
            "passes max(fuelOf s, equalFuel s). "
            "T06.2 now also covers append, the prelude's length, memq memv member assq assv "
            "assoc, and map / for-each for every callee obeying the explicit law CalleeLaw (on every well-formed store and "
            "valid arguments: no panic, and the store handed back is well formed, only grew, result valid) — the law holds "
            "for car cdr cons list append and is closed under map/for-each (calleeLaw_instances); the *_wf theorems show "
            "that these procedures PRESERVE Store.WF (the hypothesis of all T06.2 lemmas); quotient remainder modulo: the "
            "wrapper's zero test keeps every argument list away from the division-by-zero panics of the Num model "
            "(scmQuotient/Remainder/Modulo_noPanic; quotient_by_zero_panics shows the guard is needed). "
            "NOT proved: that the parser model never panics on scanner output (only its termination is; the panic class is "
            "compared with the real parser by the C11 and text streams); termination of memq../map on acyclic lists "
            "is C14's (fuel > list length); on circular lists they follow cdr for ever like any R7RS implementation may (outside "
            "the property's quantifier). map/for-each: the law is a "
            "hypothesis about the callee's store transformer — for a closure callee it is not derived from the VM model. "
            "Carried ONLY by the exploration (no model, no theorem): the numeric procedures outside Num.Arith/Cmp (trig, "
            "sqrt, exp, log, exact->inexact, inexact->exact, number->string, string->number at the VM level, random-*), "
            "predicates, symbol procedures, ports, apply/eval/call/cc/error as procedures, the compiler on ill-formed "
            "programs. T06.6 (machine model Vm.step = run_one): step_panic_sites — in every state satisfying the "
            "frame-chain invariant WFS (preserved by step: C04/C05/C07), under the explicit heap-side laws PanicLaws "
            "(%ip designates a lambda; a lambda whose code contains VARARG has a rest parameter; closure/activation "
            "construction, vector push, generic builtins and eval's compiler do not panic — hypotheses, satisfiable: toy "
            "instance), every checked subtraction of RET/ENTER/TCALL/VARARG/apply/eval/call-cc, the to_continuation slice "
            "and the `%ip is not a procedure` expectations are unreachable; exactly two sites remain and are named in the "
            "statement: restore_continuation's split_at_mut (needs the temporal fact that the stack never shrinks below a "
            "captured continuation, which WFS does not record) and the model's fuel guard in apply's list walk (cyclic "
            "argument list: the Rust loop would hang). The tie of WFS to real compiled code is C04's bytecode-verifier "
            "stream, not repeated here. step_panic_sites_concrete: the same on the concrete machine (concreteOps over the "
            "C03 heap model) in a CalleeOk state, with CodeLaws discharged (concreteLaws: CInv of the heap + ExtCodeLaws); "
            "PanicLaws stays a hypothesis there except isLambda_code (concrete_isLambda_code) — vararg_info and the "
            "slot-index expects of CLOSURE/ENTER environment construction are not consequences of CInv. "
            "T06.6 CLOSED FOR THE MODELLED PART OF THE VM (Lemmas/NoPanic*.lean): step_never_panics_machine — for every "
            "state reachable (Reaches: any number of instructions, collections anywhere) from an initial state of the REAL "
            "concrete machine (run_one over concreteOps, run_gc = cgc) satisfying the bundled invariant VmOkP (heap-simulation "
            "invariant GoodI, WF-stack over the value-typed verifier, PInv: an invariant since wave 7, so CalleeOk is no "
            "longer a hypothesis) and the two new clauses NPInv, step never returns `panic m` except m = the MODEL's own fuel "
            "guard in apply's list walk (100000; run_one's loop is unbounded, on a cyclic list it does not return: a hang, "
            "not a panic). NPInv = HeapNP (every lambda cell: code containing VARARG has a formal; environment-map Argument "
            "indices within the formals) and ContFits (every continuation cell's stack copy is no longer than the current "
            "stack): a THEOREM-level invariant (npinv_step / contFits_step for all 16 opcodes through a generic heap-path "
            "lemma step_hpath: the only continuation run_one creates is call/cc's copy of stack[0..=sp]; the stack never "
            "shrinks, step_len_mono; npinv_gc; npinv_onDone / npinv_onError: Stack::clear and the error reset keep the "
            "capacity) — this EXCLUDES the former residual site restore_continuation/split_at_mut. PanicLaws' facts about "
            "modelled operations are theorems at the arguments the instruction uses (panicFacts_concrete): %ip designates a "
            "lambda, VARARG's args.len()-1 (concrete_vararg_info), CLOSURE's build_closure_environment "
            "(concrete_makeClosure_np: no IofArgument source so load_arg's bp-argc is never evaluated), ENTER's "
            "build_lexical_environment (concrete_makeActivation_np: argc-arg from HeapNP, bp-(argc-arg) from WF-stack). "
            "apply_guard_only_on_long_lists: the guard fires only if the cdr chain from apply's list argument runs through "
            ">= 100000 pair cells of the heap (LongChain; a proper list that ends earlier never trips it: pushList_ends_np, "
            "longChain_not_endsWithin). run_never_panics_machine / eval_never_panics_machine / "
            "history_never_panics_machine lift it to run_count (any budget), one evaluation with its epilogues, and any "
            "history of succeeding and failing evaluations (NPInv is carried from one evaluation to the next; VmOkP of each "
            "job's prepared state is asked as in C07's *_closed theorems). REMAINING HYPOTHESES, all visible in the "
            "statements: ExtLaws/ExtGood/ExtProc/ExtCodeLawsV (as C03/C13/C07), the new ExtNoPanic ext (the 142 generic "
            "builtins — T06.2's subject —, eval's compiler and VPUSH do not panic on allocated value arguments of a GoodI "
            "heap, create no continuation object longer than those there are, and only lambda objects satisfying the "
            "VARARG/Argument clause; satisfiable: failingExt_noPanic), SizeBounded, and EnvSlots of the state examined "
            "(EnvSlotsAlong for runs): the two slot-index expects of LexicalEnvironment::get/put in CLOSURE/ENTER — the "
            "current environment has a slot for every IofEnvironment index of the lambda being closed over, a closure's "
            "environment has one per environment-map entry. WAVE 10: EnvSlots IS NOW AN INVARIANT and the *_closed forms "
            "(step_/run_/eval_/history_never_panics_machine_closed) state T06.6 WITHOUT EnvSlots/EnvSlotsAlong: "
            "EnvInv s = TInv s /\\ FInv s (Lemmas/EnvTaint*.lean, EnvFit*.lean, EnvInvStep/Main.lean, ~5600 lines; executable "
            "form Vm/EnvInvCheck.lean stateEnvB, proved sound: stateEnvB_sound). FInv (fit): every closure cell's "
            "environment has a slot per entry of its lambda's map; every adjacent EnvironmentPointer/InstructionPointer "
            "pair of the live stack and of every continuation copy fits, so do the (ep, ip.0) a continuation saved and the "
            "current (ep, ip.0) outside a procedure prologue (verifier state pre; there acc still holds the callee whose "
            "code runs, or Undefined after the error reset); at every MOVIMM <Ptr p> %acc; CLOSURE site of a code object the "
            "IofEnvironment indices of the lambda in p are below the length of that code object's own map; no PUSHIMM "
            "immediate is an InstructionPointer. TInv (no value leads to a capturing lambda, i.e. one with a non-empty "
            "environment map) is a SECOND invariant the goal turned out to need — a finding about the boundary of the "
            "bytecode verifier, not about marwood: the verifier does not know what acc holds at CLOSURE or at a bare-lambda "
            "CALL, so VERIFIED bytecode may store the pointer MOVIMM loaded in a global and close over it (or call it bare) "
            "in a foreign environment, where model and run_one alike index out of the environment; compiled code never "
            "does: a pointer to a capturing lambda occurs only as the immediate of MOVIMM ... %acc; CLOSURE and, between "
            "the two instructions, in acc (same whole-state traversal as PInv with capAt for entryAt: stack, globals, "
            "environment slots, vectors, pairs, continuation copies, immediates, symbol table). Preservation: envInv_step "
            "(all 16 opcodes of step (concreteOps ext): apply/call-cc/eval re-dispatch, continuation invocation, both TCALL "
            "variants, VARARG; the verifier's typing says which successor offsets are prologue offsets), envInv_gc (the "
            "collector moves nothing: every Fit claim is conditional on both cells being there), envInv_onDone, "
            "envInv_onError, envInv_prepare; envSlots_of_envInv : VmOkNP s -> EnvInv s -> EnvSlots s. NEW LAWS of the "
            "parameters of the model (visible in the statements, satisfiable: failingExt_envInv): ExtEnvInv ext = ExtTaint "
            "(builtins/VPUSH create no capturing lambda and keep the taint clauses; eval's compiler keeps them for "
            "allocated values and returns a non-capturing lambda) + ExtFit (between two HG heaps they keep HF, do not "
            "change the length of an allocated environment or an allocated lambda, and a closure a builtin returns inline "
            "fits); CompEnvInv for the compiler inside prepare_eval (the entry lambda has an empty map). REMAINING "
            "HYPOTHESES of the closed forms: the Ext* laws, VmOkP/NPInv/EnvInv of the INITIAL state (of each job's prepared "
            "state in history_never_panics_machine_closed: HistGoodE), SizeBounded. Non-vacuity: Demo.sHalt_envInv, "
            "LDemo.sDemo_envInv (kernel-evaluated stateEnvB), rejected witnesses in Lemmas/EnvInvMain.lean. Carried by the "
            "correspondence: the stream safe-side-conditions (C03) "
            "evaluates np-lambda (HeapNP), np-cont-fits (ContFits) and np-env-slots (EnvSlots) on every real state (700 in "
            "the quick tier: 19 CLOSURE, 37 ENTER, 200+ CALL/TCALL states incl. continuation invocations; 3168 in the "
            "thorough tier: 90 CLOSURE, 173 ENTER; all ok), the three candidate clauses of wave 9 (np-clos-fit, "
            "np-child-env, np-frame-env) and now every clause of stateEnvB (env-val-cell, env-env-slot, env-vector-elem, "
            "env-code-imm, env-cont-stack, env-global, env-symtab, env-acc, env-stack, env-clos-fit, env-child-fit, "
            "env-cont-fit, env-frame-pairs, env-cur-fit; the code clauses are not evaluated on hand-assembled bytecode): all "
            "ok on the same states and on a separate 1584-state thorough shard. "
            "Model boundary noted there: heap.get_at_index(ep) with ep = usize::MAX (top-level code) is an `err` in "
            "the model (total signatures, ConcreteHeap decision 4), a Rust index panic in the code — reached only if "
            "top-level code closes over an IofEnvironment slot, which EnvSlots' premise envAt ep = some _ does not cover; "
            "compile.rs never emits that (toplevel free variables are globals). The Num model has genuine panic branches for division by an exact zero "
            "that the Scheme-level wrappers guard; those guards are now theorems (scmDivide_noPanic, scmIntOp_noPanic). Known findings (not fixed): display, write on circular data and a circular value as the "
            "result of an evaluation recurse/loop without bound (stack overflow abort or non-termination); length of a "
            "self-containing VECTOR dies while the `expected pair` error copies its payload out of the heap (same unbounded "
            "Heap::get_as_cell; what is left of the former length finding). Fixed: "
            "7c9bd3f (quoting a procedure/macro/continuation datum through eval panicked), 3d7bbb6 (list? looped on a "
            "circular list), 08d0569 (length never returned on a cdr-circular list: two cursors, same error as for an "
            "improper list), 71c917c ((map f) / (for-each f) without a list looped for ever when f accepts zero arguments: "
            "at least one list is required, the list-less call is an arity error), dfd9e81 (equal? on two circular structures "
            "of the same shape never returned: it now remembers the pairs of locations under comparison and answers #t when "
            "it meets one again); the former witnesses are must-pass corpus "
            "cases and map / for-each now have a model class (Store.map / Store.forEach through the C14 callee table). Calls whose result would exceed the property's allocation bound (make-vector/make-string/expt "
            "with arguments beyond 10^6) are not generated; circular data into procedures other than the five named by the "
            "property is sampled in the thorough tier as information only (`xcall`).",
    "technique": "Lean 4 proof (never-panic / termination theorems over the three-valued models, all inputs) + exhaustive/sampled "
                 "exploration of the real registry in isolated debug-build workers with class-level model correspondence",
}
MODULE = "Marwood.Proofs.C06"
P = "Marwood.Proofs.C06."
THEOREMS = [P + t for t in """scan_total parse_terminates highlight_never_panics car_noPanic vectorRef_noPanic cdr_noPanic cons_noPanic
setCar_noPanic setCdr_noPanic list_noPanic listTail_noPanic listRef_noPanic isListTH_noPanic isList_noPanic
reverse_noPanic vector_noPanic makeVector_noPanic vectorLength_noPanic vectorSet_noPanic vectorFill_noPanic
vectorToList_noPanic listToVector_noPanic vectorCopy_noPanic vectorCopyBang_noPanic stringLength_noPanic
stringCase_noPanic stringRef_noPanic stringSet_noPanic stringFill_noPanic stringCopy_noPanic
stringToList_noPanic stringToVector_noPanic vectorToString_noPanic listToString_noPanic makeString_noPanic
string_noPanic stringAppend_noPanic stringComp_noPanic charComp_noPanic integerToChar_noPanic
charToInteger_noPanic charPred_noPanic charMap_noPanic eqvB_noPanic equalB_noPanic isNullB_noPanic
isPairB_noPanic scmPlus_noPanic scmTimes_noPanic scmMinus_noPanic scmUnary_noPanic scmExpt_noPanic
scmCmp_noPanic scmPred_noPanic scmMinMax_noPanic scmDivide_noPanic getListTail_terminates circ_wf
isListTH_circular_self isListTH_circular_two isList_pinned_diverges length_circular_diverges
length_circular_self length_circular_two length_total length_never_diverges
equal_circular_diverges equal_circular_terminates equal_circular_terminates_car_vec equal_total equalB_terminates
circ_shaped render_never_panics renderPinned_panics failed_eval_quiescent builtins_table_size
builtins_table_windows builtins_table_windows_modelled
append_noPanic append_wf cons_wf list_wf length_noPanic memq_noPanic memv_noPanic member_noPanic assq_noPanic
assv_noPanic assoc_noPanic map_noPanic map_wf forEach_noPanic forEach_wf calleeLaw_instances
quotient_noPanic rem_noPanic modulo_noPanic scmIntOp_noPanic scmQuotient_noPanic scmRemainder_noPanic
scmModulo_noPanic quotient_by_zero_panics
isListTH_total isListTH_terminates isListTH_never_diverges circ_not_properList
step_panic_sites step_never_panics concrete_isLambda_code step_panic_sites_concrete
concrete_vararg_info concrete_makeClosure_np concrete_makeActivation_np contFits_step step_never_panics_machine
apply_guard_only_on_long_lists longChain_not_endsWithin run_never_panics_machine eval_never_panics_machine
history_never_panics_machine failingExt_noPanic
envSlots_of_envInv envInv_step envInv_gc envInv_onDone envInv_onError envInv_prepare
step_never_panics_machine_closed run_never_panics_machine_closed eval_never_panics_machine_closed
histGood_of_histGoodE history_never_panics_machine_closed failingExt_envInv""".split()]

CIRC = {"circ-cdr", "circ-self", "circ-car", "circ-vec", "circ-vl", "circ-lv"}
REENTRANT = {"cont", "l-cont"}

# the #[error("…")] strings of error.rs that lean/Marwood/Total.lean `render` was written against
ERROR_FORMATS_SHA = "63e0e93c8bec7ac0"


def base_class(impl):
    return impl.split(" then ")[0]


def acceptable(req, impl):
    """the property: a value or an error, and the same VM answers the probe afterwards"""
    if " then " in impl:
        return False
    if impl == "ok" or impl.startswith("err"):
        return True
    if impl == "hang budget" and any(t in REENTRANT for t in req.split(" ")[2:]):
        # re-entering the continuation captured while the arguments were evaluated re-runs the call:
        # the program does not terminate by the language's semantics
        return True
    return False


def model_equal(req, impl, model):
    impl = base_class(impl)
    if model == "no-model":
        return True
    if model == "diverge":
        return impl.startswith("hang") or impl.startswith("abort")
    if model == "err":
        return impl.startswith("err")
    return impl == model


def nontrivial(req, impl):
    # the call got past the arity check of the procedure (reached its body)
    return not impl.startswith("err arity")


@predicate("c06-call")
def p_call(case, m):
    """match = {names:[…], argc:[…]?, tokens:[…]? (some argument is one of them), circ:"all"|"any"|"none", impl:[prefixes]}"""
    w = case["request"].split(" ")
    if w[0] != m.get("command", "call") or len(w) < 2:
        return False
    if w[0] == "call" and w[1] not in m["names"]:
        return False
    if w[0] == "value" and w[1] not in CIRC:
        return False
    args = w[2:] if w[0] == "call" else w[1:]
    if "argc" in m and len(args) not in m["argc"]:
        return False
    if "tokens" in m and not any(a in m["tokens"] for a in args):
        return False
    c = [a in CIRC for a in args]
    want = m.get("circ", "any")
    if want == "all" and not (c and all(c)):
        return False
    if want == "any" and not any(c):
        return False
    if want == "none" and any(c):
        return False
    return any(base_class(case["impl"]).startswith(p) for p in m["impl"])


def judge(ctx, stream, cases, model_eq=model_equal, accept=acceptable):
    """correspondence (impl vs model class) + property oracle (impl class is ok/err)"""
    md, _ = correspond(ctx, stream, cases, nontrivial, model_equal=model_eq)
    sd = []
    st = ctx.streams[stream]
    for req, impl, _ in cases:
        if not accept(req, impl):
            st["spec_disagree"] += 1
            sd.append({"stream": stream, "request": req, "impl": impl, "model": None,
                       "spec_request": None, "spec": "ok | err <class>"})
    settle(ctx, md, sd)
    return md, sd


def class_stats(ctx, stream, cases):
    st = ctx.streams[stream]
    cl = {}
    for _, impl, _ in cases:
        k = " ".join(base_class(impl).split(" ")[:2])
        cl[k] = cl.get(k, 0) + 1
    st["classes"] = cl


_DRIVER_MEMO = {}
_driver_batch_raw = driver_batch


def driver_batch_memo(requests):
    """the builtin stream is sent to the driver once (correspond() and the coverage statistics share it)"""
    key = hashlib.sha256("\n".join(requests).encode()).hexdigest()
    if key not in _DRIVER_MEMO:
        _DRIVER_MEMO.clear()
        _DRIVER_MEMO[key] = _driver_batch_raw(requests)
    return _DRIVER_MEMO[key]


import pipeline as _pipeline
_pipeline.driver_batch = driver_batch_memo


def load_translator():
    spec = importlib.util.spec_from_file_location("c06_builtins", os.path.join(VERIF, "translate", "builtins.py"))
    mod = importlib.util.module_from_spec(spec)
    spec.loader.exec_module(mod)
    return mod


def error_formats():
    import re
    src = open(os.path.join(REPO, "marwood", "src", "error.rs")).read()
    items = re.findall(r'#\[error\((.*)\)\]\s*\n\s*([A-Za-z]+)', src)
    return hashlib.sha256(repr(items).encode()).hexdigest()[:16], items


def run_total(args, seed, out):
    out[tuple(args)] = gen_cases("total", args, seed, profile="debug", timeout=3000)


def streams(ctx):
    # ---- error.rs format strings (T06.4 is about these)
    sha, items = error_formats()
    if sha != ERROR_FORMATS_SHA:
        report_broken(ctx, "error-format-correspondence",
                      "error.rs #[error] strings changed (hash %s, modelled %s): lean/Marwood/Total.lean `render` no longer "
                      "describes them: %r" % (sha, ERROR_FORMATS_SHA, items))
    # ---- generators run concurrently (each spawns its own isolated workers)
    tier = "quick" if ctx.quick() else "thorough"
    ntext = 2500 if ctx.quick() else 40000
    jobs = [["registry"], ["palette"], ["values"], ["builtins", tier], ["text", ntext]]
    out, threads = {}, []
    for j in jobs:
        t = threading.Thread(target=run_total, args=(j, ctx.seed, out))
        t.start()
        threads.append(t)
    for t in threads:
        t.join()
    missing = [j for j in jobs if tuple(j) not in out]
    if missing:
        raise RuntimeError("generator(s) failed: %r" % missing)

    # ---- corpus first
    reqs = []
    for p in sorted(glob.glob(os.path.join(VERIF, "corpus", "C06", "*.req"))):
        reqs += [l.strip() for l in open(p) if l.strip() and not l.startswith("#")]
    if reqs:
        r = subprocess.run([harness_bin("total", "debug"), "replay", "-"], input="\n".join(reqs) + "\n",
                           capture_output=True, text=True, env=ENV, timeout=1200)
        cases = [tuple((l.split("\t") + [None])[:3]) for l in r.stdout.split("\n") if l]
        judge(ctx, "corpus", [c for c in cases if not c[0].startswith("text ")])
        tcases = [c for c in cases if c[0].startswith("text ")]
        if tcases:
            judge(ctx, "corpus-text", tcases, text_model_equal, text_acceptable)

    # ---- registry: names and arity windows of the regenerated table vs the real VM
    reg = out[("registry",)]
    builtins = [c for c in reg if c[0].startswith("gen ")]
    closures = [c for c in reg if c[0].startswith("closure ")]
    md, _ = correspond(ctx, "registry-arity-windows", builtins, lambda r, i: True)
    settle(ctx, md, [])
    table = load_translator().translate()
    real = {c[0].split(" ", 1)[1] for c in builtins}
    if real != set(table):
        report_broken(ctx, "registry-names",
                      "regenerated table and real registry differ: only in VM %s, only in table %s"
                      % (sorted(real - set(table)), sorted(set(table) - real)))
    ctx.streams["registry-arity-windows"].update({"rust_builtins": len(builtins), "prelude_closures": len(closures)})

    # ---- palette: the Lean palette is the real palette
    md, _ = correspond(ctx, "palette", out[("palette",)], lambda r, i: True)
    settle(ctx, md, [])

    # ---- values of evaluations
    cases = out[("values",)]
    judge(ctx, "values", cases)
    class_stats(ctx, "values", cases)

    # ---- builtins
    cases = out[("builtins", tier)]
    judged = [c for c in cases if c[0].startswith("call ")]
    info = [c for c in cases if c[0].startswith("xcall ")]
    judge(ctx, "builtins-" + tier, judged)
    class_stats(ctx, "builtins-" + tier, judged)
    st = ctx.streams["builtins-" + tier]
    model = driver_batch_memo([c[0] for c in judged])
    nomodel, covered = {}, {}
    for (req, impl, _), m in zip(judged, model):
        name = req.split(" ")[1]
        d = nomodel if m == "no-model" else covered
        d[name] = d.get(name, 0) + 1
    st["model_cases"] = sum(covered.values())
    st["exploration_only_cases"] = sum(nomodel.values())
    real_model = {}
    for (req, impl, _), m in zip(judged, model):
        if m not in ("no-model", "err arity"):
            real_model[req.split(" ")[1]] = real_model.get(req.split(" ")[1], 0) + 1
    st["procedures_with_model"] = sorted(real_model)
    st["procedures_exploration_only"] = sorted({r.split(" ")[1] for r, _, _ in judged} - set(real_model))
    st["procedures_without_any_model_case"] = sorted(set(nomodel) - set(covered))
    by_arity = {}
    for req, _, _ in judged:
        k = len(req.split(" ")) - 2
        by_arity[k] = by_arity.get(k, 0) + 1
    st["by_arity"] = by_arity
    if info:
        ist = ctx.streams.setdefault("outside-quantifier-circular-xcall", {"cases": 0})
        ist["cases"] = len(info)
        cl = {}
        for _, impl, _ in info:
            k = base_class(impl).split(" ")[0]
            cl[k] = cl.get(k, 0) + 1
        ist["classes"] = cl
        ist["note"] = "informational: circular data into procedures the property does not name; not judged"

    # ---- text entry points
    cases = out[("text", ntext)]
    judge(ctx, "text-entry-points", cases, text_model_equal, text_acceptable)
    st = ctx.streams["text-entry-points"]
    heads = {}
    for _, impl, _ in cases:
        k = " ".join(impl.split(" ")[:2]) if impl.startswith("hang") or impl.startswith("abort") else impl.split(" ")[0]
        heads[k] = heads.get(k, 0) + 1
    st["classes"] = heads


def fields(resp):
    return dict(f.split("=", 1) for f in resp.split(" ") if "=" in f)


def text_model_equal(req, impl, model):
    fi, fm = fields(impl), fields(model)
    if not fi:            # abort / hang wall: no per-entry-point classes
        return True
    if fi.get("scan") != fm.get("scan"):
        return False
    if fm.get("parse") != "unknown" and fi.get("parse") != fm.get("parse"):
        return False
    return True


def text_acceptable(req, impl):
    head = impl.split(" ")[0]
    if head in ("ok", "err"):
        return True
    # a program that runs out of instruction budget may simply not terminate: not judged
    return impl.startswith("hang budget")


def run(ctx):
    return standard_run(
        ctx, MODULE, THEOREMS, ["total"], streams, profile="debug",
        rule="DEBUG build. builtins: every global procedure (142 Rust builtins, 26 prelude closures) x arity 0 and 1 over the "
             "whole palette (95 values; circular ones only into list? length equal? display write), arity 2 as the full "
             "cross product of the non-circular palette (thorough: 89x89) or of a 24-value core plus 150 sampled pairs "
             "biased to the kinds the procedure accepts (quick), circular x everything for the five procedures, arity 3..5 "
             "sampled (40 / 600 per procedure and arity, 60% from the accepted kinds); sizes beyond 10^6 for make-vector / "
             "make-string / expt are not generated (outside the quantifier). Each call is one Scheme form evaluated by "
             "parse_text + prepare_eval + run_count(2,000,000) in an isolated worker (a Vm serves at most 50 cases and is "
             "replaced after a panic), then (+ 1 2) in the same Vm; response = ok | err <class> | panic <file:line> | hang "
             "budget|wall | abort <signal>, ' then <class>' when the probe fails. values: each palette value as the result of "
             "an evaluation. text: seed list of ~280 ill-formed / boundary programs, each also mutated (delete, insert "
             "token, replace, duplicate, truncate, splice) plus Unicode token soup, nesting <= 60, through scan, parse_text, "
             "highlight + highlight_check at every byte cursor 0..len+2, sliced evaluation and, when that finished, eval_text "
             "in a second fresh Vm (classes must agree). Judgement: anything but ok/err (or a failed probe) is a violation or "
             "a known finding keyed by (procedure, argument class); impl class vs model class wherever the Store/Num/Lex/Parse "
             "models answer (no-model cases are counted under exploration_only_cases). non-trivial = the call got past the "
             "arity check; distinct by request text",
        trusted_extra=["isolation: a hang is what the 10 s wall-clock limit or the 2,000,000-instruction budget reports; an "
                       "abort is the worker's exit status (address-space limit 3 GiB)",
                       "Store.WF (every reference inside the heap) is a hypothesis of the T06.2 lemmas: an invariant of the VM "
                       "that is not proved here",
                       "translate/builtins.py regenerates Gen.builtins from the Rust sources on every run; names and arity "
                       "windows are compared with the real registry",
                       "error.rs format strings: hash-checked against the hand-written `render` model, not regenerated"])


# ROUND 8 / wave 11: the Ext laws - incl. the two T06.6 laws ExtNoPanic, ExtEnvInv - are theorems for a table of real
# builtins (lib/props/procinv_util.py, Lemmas/ListExtC06.lean)
import procinv_util as _pv8
MODULE = _pv8.listext_module("C06")
THEOREMS = THEOREMS + [t for t in _pv8.LISTEXT_LAWS + _pv8.LISTEXT_LAWS_C06 + _pv8.LISTEXT["C06"] if t not in THEOREMS]
META["note"] = META["note"] + _pv8.LISTEXT_NOTE + _pv8.LISTEXT_NOTE_C06


# wave 12 (work package env-installs): prepare_eval re-establishes EnvInv; the C06 history theorem starts from the
# invariants of the INITIAL state only (Lemmas/CompileEnvmap*.lean, PrepareEnv*.lean, Proofs/C06.lean section FromInitial)
THEOREMS = THEOREMS + [t for t in [
    "Marwood.Vm.EnvCode.append",
    "Marwood.Vm.newEnvmap_childOf",
    "Marwood.Vm.lambdaParts_child",
    "Marwood.Vm.finishLambda_env",
    "Marwood.Vm.envOKF_all",
    "Marwood.Vm.compileTop_envCode",
    "Marwood.Vm.entryLam_envmap",
    "Marwood.Vm.childOf_empty",
    "Marwood.Lemmas.Good.loaded_immTF",
    "Marwood.Lemmas.Good.loaded_sitesFB",
    "Marwood.Lemmas.Good.loaded_envOk",
    "Marwood.Lemmas.Good.compiled_modelEnv",
    "Marwood.Lemmas.Good.LoadedQ.codeOkH",
    "Marwood.Lemmas.Good.Installs.garbage",
    "Marwood.Lemmas.Good.Installs.entry_empty",
    "Marwood.Lemmas.Good.immTF_congr",
    "Marwood.Lemmas.Good.cellTF_congr",
    "Marwood.Lemmas.Good.cput_thp_any",
    "Marwood.Lemmas.Good.instStep_thp",
    "Marwood.Lemmas.Good.CellF.kept",
    "Marwood.Lemmas.Good.cput_kept",
    "Marwood.Lemmas.Good.cput_hf_any",
    "Marwood.Lemmas.Good.instStep_hf",
    "Marwood.Lemmas.Good.instSteps_env",
    "Marwood.Lemmas.Good.envInv_installsGarbage",
    "Marwood.Lemmas.Good.prepare_envInv",
    "Marwood.Lemmas.Good.halt_not_site",
    "Marwood.Lemmas.Good.envInv_runEval",
    "Marwood.Lemmas.Good.history_never_panics_installs_closed",
    "Marwood.Lemmas.Good.immLoadedB_sound",
    "Marwood.Lemmas.Good.envOkB_sound",
    "Marwood.Lemmas.Good.codeOkHB_sound",
    "Marwood.Lemmas.Good.installsB_sound",
    "Marwood.Lemmas.Good.garbageB_sound",
    "Marwood.Lemmas.Good.Demo.demo_installs",
    "Marwood.Lemmas.Good.Demo.demo_prepared_envInv",
    "Marwood.Lemmas.Good.Demo.demo_garbage_envInv",
    "Marwood.Proofs.C06.prepare_envInv",
    "Marwood.Proofs.C06.history_never_panics_from_initial",
    "Marwood.Proofs.C06.history_never_panics_from_initial_listExt",
] if t not in THEOREMS]
META["note"] = META["note"] + (
    " WAVE 12 (T06.6 for whole sessions from the invariants of the INITIAL state only): history_never_panics_machine_closed "
    "asked VmOkP, EnvInv and SizeBounded of EVERY state in which a job starts (HistGoodE), because prepare_eval - compiler "
    "and loader - is outside runHistory; re-establishing EnvInv was the law CompEnvInv. Now a theorem for the loader "
    "relation Installs / InstallsGarbage of wave 11 (Lemmas/PrepareDefs.lean), strengthened IN PLACE with what EnvInv needs: "
    "LoadedLam.envLen (the loaded environment map has the model's length - the order inside the internal / free groups is "
    "HashSet iteration order, the length is not), ImmLoaded (heap-relative, part of LoadedQ e fuel h: the cell loaded for "
    "quoted data does not point to a capturing lambda; the pointer loaded for `lambda id` points to a LOADING of code object "
    "id whose IofEnvironment(k) entries carry the slot EnvironmentMap::new_from_iof computes - slot k of the parent object's "
    "own map holds the same symbol), dataEB (a new pair / vector cell does not point to a capturing lambda), and for garbage "
    "of a rejected form LamEnvOk (the two clauses of EnvInv about a code object, stated directly: no model object to relate "
    "to). (1) COMPILER-MODEL THEOREMS (Lemmas/CompileEnvmap.lean, CompileEnvmap2.lean; induction on the fuel over the six "
    "mutual compiler functions, same case skeleton as blkOK_all): compileTop_envCode - in every code object of compileTop e "
    "fuel (any datum, any fuel) a code-object pointer occurs ONLY as the immediate of MOVIMM (lambda id) acc directly "
    "followed by CLOSURE (EnvCode.lam: no PUSHIMM of a lambda, no MOVIMM of a lambda without the CLOSURE, quoted data are "
    "datum cells), MOVIMM's immediate is quoted data / Void / a code object, PUSHIMM's immediate is an argument count or "
    "quoted data (never an instruction pointer), every site's lambda id is in the table and each IofEnvironment entry of its "
    "map names an entry of the enclosing object's map, each IofArgument n is below its formals (SiteP / ChildOf; "
    "newEnvmap_childOf), and the top-level lambda and the entry lambda have EMPTY maps. (2) LoadedQ.codeOkH "
    "(Lemmas/PrepareEnvCode.lean): for a code object prepare_eval installs for an ACCEPTED form the two environment clauses "
    "(immTF, sitesFB) are CONSEQUENCES of (1) + LoadedLam + ImmLoaded - not part of the relation. The bound `slot < length "
    "of the parent's map` comes from the loader's get_slot clause; ChildOf is its model-level counterpart (why get_slot "
    "finds the symbol). (3) prepare_envInv (Lemmas/PrepareEnv.lean): IdleOk s, EnvInv s, acc not pointing to a capturing "
    "lambda, Installs e fuel s s' entry, Small s'.heap => EnvInv (prepare s' entry); envInv_installsGarbage: the same for "
    "the garbage of a rejected form. Proof: loader steps write no allocated cell (CellsKept), and every clause of Taint.HP "
    "/ HF inspects only cells the collector follows from the cell it is stated of (cellTF_congr, CellF.kept), which are "
    "allocated (HG.closed); instStep_thp / instStep_hf / instSteps_env. envInv_runEval: every evaluation leaves EnvInv and "
    "an acc that does not point to a capturing lambda (halt_not_site: HALT is not the CLOSURE of a site; the error epilogue "
    "wipes acc). (4) history_never_panics_from_initial: for a HistInstalls history (accepted forms: Installs + runEval; "
    "rejected forms: InstallsGarbage + the Err arm's collection) from a state with IdleOk, NPInv, EnvInv (acc not pointing "
    "to a capturing lambda: Undefined in a fresh VM), under the Ext laws (all theorems for listExtWith: "
    "history_never_panics_from_initial_listExt has NO hypothesis about builtins) and the physical bounds RecSized, no "
    "fault of the history is a panic other than apply's list-length guard. NO per-job hypothesis is left (HistGoodE, "
    "CompEnvInv, EnvSlotsAlong gone). Non-vacuity: Demo.demo_prepared_envInv (prepare_envInv on Demo.demo_installs, agreeing "
    "with the kernel-evaluated stateEnvB), a HistInstalls history on the demo machine whose prepare_eval allocated two code "
    "objects, and refused mutants in Lemmas/PrepareEnvDemo.lean. TIE: the relation is checked, not proved, of the Rust "
    "loader - stream prepare-installs of C07 replays every real prepare_eval with the STRONGER executable checker "
    "(installsB / garbageB with loadedB's length clause, immLoadedB, dataEB, envOkB; installsB_sound): all 1326 calls of the "
    "quick tier accepted (2658 over two seeds); 1300 hand-mutated accepted requests (environment map one entry longer / "
    "shorter in a new code object) and 52 with an IofEnvironment slot shifted by 40 are all refused (lambda-envlen / "
    "lambda-imm).")
