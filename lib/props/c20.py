"""C20 — the REPL highlighter marks exactly the matching bracket and nothing else."""
from pipeline import *

META = {
    "text": "Lean 4 theorems, for every text and cursor: the model highlighter returns exactly what the stack-discipline "
            "specification prescribes (partner by forward/backward counting = partner by stack, #( an opener), its "
            "output is the text or the text with one escape pair around one bracket token, slicing never panics, and "
            "highlight_check is true only near a bracket token. The model is tied to syntax.rs/lex.rs by an exhaustive "
            "comparison over all strings of up to 5 (quick) / 6 (thorough) alphabet symbols x every cursor plus random "
            "Unicode texts; the implementation is also compared with the specification directly.",
    "note": "Trusted: Lean kernel; axioms propext, Classical.choice, Quot.sound; the hand-written models Marwood.Lex and "
            "Marwood.Highlight are tied to the Rust code only by the correspondence (differential testing), so a code "
            "path no generated text reaches is covered by the theorem only if the model is faithful there; 'bracket at or "
            "just before the cursor' is read as find_token_at_cursor does (token covering byte i, else byte i-1).",
    "technique": "Lean 4 proof (model = stack-discipline spec, for all texts and cursors) + exhaustive/randomized model-vs-implementation correspondence",
}
MODULE = "Marwood.Proofs.C20"
THEOREMS = [
    "Marwood.Proofs.C20.countScan_forward_eq_partner",
    "Marwood.Proofs.C20.countScan_backward_eq_partner",
    "Marwood.Proofs.C20.findMatchingBracket_eq_partner",
    "Marwood.Proofs.C20.highlight_shape",
    "Marwood.Proofs.C20.highlight_eq_spec",
    "Marwood.Proofs.C20.highlight_no_panic",
    "Marwood.Proofs.C20.highlightCheck_bracket_near",
]


def nontrivial(req, impl):
    # a case is non-trivial when at least one cursor position produced a highlight
    return any(not cell.startswith("=") for cell in impl.split(" ")[1:])


def streams(ctx):
    length = 5 if ctx.quick() else 6
    cases = gen_cases("reader", ["hl-exh", length], ctx.seed)
    md, sd = correspond(ctx, "hl-exhaustive-len%d" % length, cases, nontrivial)
    settle(ctx, md, sd)
    n = 20000 if ctx.quick() else 400000
    cases = gen_cases("reader", ["hl-rand", n], ctx.seed)
    md, sd = correspond(ctx, "hl-random-unicode", cases, nontrivial)
    settle(ctx, md, sd)
    ctx.streams["hl-exhaustive-len%d" % length]["exhaustive"] = True


def run(ctx):
    return standard_run(
        ctx, MODULE, THEOREMS, ["reader"], streams,
        rule="every string of up to L symbols over {( ) [ ] #( \" ; newline space a #\\(} with every "
             "byte cursor 0..len+2 (exhaustive, L=5 quick / 6 thorough) plus random Unicode token soup; "
             "implementation vs Lean model (highlight and highlight_check) and vs the stack-discipline "
             "spec; non-trivial = some cursor yields a highlight; distinct by request text",
        trusted_extra=["lexer model Marwood.Lex (shared with C11) — the theorems are about tokens the "
                       "model scanner produces"])
