"""Shared check pipeline: build, Lean obligations + axiom audit, correspondence diffing,
known-finding matching, evidence and replay writing.  Stdlib only."""
import json, os, re, subprocess, sys, time, hashlib, glob

VERIF = os.path.dirname(os.path.dirname(os.path.abspath(__file__)))
LEAN = os.path.join(VERIF, "lean")
HARNESS = os.environ.get("VERIF_HARNESS", os.path.join(VERIF, "harness"))   # overridden only by tools/mutrun.sh
DRIVER = os.path.join(LEAN, ".lake", "build", "bin", "driver")
REPO = os.environ.get("VERIF_REPO", "/repo")                            # overridden only by tools/mutrun.sh
OUT = os.environ.get("VERIF_OUT", VERIF)                                  # evidence/ and replays/ live here
ALLOWED_AXIOMS = {"propext", "Classical.choice", "Quot.sound"}
ENV = dict(os.environ, CARGO_NET_OFFLINE="true")


class Ctx:
    def __init__(self, prop, tier, seed):
        self.prop, self.tier, self.seed = prop, tier, seed
        self.t0 = time.time()
        self.violations = []      # dicts
        self.known_hits = []      # (finding, case)
        self.broken = []          # broken proofs / correspondences without (yet) a failing input
        self.evaluations = 0
        self.nontrivial = set()
        self.samples = []
        self.obligations = []     # theorem names
        self.discharged = []
        self.axioms = {}
        self.streams = {}         # name -> stats dict
        self.assumptions = []
        self.notes = []
        self.findings = load_findings(prop)

    def quick(self):
        return self.tier == "quick"


def sh(cmd, cwd=None, timeout=None, env=None, input=None):
    return subprocess.run(cmd, cwd=cwd, shell=isinstance(cmd, str), capture_output=True,
                          text=True, timeout=timeout, env=env or ENV, input=input)


# ---------------------------------------------------------------- builds

def build_harness(bins, profile="release"):
    """Rebuild the harness binaries against /repo's working tree (hooks on).
    Returns (ok, log)."""
    args = ["cargo", "build", "--offline"] + (["--release"] if profile == "release" else [])
    for b in bins:
        args += ["--bin", b]
    lock = os.path.join(HARNESS, "Cargo.lock")
    if not os.path.exists(lock):
        sh(["cp", os.path.join(REPO, "Cargo.lock"), lock])
    r = sh(args, cwd=HARNESS)
    return r.returncode == 0, r.stdout + r.stderr


def harness_bin(name, profile="release"):
    return os.path.join(HARNESS, "target", profile, name)


# translator script -> the generated Lean module it maintains
TRANSLATOR_MODULES = {
    "tables.py": "Marwood.Gen.Tables",
    "builtins.py": "Marwood.Gen.Builtins",
    "prelude.py": "Marwood.Gen.Prelude",
    "prelude_procs.py": "Marwood.Gen.PreludeProcs",
}


def run_translators(module=None):
    """Regenerate lean/Marwood/Gen/*.lean from the repository; write only on change. Returns (ok, log).
    All translators run (they are cheap and keep the shared Lean tree current), but a translator that fails is
    a broken tie only for a property whose proof module imports, directly or transitively, the file it
    maintains: with `module` given, failures of the other translators are logged and do not fail the run."""
    tdir = os.path.join(VERIF, "translate")
    needed = set(lean_files_of(module)) if module else None
    logs, ok = [], True
    for script in sorted(glob.glob(os.path.join(tdir, "*.py"))):
        r = sh([sys.executable, script])
        logs.append(r.stdout + r.stderr)
        if r.returncode != 0:
            gen = TRANSLATOR_MODULES.get(os.path.basename(script))
            if needed is None or gen is None or gen in needed:
                ok = False
            else:
                logs.append("(translator %s failed; %s is not imported by %s: not part of this property's tie)"
                            % (os.path.basename(script), gen, module))
    return ok, "\n".join(logs)


def lake_build(targets):
    try:
        r = sh(["lake", "build"] + targets, cwd=LEAN, timeout=2400)
    except subprocess.TimeoutExpired as e:
        sh("pkill -f '[b]in/lean '")
        return False, "error: lake build %s timed out after 2400 s" % " ".join(targets)
    return r.returncode == 0, r.stdout + r.stderr


FORBIDDEN = re.compile(r"\b(sorry|admit|native_decide|bv_decide|implemented_by|unsafe)\b|^axiom |maxHeartbeats 0", re.M)


def strip_comments(src):
    # remove nested /- -/ block comments and -- line comments (string literals with these are
    # not used in proof files)
    out, i, depth = [], 0, 0
    while i < len(src):
        if src.startswith("/-", i):
            depth += 1; i += 2; continue
        if depth and src.startswith("-/", i):
            depth -= 1; i += 2; continue
        if depth:
            i += 1; continue
        if src.startswith("--", i):
            j = src.find("\n", i)
            i = len(src) if j < 0 else j
            continue
        out.append(src[i]); i += 1
    return "".join(out)


def mods(module):
    """a plugin's MODULE is one module name or a list of them (the property's own proof file first, then files of
    corollaries that import several proof files and so cannot be imported by any of them)"""
    return [module] if isinstance(module, str) else list(module)


def lean_files_of(module):
    """transitive local imports of a Marwood module (files under lean/)"""
    seen, todo = [], mods(module)
    while todo:
        m = todo.pop()
        if m in seen:
            continue
        p = os.path.join(LEAN, m.replace(".", "/") + ".lean")
        if not os.path.exists(p):
            continue
        seen.append(m)
        for line in open(p):
            mm = re.match(r"\s*import\s+((?:Marwood|Driver)[\w.]*)", line)
            if mm:
                todo.append(mm.group(1))
    return seen


def check_proofs(ctx, module, theorems):
    """Build `module`, audit axioms of `theorems` (fully qualified names).
    Fills ctx.obligations / discharged; returns list of broken theorem names."""
    ctx.obligations += theorems
    if os.environ.get("VERIF_SKIP_PROOFS"):
        # tools/mutrun.sh only: the Lean tree is shared with work in progress; a seeded-change run then judges the
        # correspondence/oracle side alone with the driver that is already built (never used by a registered check)
        ctx.notes.append("VERIF_SKIP_PROOFS set: proof obligations not rebuilt in this run")
        return [], ""
    ok, log = lake_build(mods(module) + ["driver"])
    broken = []
    if not ok:
        # which theorems are affected? report the module's errors
        errs = [l for l in log.splitlines() if "error" in l][:20]
        ctx.notes.append("lake build failed: " + " | ".join(errs))
        # try to find which theorems still check by building is not possible; all are undischarged
        return list(theorems), log
    # forbidden constructs in any local file the module depends on
    for m in lean_files_of(module):
        src = strip_comments(open(os.path.join(LEAN, m.replace(".", "/") + ".lean")).read())
        hit = FORBIDDEN.search(src)
        if hit:
            ctx.notes.append(f"forbidden construct {hit.group(0)!r} in {m}")
            return list(theorems), log
    audit = "".join("import %s\n" % m for m in mods(module)) + "".join("#print axioms %s\n" % t for t in theorems)
    ap = os.path.join(LEAN, ".lake", "audit_%s.lean" % ctx.prop)
    open(ap, "w").write(audit)
    r = sh(["lake", "env", "lean", ap], cwd=LEAN, timeout=1800)
    out = r.stdout + r.stderr
    # parse: "'Name' depends on axioms: [a, b]" or "'Name' does not depend on any axioms"
    found = {}
    for m in re.finditer(r"'([^']+)' depends on axioms: \[([^\]]*)\]", out, re.S):
        found[m.group(1)] = {a.strip() for a in m.group(2).replace("\n", " ").split(",") if a.strip()}
    for m in re.finditer(r"'([^']+)' does not depend on any axioms", out):
        found[m.group(1)] = set()
    for t in theorems:
        if t not in found:
            broken.append(t)
            ctx.notes.append(f"theorem {t} missing from the built module")
        elif not found[t] <= ALLOWED_AXIOMS:
            broken.append(t)
            ctx.notes.append(f"theorem {t} uses axioms {sorted(found[t] - ALLOWED_AXIOMS)}")
        else:
            ctx.discharged.append(t)
            ctx.axioms[t] = sorted(found[t])
    return broken, log


def leanchecker(module):
    r = sh(["lake", "env", "leanchecker"] + mods(module), cwd=LEAN, timeout=3600)
    return r.returncode == 0, r.stdout + r.stderr


# ---------------------------------------------------------------- correspondence

def driver_batch(requests):
    """Send request lines to the Lean driver, return response lines."""
    if not requests:
        return []
    r = subprocess.run([DRIVER], input="\n".join(requests) + "\n", capture_output=True, text=True)
    out = r.stdout.split("\n")
    if out and out[-1] == "":
        out.pop()
    if len(out) != len(requests):
        raise RuntimeError("driver answered %d lines for %d requests (rc=%s, stderr=%s)" %
                           (len(out), len(requests), r.returncode, r.stderr[:500]))
    return out


def gen_cases(binname, args, seed, profile="release", timeout=3600):
    """Run a harness generator; returns list of (request, impl, specreq or None)."""
    env = dict(ENV, VERIF_SEED=str(seed))
    for attempt in range(30):
        try:
            r = subprocess.run([harness_bin(binname, profile)] + [str(a) for a in args],
                               capture_output=True, text=True, env=env, timeout=timeout)
            break
        except (FileNotFoundError, PermissionError, OSError) as e:
            # the binary is being relinked by a concurrent `cargo build` of the same harness (other checks share
            # the target directory): wait for the linker instead of reporting a broken correspondence
            if attempt == 29 or not isinstance(e, (FileNotFoundError, PermissionError)) and getattr(e, "errno", None) != 26:
                raise
            time.sleep(2)
    if r.returncode != 0:
        raise RuntimeError("harness %s %s failed rc=%s: %s" % (binname, args, r.returncode, r.stderr[:2000]))
    cases = []
    for line in r.stdout.split("\n"):
        if not line:
            continue
        f = line.split("\t")
        cases.append((f[0], f[1] if len(f) > 1 else "", f[2] if len(f) > 2 else None))
    return cases


def gen_cases_sharded(binname, args, seed, shards, profile="release", timeout=3600):
    """Run `shards` copies of a harness generator in parallel with seeds seed, seed+7919, … and
    concatenate their cases (each shard is still replayable from its own seed)."""
    from concurrent.futures import ThreadPoolExecutor
    with ThreadPoolExecutor(max_workers=shards) as ex:
        futs = [ex.submit(gen_cases, binname, args, seed + 7919 * k, profile, timeout) for k in range(shards)]
        out = []
        for f in futs:
            out += f.result()
    return out


def driver_batch_sharded(requests, shards=8):
    """driver_batch over `shards` parallel driver processes (order preserved)."""
    if len(requests) < 2 * shards:
        return driver_batch(requests)
    from concurrent.futures import ThreadPoolExecutor
    n = (len(requests) + shards - 1) // shards
    chunks = [requests[i:i + n] for i in range(0, len(requests), n)]
    with ThreadPoolExecutor(max_workers=shards) as ex:
        parts = list(ex.map(driver_batch, chunks))
    return [r for p in parts for r in p]


def correspond(ctx, stream, cases, nontrivial=None, spec_equal=None, model_equal=None):
    """Diff implementation vs model (correspondence) and implementation vs spec (property
    oracle) on `cases`.  Returns (model_disagreements, spec_disagreements) as lists of dicts."""
    st = ctx.streams.setdefault(stream, {"cases": 0, "model_disagree": 0, "spec_disagree": 0,
                                         "bad_op": 0, "impl_panic": 0, "impl_err": 0})
    # implementation-vs-implementation oracles: `#oracle <label> \t observed \t expected`
    oracle = [c for c in cases if c[0].startswith("#oracle ")]
    cases = [c for c in cases if not c[0].startswith("#oracle ")]
    osd = []
    for req, observed, expected in oracle:
        st["cases"] += 1
        st["oracle_cases"] = st.get("oracle_cases", 0) + 1
        ctx.evaluations += 1
        if not observed.startswith("err"):
            ctx.nontrivial.add(hashlib.blake2b(req.encode(), digest_size=8).digest())
        if observed != (expected or ""):
            st["spec_disagree"] += 1
            osd.append({"stream": stream, "request": req, "impl": observed, "model": None,
                        "spec_request": None, "spec": expected})
    reqs = [c[0] for c in cases]
    model = driver_batch_sharded(reqs)
    spec_idx = [i for i, c in enumerate(cases) if c[2]]
    spec = dict(zip(spec_idx, driver_batch_sharded([cases[i][2] for i in spec_idx])))
    md, sd = [], osd
    for i, (req, impl, sreq) in enumerate(cases):
        st["cases"] += 1
        ctx.evaluations += 1
        if impl.startswith("panic"):
            st["impl_panic"] += 1
        if impl.startswith("err"):
            st["impl_err"] += 1
        if model[i] == "bad-op":
            st["bad_op"] += 1
        nt = nontrivial(req, impl) if nontrivial else not impl.startswith("err")
        if nt:
            ctx.nontrivial.add(hashlib.blake2b(req.encode(), digest_size=8).digest())
        if len(ctx.samples) < 4 and nt and (i % max(1, len(cases) // 4) == 0):
            ctx.samples.append({"stream": stream, "request": req, "impl": impl, "model": model[i]})
        same = model_equal(req, impl, model[i]) if model_equal else (impl == model[i])
        if not same:
            st["model_disagree"] += 1
            md.append({"stream": stream, "request": req, "impl": impl, "model": model[i],
                       "spec_request": sreq, "spec": spec.get(i)})
        if i in spec:
            ok = spec_equal(req, impl, spec[i]) if spec_equal else (impl == spec[i])
            if not ok:
                st["spec_disagree"] += 1
                sd.append({"stream": stream, "request": req, "impl": impl, "model": model[i],
                           "spec_request": sreq, "spec": spec[i]})
    return md, sd


# ---------------------------------------------------------------- findings / verdicts

def load_findings(prop):
    """Known findings live in /verif/known_findings/<ID>.json (one committed file per property,
    never written by a check) plus the index /verif/known_findings.json."""
    out = []
    for p in (os.path.join(VERIF, "known_findings.json"),
              os.path.join(VERIF, "known_findings", prop + ".json")):
        if os.path.exists(p):
            data = json.load(open(p))
            out += [f for f in data.get("findings", []) if f.get("property") == prop]
    return out


PREDICATES = {}


def predicate(name):
    def deco(fn):
        PREDICATES[name] = fn
        return fn
    return deco


def match_finding(ctx, case):
    """Return the known finding (status == 'finding') whose predicate accepts this case."""
    for f in ctx.findings:
        if f.get("status") != "finding":
            continue
        m = f.get("match", {})
        if m.get("stream") and m["stream"] != case.get("stream"):
            continue
        pred = PREDICATES.get(m.get("predicate"))
        if pred and pred(case, m):
            return f
    return None


def report_case(ctx, case, kind="violation"):
    """A concrete failing input: known finding or violation."""
    f = match_finding(ctx, case)
    if f:
        ctx.known_hits.append((f, case))
    else:
        case = dict(case, kind=kind)
        ctx.violations.append(case)


def report_broken(ctx, what, detail):
    ctx.broken.append({"kind": what, "detail": detail})


def write_replay(ctx, payload, tag):
    d = os.path.join(OUT, "replays")
    os.makedirs(d, exist_ok=True)
    p = os.path.join(d, "%s-%s-%s.json" % (ctx.prop, ctx.seed, tag))
    payload = dict(payload, property=ctx.prop, seed=ctx.seed, tier=ctx.tier,
                   how_to_replay="./check replay " + p)
    json.dump(payload, open(p, "w"), indent=1, ensure_ascii=False)
    return p


def finish(ctx, level_rule, checker_cmd, trusted_base, extra=None):
    """Print verdict lines, write evidence, return exit code."""
    rc = 0
    seen = set()
    for f, case in ctx.known_hits:
        if f["id"] in seen:
            continue
        seen.add(f["id"])
        print("KNOWN-FINDING: property=%s %s [%s] e.g. %s" % (ctx.prop, f.get("what_fails", ""), f["id"],
                                                             case.get("request", "")[:120]))
    # listed findings whose witness no longer fails are not printed (nothing to report)
    for k, v in enumerate(ctx.violations[:5]):
        p = write_replay(ctx, v, "v%d" % k)
        print("VIOLATION property=%s replay=%s" % (ctx.prop, p))
        rc = 1
    if not ctx.violations and ctx.broken:
        p = write_replay(ctx, {"kind": "broken", "broken": ctx.broken, "notes": ctx.notes}, "broken")
        print("VIOLATION property=%s replay=%s no-failing-input-found" % (ctx.prop, p))
        rc = 1
    cov = {
        "obligations": len(ctx.obligations),
        "discharged": len(ctx.discharged),
        "checker_cmd": checker_cmd,
        "trusted_base": trusted_base,
        "theorems": ctx.obligations,
        "axioms_per_theorem": ctx.axioms,
        "evaluations": ctx.evaluations,
        "distinct_nontrivial": len(ctx.nontrivial),
        "rule": level_rule,
        "samples": [{k: (v if not isinstance(v, str) or len(v) <= 700 else v[:700] + "…[%d chars]" % len(v))
                     for k, v in s.items()} for s in ctx.samples[:6]] or [{"note": "no correspondence cases in this run"}],
        "streams": ctx.streams,
        "known_findings_hit": sorted(seen),
        "notes": ctx.notes,
    }
    if extra:
        cov.update(extra)
    ev = {
        "property_id": ctx.prop, "tier": ctx.tier, "seed": ctx.seed, "level": "proof",
        "coverage": cov, "assumptions": ctx.assumptions,
        "wall_s": round(time.time() - ctx.t0, 2),
        "violations": len(ctx.violations) + (1 if (ctx.broken and not ctx.violations) else 0),
    }
    os.makedirs(os.path.join(OUT, "evidence"), exist_ok=True)
    json.dump(ev, open(os.path.join(OUT, "evidence", ctx.prop + ".json"), "w"), indent=1,
              ensure_ascii=False)
    print("%s %s: %d obligations, %d discharged, %d cases, %d violations, %d known findings, %.1fs" % (
        ctx.prop, ctx.tier, len(ctx.obligations), len(ctx.discharged), ctx.evaluations,
        len(ctx.violations), len(seen), time.time() - ctx.t0))
    return rc


def standard_run(ctx, module, theorems, bins, streams_fn, rule, trusted_extra=None,
                 profile="release"):
    """The common shape of a property check (DESIGN §3.7)."""
    ok, log = build_harness(bins, profile)
    if not ok:
        report_broken(ctx, "harness-build", log[-3000:])
    tok, tlog = run_translators(module)
    if not tok:
        report_broken(ctx, "translator", tlog[-3000:])
    broken, blog = check_proofs(ctx, module, theorems)
    for t in broken:
        report_broken(ctx, "proof", t)
    if broken and not os.path.exists(DRIVER):
        pass
    if ok and os.path.exists(DRIVER):
        try:
            streams_fn(ctx)
        except Exception as e:  # harness crash, driver desync …
            msg = str(e)
            m = re.match(r"harness (\S+) (\[.*?\]) failed rc=(-\d+): (.*)", msg, re.S)
            if m:
                # the harness process was KILLED (stack overflow, abort, memory watchdog) while the implementation was
                # running inputs of this stream: the library aborted its host. The command reproduces it, so this is a
                # concrete failing input, not only a broken correspondence (never happens on the unchanged tree)
                report_case(ctx, {"stream": "harness-run", "request": "harness %s %s" % (m.group(1), m.group(2)),
                                  "impl": "killed by signal %s: %s" % (m.group(3)[1:], m.group(4)[-600:].strip()),
                                  "model": None, "spec_request": None,
                                  "spec": "the harness completes (the library never aborts or overflows the host)"})
            report_broken(ctx, "correspondence-run", repr(e)[:3000])
    if ctx.tier == "thorough" and not broken:
        lok, llog = leanchecker(module)
        ctx.notes.append("leanchecker %s: %s" % (module, "ok" if lok else "FAILED " + llog[-500:]))
        if not lok:
            report_broken(ctx, "leanchecker", llog[-2000:])
    tb = ["Lean 4 kernel (lake build; leanchecker in the thorough tier)",
          "axioms: " + ", ".join(sorted({a for v in ctx.axioms.values() for a in v}) or ["none"]),
          "hand-written Lean model tied to /repo by the correspondence streams listed under coverage.streams",
          "harness generators and canonicalisers in /verif/harness, pipeline in /verif/lib"]
    tb += trusted_extra or []
    return finish(ctx, rule, "cd /verif/lean && lake build %s && lake env lean .lake/audit_%s.lean" % (" ".join(mods(module)), ctx.prop), tb)


def settle(ctx, md, sd, max_report=3):
    """Turn disagreement lists into verdicts.
    impl != spec            -> concrete failing input of the property (violation / known finding)
    impl == spec != model   -> broken correspondence, no failing input (reported once per stream)"""
    sd_reqs = {c["request"] for c in sd}
    for c in sd[:200]:
        report_case(ctx, c)
    only_model = [c for c in md if c["request"] not in sd_reqs]
    # a model disagreement that a known finding explains is not a broken correspondence
    only_model = [c for c in only_model if not match_finding(ctx, c)]
    if only_model:
        report_broken(ctx, "correspondence", only_model[:max_report])
