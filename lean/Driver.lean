import Driver.Main
