import Marwood.Text
import Marwood.Lex
import Marwood.Highlight
