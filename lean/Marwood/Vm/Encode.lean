import Marwood.Vm.Compile
import Marwood.Vm.Verify
/-!
# Loading the compiler model's symbolic bytecode into machine cells

The compiler model (`Vm/Compile.lean`) emits symbolic cells `BC` (global slots and environment slots by
name, quoted data as data, code objects by table index); the bytecode verifier (`Vm/Verify.lean`) reads
machine cells `VCell`. This file fixes

* `encodeBC` / `encodeLam` — the **canonical loading**: everything the verifier can distinguish is kept
  (opcodes, `acc`, `argc n`, bp offsets, jump targets as `Ptr(offset)`, `Void`), everything it cannot is
  sent to one representative (`GlobalEnvSlot(0)`, `LexicalEnvSlot(0)`, `Ptr(0)` for a pointer to quoted data
  or to a code object);
* `Enc b v` — the **loadings the verifier cannot tell apart from the canonical one**: `v` is a machine cell
  the real loader may put where the model has `b` (any global slot, any environment slot, any pointer to a
  lambda; for quoted data any *data cell* — an immediate such as `#t`, `()`, or a pointer);
* `entryCode` / `entryLam` — the `entry_lambda` of `compile_runnable` (compile.rs:49-55), which the
  compiler model's `compileTop` leaves out: `PUSHIMM argc0; MOVIMM <lambda> acc; CALL; HALT`.

Core Lean only: the driver links this file (`vcompile` answers with `verify (encodeLam ·)`).
-/
namespace Marwood.Vm

open Marwood.Vm.Verify

/-- the canonical loading of one symbolic cell -/
def encodeBC : BC → VCell
  | .op o => .opcode o
  | .acc => .acc
  | .global _ => .globSlot 0
  | .envSlot _ => .lexEnvSlot 0
  | .bpOffset i => .bpOffset i
  | .argc n => .argc n
  | .target o => .ptr o
  | .void => .void
  | .datum _ | .newVector | .lambda _ => .ptr 0

/-- the canonical loading of a code object -/
def encodeLam (l : LambdaM) : List VCell := l.bc.map encodeBC

/-- a cell that can stand for a quoted datum in bytecode: a pointer, or an immediate that mentions no
    address and is none of the structural cells of the bytecode format (opcode, `acc`, `argc`, slots,
    offsets). Every `dataCell` is a value (`isVal`) and is typed `val` by `cellTy`. -/
def dataCell : VCell → Bool
  | .bool _ | .nil | .undefined | .void | .opaque _ | .lambda _ | .continuation _ | .builtin _ | .ptr _ => true
  | _ => false

/-- `v` is a loading of `b` that the verifier cannot tell apart from the canonical one -/
def Enc : BC → VCell → Prop
  | .op o, v => v = .opcode o
  | .acc, v => v = .acc
  | .global _, v => ∃ g, v = .globSlot g
  | .envSlot _, v => ∃ j, v = .lexEnvSlot j
  | .bpOffset i, v => v = .bpOffset i
  | .argc n, v => v = .argc n
  | .target o, v => v = .ptr o
  | .void, v => v = .void
  | .datum _, v => dataCell v = true
  | .newVector, v => dataCell v = true
  | .lambda _, v => ∃ a, v = .ptr a

/-- pointwise `Enc` -/
def EncList : List BC → List VCell → Prop
  | [], [] => True
  | b :: bs, v :: vs => Enc b v ∧ EncList bs vs
  | _, _ => False

theorem enc_encodeBC (b : BC) : Enc b (encodeBC b) := by
  cases b <;> simp [Enc, encodeBC, dataCell]

theorem encList_encode (bs : List BC) : EncList bs (bs.map encodeBC) := by
  induction bs with
  | nil => trivial
  | cons b bs ih => exact ⟨enc_encodeBC b, ih⟩

/-- `entry_lambda` of `compile_runnable`: call the top-level lambda (code object `id`) with no arguments, halt -/
def entryCode (id : Nat) : List BC :=
  [.op .pushImm, .argc 0, .op .movImm, .lambda id, .acc, .op .callAcc, .op .halt]

def entryLam (id : Nat) : LambdaM :=
  { args := [], isVararg := false, envmap := [], bc := entryCode id, topLevel := false }

/-- `compile_runnable`: the code-object table, the top-level lambda and the entry lambda (which refers to
    the top-level lambda by the index it gets when it is put into the table) -/
def compileRunnable (e : Datum) (fuel : Nat) : CM (CState × LambdaM × LambdaM) :=
  match compileTop e fuel with
  | .ok (st, lam) => .ok (st, lam, entryLam st.lambdas.length)
  | .error err => .error err

/-- why the verifier does not accept `l` (canonically loaded) as procedure code, if it does not -/
def procReject (l : LambdaM) : Option Reject :=
  match verify (encodeLam l) with
  | .ok (t, _) => if t.entry then some ⟨0, "not procedure code"⟩ else none
  | .error r => some r

/-- the answer of the driver command `vcompile`: every code object the compiler model produces for `e`
    (the table, the top-level lambda, the entry lambda), canonically loaded, through the verifier;
    procedure code must be recognised as procedure code and entry code as entry code -/
def verifyCompiled (e : Datum) (fuel : Nat) : Except CErr (Except Reject Nat) :=
  match compileRunnable e fuel with
  | .error err => .error err
  | .ok (st, lam, ent) =>
    match (lam :: st.lambdas).findSome? procReject with
    | some r => .ok (.error r)
    | none =>
      match verify (encodeLam ent) with
      | .ok (t, _) => if t.entry then .ok (.ok (st.lambdas.length + 2)) else .ok (.error ⟨0, "not entry code"⟩)
      | .error r => .ok (.error r)

end Marwood.Vm
