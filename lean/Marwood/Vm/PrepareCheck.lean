import Marwood.Vm.ConcreteHeap
import Marwood.Vm.ProcInv
import Marwood.Vm.Encode
import Marwood.Vm.Verify
import Marwood.Vm.NoPanicCheck
import Marwood.Vm.EnvInvCheck
import Marwood.Heap.Cell
import Marwood.Spec.Plain
/-!
# `prepare_eval` on the concrete machine: the executable checker of `Installs` / `InstallsGarbage`

`Lemmas/PrepareDefs.lean` describes what `Vm::prepare_eval` (compiler + loader) does to a state of the concrete
machine as a relation (`InstStep`, `InstSteps`, `Installs`, `InstallsGarbage`). This file is its executable
counterpart: given the complete state BEFORE and AFTER a real `prepare_eval`, `installsB` / `garbageB` decide whether
the pair is related — by *replaying* the allocations in allocator order on the before-heap (`replay`: the next
address is `(calloc h).2`, the content is read off the after-heap, every side condition of `InstStep.cell` /
`InstStep.sym` is evaluated on the heap reached so far), then the new global slots (`globReplay`), then one
`resym` step (`resymB`: everything but the representation of the two hash maps is equal).

Core Lean only (the driver links this file: command `prepcheck`, stream "prepare-installs"). Every function is
structurally recursive; `Lemmas/PrepareCheckSound.lean` proves `installsB … = true → Installs …`.

Definitions that live in `Lemmas/` files are restated here with the same equations (`addrFreeB` = `Sim.addrFree`,
`plainGlobB` = `plainGlob`, `notPtrB` / `opndAllB` = `Good.notPtr` / `Good.opndAll`).
-/
namespace Marwood.Vm.Concrete
open Marwood Marwood.Vm Marwood.Vm.Verify
open Marwood.Heap (GcState crefs)

/-! ## `Enc`, `EncList`, `LoadedLam` -/

def isGlobSlot : VCell → Bool
  | .globSlot _ => true
  | _ => false

def isLexSlot : VCell → Bool
  | .lexEnvSlot _ => true
  | _ => false

/-- decides `Enc` -/
def encB : BC → VCell → Bool
  | .op o, v => decide (v = .opcode o)
  | .acc, v => decide (v = .acc)
  | .global _, v => isGlobSlot v
  | .envSlot _, v => isLexSlot v
  | .bpOffset i, v => decide (v = .bpOffset i)
  | .argc n, v => decide (v = .argc n)
  | .target o, v => decide (v = .ptr o)
  | .void, v => decide (v = .void)
  | .datum _, v => dataCell v
  | .newVector, v => dataCell v
  | .lambda _, v => isPtr v

/-- decides `EncList` -/
def encListB : List BC → List VCell → Bool
  | [], [] => true
  | b :: bs, v :: vs => encB b v && encListB bs vs
  | _, _ => false

/-- the `iof` clause of `LoadedLam` for one entry of the heap object's environment map -/
def iofOkB (m : LambdaM) (y : VCell × Source) : Bool :=
  match y.2 with
  | .iofArg n => m.envmap.any fun x => decide (x.2 = Vm.Source.iofArgument n)
  | _ => true

/-- decides `LoadedLam m cl` -/
def loadedB (m : LambdaM) (cl : CLambda) : Bool :=
  encListB m.bc cl.bc && cl.envmap.all (iofOkB m) && decide (cl.envmap.length = m.envmap.length)

/-! ## the environment clauses of a new cell, relative to the heap it is put into -/

/-- `IofEnvironment(k)` in the map of a child: slot `k` of the parent's map holds the same symbol
    (`EnvironmentMap::new_from_iof`: `k = iof.envmap.get_slot(sym)`) -/
def iofSlotB (parent : List (VCell × Source)) (y : VCell × Source) : Bool :=
  match y.2 with
  | .iofEnv k =>
    (match parent[k]? with
     | some z => decide (z.1 = y.1)
     | none => false)
  | _ => true

/-- the clause of `ImmLoaded` at position `j` -/
def immAtB (tbl : List LambdaM) (h : CHeap) (m : LambdaM) (cl : CLambda) (j : Nat) : Bool :=
  match m.bc[j]?, cl.bc[j]? with
  | some (.datum _), some v => neE h v
  | some .newVector, some v => neE h v
  | some (.lambda id), some (.ptr a) =>
    (match tbl[id]?, lambdaAt h a with
     | some m', some cl' => loadedB m' cl' && cl'.envmap.all (iofSlotB cl.envmap)
     | _, _ => false)
  | _, _ => true

/-- decides `ImmLoaded tbl h m cl` -/
def immLoadedB (tbl : List LambdaM) (h : CHeap) (m : LambdaM) (cl : CLambda) : Bool :=
  (List.range m.bc.length).all (immAtB tbl h m cl)

/-- decides `LamEnvOk h cl` -/
def envOkB (h : CHeap) (cl : CLambda) : Bool := immTF (capAt h) cl.bc && sitesFB h cl

/-- the clause "no value position leads to a capturing lambda" of a new DATA cell (for a code object it follows
    from `Q`) -/
def dataEB (h : CHeap) : CCell → Bool
  | .lambda _ => true
  | c => cellEB h c

/-! ## `NPArgs`, `plainBc`, `LamOk`, `CodeOk`, `LoadedQ` -/

/-- decides `NPArgs` -/
def npArgsB (cl : CLambda) : Bool := lamNPB cl

def plainB (cl : CLambda) : Bool := Marwood.Spec.plainBc 0 (cl.bc.map eraseV)

/-- `Lemmas.Sim.addrFree` -/
def addrFreeB : VCell → Bool
  | .pair _ _ | .closure _ _ | .lexEnvPtr _ _ | .envPtr _ | .instrPtr _ _ | .ptr _ => false
  | _ => true

/-- `plainGlob` of Lemmas/SimErase.lean -/
def plainGlobB (v : VCell) : Bool := isPtr v || addrFreeB v

/-- `Good.notPtr` -/
def notPtrB : VCell → Bool
  | .ptr _ => false
  | _ => true

/-- `Good.opndAll` -/
def opndAllB (P : VCell → Bool) : Option VCell → Bool
  | some v => P v
  | none => true

def notIofB (p : VCell × Source) : Bool :=
  match p.2 with
  | .iofArg _ => false
  | _ => true

/-- no `IofArgument` source -/
def noIofB (cl : CLambda) : Bool := cl.envmap.all notIofB

/-- the MOV / MOVIMM clause of `LamOk` at position `j` -/
def movOkB (bc : List VCell) (j : Nat) : Bool :=
  match bc[j]? with
  | some (.opcode .mov) => opndAllB notPtrB bc[j + 1]? && opndAllB notPtrB bc[j + 2]?
  | some (.opcode .movImm) => opndAllB plainGlobB bc[j + 1]? && opndAllB notPtrB bc[j + 2]?
  | _ => true

/-- decides `LamOk` -/
def lamOkB (cl : CLambda) : Bool :=
  noIofB cl && (List.range cl.bc.length).all (movOkB cl.bc)

/-- decides `CodeOk` -/
def codeOkB (cl : CLambda) : Bool :=
  (verifyLam cl.bc).isSome && noIofB cl && decide (argNeed cl.bc ≤ cl.args.length) && lamOkB cl && npArgsB cl &&
    plainB cl

/-- decides `CodeOkH h cl` -/
def codeOkHB (h : CHeap) (cl : CLambda) : Bool := codeOkB cl && envOkB h cl

/-- decides `LoadedQ e fuel h` when `objs` are the code objects of `compileRunnable e fuel` and `tbl` is the table the
    `lambda id` cells index (`st.lambdas ++ [lam]`) -/
def loadedQB (tbl objs : List LambdaM) (h : CHeap) (cl : CLambda) : Bool :=
  objs.any (fun m => loadedB m cl && immLoadedB tbl h m cl) && npArgsB cl && plainB cl

/-! ## allocator steps -/

/-- `(toHeap h).NonFree y` -/
def nonFreeB (h : CHeap) (y : Nat) : Bool :=
  match h.gc[y]? with
  | some .allocated => true
  | some .used => true
  | _ => false

/-- `NF h y` -/
def nfB (h : CHeap) (y : Nat) : Bool := nonFreeB h y || decide (2 ^ 63 ≤ y)

/-- decides `CRefsOk h c` -/
def crefsOkB (h : CHeap) (c : CCell) : Bool := (crefs true (eraseC c)).all (nfB h)

/-- decides `NewCellOk` -/
def newCellB (Q : CLambda → Bool) : CCell → Bool
  | .val (.pair _ _) => true
  | .val v => addrFreeB v && (symOf v).isNone
  | .vector _ => true
  | .lambda cl => Q cl
  | _ => false

/-- the side conditions of `InstStep.cell` -/
def cellStepB (Q : CHeap → CLambda → Bool) (h : CHeap) (c : CCell) : Bool :=
  newCellB (Q h) c && crefsOkB h c && cellPB h c && dataEB h c

/-- replay `k` allocations in allocator order: the next address is `(calloc h).2`; its content is read off `after` -/
def replay (Q : CHeap → CLambda → Bool) (after : CHeap) : Nat → CHeap → Option CHeap
  | 0, h => some h
  | k + 1, h =>
    match after.cells[(calloc h).2]? with
    | none => none
    | some c =>
      match c with
      | .val v =>
        (match symOf v with
         | some name => if (symLookup h name).isNone then replay Q after k (putNew h v).1 else none
         | none => if cellStepB Q h c then replay Q after k (cput h c).1 else none)
      | c => if cellStepB Q h c then replay Q after k (cput h c).1 else none

/-- one `glob` step -/
def globPush (h : CHeap) (y : Nat) : CHeap :=
  { h with globSyms := y :: h.globSyms, globals := h.globals.push .undefined }

/-- the new global slots, one `glob` step each -/
def globReplay : List Nat → CHeap → Option CHeap
  | [], h => some h
  | y :: ys, h => if nonFreeB h y then globReplay ys (globPush h y) else none

/-- all names of a table -/
def tabNames (tab : List (Text × Nat)) : List Text := tab.map (·.1)

/-- the side conditions of `InstStep.resym` from `h` to `after`: nothing but the representation of the symbol table
    and of the binding keys differs -/
def resymB (h after : CHeap) : Bool :=
  decide (h.chunk = after.chunk) && decide (h.cells = after.cells) && decide (h.gc = after.gc) &&
  decide (h.free = after.free) && decide (h.globals = after.globals) &&
  (tabNames h.symtab ++ tabNames after.symtab).all (fun n => decide (symLookup after n = symLookup h n)) &&
  after.globSyms.all (fun y => h.globSyms.contains y) && h.globSyms.all (fun y => after.globSyms.contains y)

/-- number of cells allocated in `after` that are not allocated in `before` -/
def newCount (before after : CHeap) : Nat :=
  ((List.range after.cells.size).filter fun p => nonFreeB after p && !nonFreeB before p).length

/-- the binding keys of `after` that `before` does not have -/
def newGlobs (before after : CHeap) : List Nat :=
  after.globSyms.filter fun y => !before.globSyms.contains y

/-- decides (soundly) `InstSteps Q before after` -/
def stepsB (Q : CHeap → CLambda → Bool) (before after : CHeap) : Bool :=
  match (replay Q after (newCount before after) before).bind (globReplay (newGlobs before after)) with
  | some h => resymB h after
  | none => false

/-! ## `Installs`, `InstallsGarbage` -/

/-- `s' = { s with heap := s'.heap }` -/
def regsEqB (s s' : St CHeap) : Bool :=
  decide (s'.stack = s.stack) && decide (s'.acc = s.acc) && decide (s'.ep = s.ep) && decide (s'.ipL = s.ipL) &&
  decide (s'.ipO = s.ipO) && decide (s'.bp = s.bp)

/-- the entry cell holds a loading of the entry lambda -/
def entryB (ent : LambdaM) (after : CHeap) (entry : Nat) : Bool :=
  match after.cells[entry]? with
  | some (.lambda cl) => loadedB ent cl
  | _ => false

/-- decides (soundly) `Installs e fuel before after entry` -/
def installsB (e : Datum) (fuel : Nat) (before after : St CHeap) (entry : Nat) : Bool :=
  regsEqB before after &&
  match compileRunnable e fuel with
  | .ok (st, lam, ent) =>
    stepsB (loadedQB (st.lambdas ++ [lam]) (lam :: ent :: st.lambdas)) before.heap after.heap && entryB ent after.heap entry &&
      nonFreeB after.heap entry && !nonFreeB before.heap entry
  | .error _ => false

/-- decides (soundly) `InstallsGarbage before after` -/
def garbageB (before after : St CHeap) : Bool :=
  regsEqB before after && stepsB codeOkHB before.heap after.heap

end Marwood.Vm.Concrete
