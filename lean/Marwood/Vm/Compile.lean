import Marwood.Datum
import Marwood.Vm.Machine
/-!
# Model of the compiler: vm/compile.rs (core forms; macro expansion is a separate phase and is
not modelled here — the correspondence feeds the model what `Vm::transform` returned),
vm/environment.rs (free-symbol analysis, internal definitions, environment maps) and
vm/lambda.rs (binding location).

Symbols are names; a global slot is identified with the symbol bound to it; heap pointers to
quoted data are the data themselves; code objects live in a table (`CState.lambdas`) and are
referenced by index, mirroring lambdas living in heap cells. `HashSet` iteration order (free
symbols, internal definitions) is not modelled: the model uses first-occurrence order and the
correspondence compares environment maps and slot operands *by symbol name*.
-/
namespace Marwood.Vm

open Marwood

inductive CErr
  | unquotedNil | invalidSyntax | invalidUsePrimitive | invalidNumArgs | invalidArgs
  | expectedPair | lambdaMissingExpression | unsupported (what : String)
deriving DecidableEq, Repr, Inhabited

/-- `BindingSource` (the iof slot of `IofEnvironment` is identified by the symbol) -/
inductive Source
  | argument (n : Nat) | internal | iofEnvironment | iofArgument (n : Nat)
deriving DecidableEq, Repr, Inhabited

/-- one bytecode cell -/
inductive BC
  | op (o : Op)
  | acc
  | global (name : Text)            -- GlobalEnvSlot of the slot bound to `name`
  | envSlot (name : Text)           -- LexicalEnvSlot of the slot holding `name`
  | bpOffset (i : Int)
  | argc (n : Nat)
  | target (offset : Nat)           -- jump target (stored as `VCell::Ptr(offset)`)
  | datum (d : Datum)               -- immediate / pointer to quoted data
  | void
  | newVector                       -- (unused since the quasiquoted-vector fix: the code now calls `(vector)`)
  | lambda (id : Nat)               -- pointer to a code object
deriving Repr, Inhabited

structure LambdaM where
  args : List Text
  isVararg : Bool
  envmap : List (Text × Source)
  bc : List BC
  topLevel : Bool
deriving Repr, Inhabited

structure CState where
  lambdas : List LambdaM := []
deriving Repr, Inhabited

def primitiveSymbols : List Text :=
  [['d','e','f','i','n','e'], ['l','a','m','b','d','a'], ['i','f'],
   ['q','u','a','s','i','q','u','o','t','e'], ['q','u','o','t','e'], ['s','e','t','!'],
   ['u','n','q','u','o','t','e']]

def isPrimitive (s : Text) : Bool := primitiveSymbols.contains s

/-- the heads `compile_procedure_application` treats as special forms -/
def specialForms : List Text :=
  [['d','e','f','i','n','e'], ['d','e','f','i','n','e','-','s','y','n','t','a','x'],
   ['l','a','m','b','d','a'], ['λ'], ['q','u','a','s','i','q','u','o','t','e'], ['q','u','o','t','e'],
   ['i','f'], ['s','e','t','!']]

/-- `is_symbol_str`; keywords are written as character lists so that the kernel can evaluate the
    compiler model on concrete programs (string literals do not reduce in the kernel) -/
def _root_.Marwood.Datum.isSymStr (d : Datum) (s : Text) : Bool :=
  match d with
  | .sym n => n == s
  | _ => false

/-- `&Cell` iteration: cars along the spine; an improper tail is yielded as the last item -/
def _root_.Marwood.Datum.iter : Datum → List Datum
  | .pair a d => a :: Datum.iter d
  | .nil => []
  | t => [t]

/-- `is_list` -/
def _root_.Marwood.Datum.isList : Datum → Bool
  | .pair _ d => match d with
    | .nil => true
    | .pair _ _ => Datum.isList d
    | _ => false
  | _ => false

inductive BindingLocation
  | argument (n : Nat) | global | environment (name : Text)
deriving DecidableEq, Repr

/-- `Lambda::binding_location` -/
def LambdaM.bindingLocation (l : LambdaM) (sym : Text) : BindingLocation :=
  if l.envmap.any (·.1 == sym) then .environment sym
  else match l.args.findIdx? (· == sym) with
    | some n => .argument n
    | none => .global

/-! ## environment.rs: free symbols and internal definitions (sets as duplicate-free lists) -/

def insertSet (x : Text) (s : List Text) : List Text := if s.contains x then s else s ++ [x]

mutual
/-- `find_free_symbols` -/
def findFree : Nat → Datum → List Text → List Text → Except CErr (List Text)
  | 0, _, _, _ => .error (.unsupported "fuel")
  | fuel+1, cell, env, free =>
    match cell with
    | .sym s => .ok (if env.contains s then free else insertSet s free)
    | .pair car cdr => findFreeInProc fuel car cdr env free     -- `env.clone()`: changes stay local
    | _ => .ok free

/-- `find_free_symbols_in_proc` -/
def findFreeInProc : Nat → Datum → Datum → List Text → List Text → Except CErr (List Text)
  | 0, _, _, _, _ => .error (.unsupported "fuel")
  | fuel+1, car, cdr, env, free =>
    if car.isSymStr ['q', 'u', 'o', 't', 'e'] then .ok free else
    -- only the unquoted expressions of a quasiquote template are code
    if car.isSymStr ['q', 'u', 'a', 's', 'i', 'q', 'u', 'o', 't', 'e'] then
      (match cdr with
       | .pair template _ => findFreeQuasi fuel template 0 env free
       | _ => .ok free) else
    let free := match car with
      | .sym s => if !isPrimitive s && !env.contains s then insertSet s free else free
      | _ => free
    match (match car with
      | .pair _ _ => findFree fuel car env free
      | _ => .ok free) with
    | .error e => .error e
    | .ok free =>
      -- the part of the form whose elements are scanned, and the extended environment
      let restEnv : Except CErr (Datum × List Text) :=
        if car.isSymStr ['d', 'e', 'f', 'i', 'n', 'e'] then
          match cdr with
          | .pair symOrArgs rest =>
            let env := match symOrArgs with
              | .pair _ params => (Datum.iter params).foldl (fun e p =>
                  match p with | Datum.sym s => insertSet s e | _ => e) env
              | _ => env
            .ok (rest, env)
          | _ => .error .invalidNumArgs
        else if car.isSymStr ['l', 'a', 'm', 'b', 'd', 'a'] then
          match cdr with
          | .pair args rest =>
            -- `while args.is_pair()`: proper part only; a non-symbol parameter is an error
            let rec bind (fuel : Nat) (a : Datum) (e : List Text) : Except CErr (List Text) :=
              match fuel, a with
              | 0, _ => .error (.unsupported "fuel")
              | f+1, .pair (.sym s) d => bind f d (insertSet s e)
              | _+1, .pair _ _ => .error .invalidArgs
              | _+1, _ => .ok e
            match bind fuel args env with
            | .ok env => .ok (rest, env)
            | .error e => .error e
          | _ => .error .invalidNumArgs
        else .ok (cdr, env)
      match restEnv with
      | .error e => .error e
      | .ok (rest, env) => findFreeList fuel rest env free

/-- `find_free_symbols_in_quasiquote`: walks the template as `compile_quasiquote` does; the free
    symbols of an unquote at depth 0 are collected -/
def findFreeQuasi : Nat → Datum → Nat → List Text → List Text → Except CErr (List Text)
  | 0, _, _, _, _ => .error (.unsupported "fuel")
  | fuel+1, cell, depth, env, free =>
    match cell with
    | .vec elems => findFreeQuasiList fuel elems depth env free
    | .pair car cdr =>
      let isUnq := car.isSymStr ['u', 'n', 'q', 'u', 'o', 't', 'e']
      if isUnq && depth == 0 then
        match cdr with
        | .pair x _ => findFree fuel x env free
        | _ => .ok free
      else
        let depth := if isUnq then depth - 1 else depth
        let depth := if car.isSymStr ['q', 'u', 'a', 's', 'i', 'q', 'u', 'o', 't', 'e'] then depth + 1 else depth
        findFreeQuasiList fuel cell depth env free
    | _ => .ok free

/-- the elements of a quasiquoted list (its proper part) or vector -/
def findFreeQuasiList : Nat → Datum → Nat → List Text → List Text → Except CErr (List Text)
  | 0, _, _, _, _ => .error (.unsupported "fuel")
  | fuel+1, rest, depth, env, free =>
    match rest with
    | .pair a d =>
      match findFreeQuasi fuel a depth env free with
      | .ok free => findFreeQuasiList fuel d depth env free
      | .error e => .error e
    | _ => .ok free

/-- the `while rest.is_pair()` loop and the improper tail -/
def findFreeList : Nat → Datum → List Text → List Text → Except CErr (List Text)
  | 0, _, _, _ => .error (.unsupported "fuel")
  | fuel+1, rest, env, free =>
    match rest with
    | .pair a d =>
      match findFree fuel a env free with
      | .ok free => findFreeList fuel d env free
      | .error e => .error e
    | .nil => .ok free
    | t => findFree fuel t env free
end

/-- `free_symbols(expr)` -/
def freeSymbols (expr : Datum) (fuel : Nat) : Except CErr (List Text) := findFree fuel expr [] []

/-- `internally_defined_symbols(body)` -/
def internallyDefined (body : Datum) : Except CErr (List Text) :=
  let rec go (items : List Datum) (beginning : Bool) (acc : List Text) : Except CErr (List Text) :=
    match items with
    | [] => .ok acc
    | e :: rest =>
      match e with
      | .pair car d =>
        if car.isSymStr ['d', 'e', 'f', 'i', 'n', 'e'] then
          if !beginning then .error .invalidSyntax else
          let acc := match d with
            | .pair (.sym s) _ => insertSet s acc
            | .pair (.pair (.sym s) _) _ => insertSet s acc
            | _ => acc
          go rest true acc
        else go rest false acc
      | _ => go rest false acc
  go (Datum.iter body) true []

/-- `EnvironmentMap::new_from_iof` -/
def newEnvmap (args internal free : List Text) (iof : LambdaM) : List (Text × Source) :=
  (args.zipIdx.map fun (a, i) => (a, Source.argument i))
  ++ internal.map (fun s => (s, Source.internal))
  ++ free.filterMap (fun s =>
      if iof.envmap.any (·.1 == s) then some (s, Source.iofEnvironment)
      else match iof.args.findIdx? (· == s) with
        | some n => some (s, Source.iofArgument n)
        | none => none)

/-! ## compile.rs

The compile functions return the code they emit (a list of cells) given `base`, the length of the
bytecode vector at the point of emission — jump targets are absolute offsets, which the Rust code
obtains by patching placeholder operands after the fact (`lambda.bc.len()` at patch time); the
functional formulation computes the same offsets up front. The binding context (`args`, `envmap`)
of the lambda being compiled does not change while its body is compiled. -/

structure Ctx where
  args : List Text
  envmap : List (Text × Source)
deriving Repr, Inhabited

def Ctx.bindingLocation (c : Ctx) (sym : Text) : BindingLocation :=
  if c.envmap.any (·.1 == sym) then .environment sym
  else match c.args.findIdx? (· == sym) with
    | some n => .argument n
    | none => .global

def emitLoc (c : Ctx) (sym : Text) : BC :=
  match c.bindingLocation sym with
  | .global => .global sym
  | .argument n => .bpOffset (-(c.args.length : Int) + n + 1)
  | .environment s => .envSlot s

/-- `compile_formal_arguments` -/
def formalArgs : Nat → Datum → Except CErr (List Text × Bool)
  | 0, _ => .error (.unsupported "fuel")
  | fuel+1, d =>
    match d with
    | .nil => .ok ([], false)
    | .pair (.sym s) rest =>
      if isPrimitive s then .error .invalidUsePrimitive else
      match formalArgs fuel rest with
      | .ok (xs, v) => .ok (s :: xs, v)
      | .error e => .error e
    | .pair _ _ => .error .invalidArgs
    | .sym s => if isPrimitive s then .error .invalidUsePrimitive else .ok ([s], true)
    | _ => .ok ([], false)

abbrev CM := Except CErr

/-- the CONS chain at the end of a quasiquoted list of `count` elements -/
def consChain (count : Nat) : List BC :=
  (List.range count).flatMap fun i =>
    if i < count - 1 then [BC.op .cons, BC.op .pushAcc] else [BC.op .cons]

/-- the non-recursive part of `compile_lambda`: formals, binding context of the new lambda, its
    prologue, and its body -/
structure LambdaParts where
  formals : List Text
  isVararg : Bool
  ctx : Ctx
  prologue : List BC
  body : Datum

def lambdaParts (fuel : Nat) (iof : Ctx) (e : Datum) (isDefine : Bool) : CM LambdaParts :=
  match e with
  | .pair _ rest =>
    if rest.isNil then .error .invalidNumArgs else
    match rest with
    | .pair first body =>
      let formalsAst : CM Datum :=
        if isDefine then (match first with | .pair _ d => .ok d | _ => .error .expectedPair)
        else .ok first
      match formalsAst with
      | .error err => .error err
      | .ok formalsAst =>
      match formalArgs fuel formalsAst with
      | .error err => .error err
      | .ok (formals, isVararg) =>
      match freeSymbols e fuel with
      | .error err => .error err
      | .ok free =>
      match internallyDefined body with
      | .error err => .error err
      | .ok internal =>
        if body.isNil then .error .lambdaMissingExpression else
        .ok { formals, isVararg,
              ctx := { args := formals,
                       envmap := newEnvmap formals internal free ⟨iof.args, false, iof.envmap, [], false⟩ },
              prologue := (if isVararg then [.op .varArg] else []) ++ [.op .enter],
              body }
    | _ => .error .expectedPair
  | _ => .error .expectedPair

/-- register the finished code object and emit `MOV <lambda> %acc; CLOSURE` in the enclosing code -/
def finishLambda (st : CState) (p : LambdaParts) (code : List BC) : CState × List BC :=
  let lam : LambdaM := { args := p.formals, isVararg := p.isVararg, envmap := p.ctx.envmap,
                         bc := p.prologue ++ code ++ [.op .ret], topLevel := false }
  ({ st with lambdas := st.lambdas ++ [lam] }, [.op .movImm, .lambda st.lambdas.length, .acc, .op .closureAcc])

def storeCode (c : Ctx) (s : Text) : List BC :=
  [.op .mov, .acc, emitLoc c s, .op .movImm, .void, .acc]

mutual
/-- `compile_expression` with the special-form compilers inlined (`compile_define`, `compile_set`,
    `compile_lambda`, `compile_if`, `compile_quote`, `compile_runtime_procedure_application`) -/
def compileExpr : Nat → CState → Ctx → Nat → Bool → Datum → CM (CState × List BC)
  | 0, _, _, _, _, _ => .error (.unsupported "fuel")
  | fuel+1, st, c, base, tail, e =>
    match e with
    | .pair proc rest =>
      if proc.isSymStr ['d', 'e', 'f', 'i', 'n', 'e'] then
        -- compile_define
        match rest with
        | .nil => .error .invalidNumArgs
        | .pair target rest2 =>
          if rest2.isNil then .error .invalidNumArgs else
          match rest2 with
          | .pair value rest3 =>
            match target with
            | .sym s =>
              if !rest3.isNil then .error .invalidNumArgs else
              match compileExpr fuel st c base false value with
              | .error err => .error err
              | .ok (st, code) =>
                if isPrimitive s then .error .invalidUsePrimitive else .ok (st, code ++ storeCode c s)
            | .pair name _ =>
              match lambdaParts fuel c e true with
              | .error err => .error err
              | .ok p =>
                match compileBody fuel st p.ctx p.prologue.length p.body with
                | .error err => .error err
                | .ok (st, bcode) =>
                  let (st, code) := finishLambda st p bcode
                  match name with
                  | .sym s =>
                    if isPrimitive s then .error .invalidUsePrimitive else .ok (st, code ++ storeCode c s)
                  | _ => .error (.unsupported "define of a non-symbol (put_cell of a non-symbol)")
            | _ => .error .invalidArgs
          | _ => .error .expectedPair
        | _ => .error .expectedPair
      else if proc.isSymStr ['d', 'e', 'f', 'i', 'n', 'e', '-', 's', 'y', 'n', 't', 'a', 'x'] then .error (.unsupported "define-syntax")
      else if proc.isSymStr ['l', 'a', 'm', 'b', 'd', 'a'] || proc.isSymStr ['λ'] then
        -- compile_lambda
        match lambdaParts fuel c e false with
        | .error err => .error err
        | .ok p =>
          match compileBody fuel st p.ctx p.prologue.length p.body with
          | .error err => .error err
          | .ok (st, bcode) => .ok (finishLambda st p bcode)
      else if proc.isSymStr ['q', 'u', 'a', 's', 'i', 'q', 'u', 'o', 't', 'e'] then
        match rest with
        | .pair x _ => compileQuasi fuel st c base x 0
        | _ => .error .expectedPair
      else if proc.isSymStr ['q', 'u', 'o', 't', 'e'] then
        match rest with
        | .pair x _ => .ok (st, [.op .movImm, .datum x, .acc])
        | _ => .error .expectedPair
      else if proc.isSymStr ['i', 'f'] then
        -- compile_if
        if rest.isNil || !rest.isList then .error .invalidArgs else
        match Datum.iter rest with
        | [test, conseq] =>
          match compileExpr fuel st c base false test with
          | .error err => .error err
          | .ok (st, tcode) =>
            match compileExpr fuel st c (base + tcode.length + 2) tail conseq with
            | .error err => .error err
            | .ok (st, ccode) =>
              let abase := base + tcode.length + 2 + ccode.length + 2
              .ok (st, tcode ++ [.op .jnt, .target abase] ++ ccode
                        ++ [.op .jmp, .target (abase + 3)] ++ [.op .movImm, .void, .acc])
        | [test, conseq, alt] =>
          match compileExpr fuel st c base false test with
          | .error err => .error err
          | .ok (st, tcode) =>
            match compileExpr fuel st c (base + tcode.length + 2) tail conseq with
            | .error err => .error err
            | .ok (st, ccode) =>
              let abase := base + tcode.length + 2 + ccode.length + 2
              match compileExpr fuel st c abase tail alt with
              | .error err => .error err
              | .ok (st, acode) =>
                .ok (st, tcode ++ [.op .jnt, .target abase] ++ ccode
                          ++ [.op .jmp, .target (abase + acode.length)] ++ acode)
        | _ => .error .invalidNumArgs
      else if proc.isSymStr ['s', 'e', 't', '!'] then
        -- compile_set
        match Datum.iter rest with
        | [.sym s, value] =>
          if isPrimitive s then .error .invalidSyntax else
          match compileExpr fuel st c base false value with
          | .error err => .error err
          | .ok (st, code) => .ok (st, code ++ storeCode c s)
        | [_, _] => .error .invalidSyntax
        | _ => .error .invalidNumArgs
      else
        -- compile_runtime_procedure_application: operands left to right, each followed by PUSH;
        -- then the argument count, the operator, and CALL or TCALL
        match compileArgs fuel st c base rest with
        | .error err => .error err
        | .ok (st, code, n) =>
          match compileExpr fuel st c (base + code.length + 2) false proc with
          | .error err => .error err
          | .ok (st, pcode) =>
            .ok (st, code ++ [.op .pushImm, .argc n] ++ pcode
                      ++ [.op (if tail then .tcallAcc else .callAcc)])
    | .sym s =>
      if isPrimitive s then .error .invalidUsePrimitive
      else .ok (st, [.op .mov, emitLoc c s, .acc])
    | .nil => .error .unquotedNil
    | .procedure _ | .void | .undefined | .macro_ | .continuation => .error .invalidSyntax
    | d => .ok (st, [.op .movImm, .datum d, .acc])

def compileArgs : Nat → CState → Ctx → Nat → Datum → CM (CState × List BC × Nat)
  | 0, _, _, _, _ => .error (.unsupported "fuel")
  | fuel+1, st, c, base, rest =>
    match rest with
    | .pair a d =>
      match compileExpr fuel st c base false a with
      | .error err => .error err
      | .ok (st, code) =>
        match compileArgs fuel st c (base + code.length + 1) d with
        | .error err => .error err
        | .ok (st, code2, n) => .ok (st, code ++ [.op .pushAcc] ++ code2, n + 1)
    | _ => .ok (st, [], 0)

/-- the body loop of `compile_lambda`: every expression but the last is compiled with `tail = false` -/
def compileBody : Nat → CState → Ctx → Nat → Datum → CM (CState × List BC)
  | 0, _, _, _, _ => .error (.unsupported "fuel")
  | fuel+1, st, c, base, body =>
    match body with
    | .pair x rest =>
      match compileExpr fuel st c base rest.isNil x with
      | .error err => .error err
      | .ok (st, code) =>
        match compileBody fuel st c (base + code.length) rest with
        | .error err => .error err
        | .ok (st, code2) => .ok (st, code ++ code2)
    | _ => .ok (st, [])

/-- `compile_quasiquote` -/
def compileQuasi : Nat → CState → Ctx → Nat → Datum → Nat → CM (CState × List BC)
  | 0, _, _, _, _, _ => .error (.unsupported "fuel")
  | fuel+1, st, c, base, e, depth =>
    match e with
    | .vec elems =>
      -- every evaluation builds a fresh vector: `(vector)` called through the global binding
      match quasiVec fuel st c (base + 6) elems depth with
      | .error err => .error err
      | .ok (st, code) =>
        .ok (st, [.op .pushImm, .argc 0, .op .mov, .global ['v', 'e', 'c', 't', 'o', 'r'], .acc, .op .callAcc] ++ code)
    | .pair car _ =>
      let isUnq := car.isSymStr ['u', 'n', 'q', 'u', 'o', 't', 'e']
      if isUnq && depth == 0 then
        match e with
        | .pair _ (.pair x _) => compileExpr fuel st c base false x
        | _ => .error .expectedPair
      else
        let depth := if isUnq then depth - 1 else depth
        let depth := if car.isSymStr ['q', 'u', 'a', 's', 'i', 'q', 'u', 'o', 't', 'e'] then depth + 1 else depth
        match quasiList fuel st c base e depth with
        | .error err => .error err
        | .ok (st, code, count, tailD) =>
          .ok (st, code ++ [.op .pushImm, .datum tailD] ++ consChain count)
    | d => .ok (st, [.op .movImm, .datum d, .acc])

def quasiVec : Nat → CState → Ctx → Nat → Datum → Nat → CM (CState × List BC)
  | 0, _, _, _, _, _ => .error (.unsupported "fuel")
  | fuel+1, st, c, base, elems, depth =>
    match elems with
    | .pair x rest =>
      match compileQuasi fuel st c (base + 1) x depth with
      | .error err => .error err
      | .ok (st, code) =>
        match quasiVec fuel st c (base + 1 + code.length + 1) rest depth with
        | .error err => .error err
        | .ok (st, code2) => .ok (st, [.op .pushAcc] ++ code ++ [.op .vpushAcc] ++ code2)
    | _ => .ok (st, [])

def quasiList : Nat → CState → Ctx → Nat → Datum → Nat → CM (CState × List BC × Nat × Datum)
  | 0, _, _, _, _, _ => .error (.unsupported "fuel")
  | fuel+1, st, c, base, rest, depth =>
    match rest with
    | .pair car d =>
      match compileQuasi fuel st c base car depth with
      | .error err => .error err
      | .ok (st, code) =>
        match quasiList fuel st c (base + code.length + 1) d depth with
        | .error err => .error err
        | .ok (st, code2, count, t) => .ok (st, code ++ [.op .pushAcc] ++ code2, count + 1, t)
    | t => .ok (st, [], 0, t)
end

/-- the inner lambda of `compile_runnable`: `ENTER; <expr, tail>; RET` with an empty environment -/
def compileTop (e : Datum) (fuel : Nat) : CM (CState × LambdaM) :=
  match compileExpr fuel {} ⟨[], []⟩ 1 true e with
  | .ok (st, code) =>
    .ok (st, { args := [], isVararg := false, envmap := [], bc := [.op .enter] ++ code ++ [.op .ret],
               topLevel := true })
  | .error err => .error err

end Marwood.Vm
