import Marwood.Vm.PrepareCheck
/-!
# A fast path for `installsB` / `garbageB`

`resymB` compares the symbol tables of the replayed heap and of the after-heap *as lookup functions*: every name of
either table is looked up in both (`symLookup` is a linear search, so the clause is quadratic in the size of the
table — about 70 % of the run time of the driver command `prepcheck`). When the two tables are equal *as lists* the
clause holds trivially. The driver chooses the list representing the real `HashMap` of the after-heap (the snapshots
list it sorted by name) such that it coincides with the table the replay builds — new symbols in allocation order,
newest first, in front of the old table — and evaluates `installsFastB … || installsB …`; by `installsFastB_imp` this
is `installsB …`, so nothing about the checked relation changes and `Lemmas/PrepareCheckSound.lean` is about
`installsB` / `garbageB` only.
-/
namespace Marwood.Vm.Concrete
open Marwood Marwood.Vm

/-- `resymB` with the symbol-table clause replaced by equality of the lists -/
def resymFastB (h after : CHeap) : Bool :=
  decide (h.chunk = after.chunk) && decide (h.cells = after.cells) && decide (h.gc = after.gc) &&
  decide (h.free = after.free) && decide (h.globals = after.globals) &&
  decide (h.symtab = after.symtab) &&
  after.globSyms.all (fun y => h.globSyms.contains y) && h.globSyms.all (fun y => after.globSyms.contains y)

theorem resymFastB_imp {h after : CHeap} (x : resymFastB h after = true) : resymB h after = true := by
  unfold resymFastB at x
  unfold resymB
  simp only [Bool.and_eq_true, decide_eq_true_eq] at x ⊢
  obtain ⟨⟨⟨⟨⟨⟨⟨a, b⟩, c⟩, d⟩, e⟩, f⟩, g⟩, i⟩ := x
  refine ⟨⟨⟨⟨⟨⟨⟨a, b⟩, c⟩, d⟩, e⟩, ?_⟩, g⟩, i⟩
  rw [List.all_eq_true]
  intro n _
  simp [symLookup, f]

def stepsFastB (Q : CHeap → CLambda → Bool) (before after : CHeap) : Bool :=
  match (replay Q after (newCount before after) before).bind (globReplay (newGlobs before after)) with
  | some h => resymFastB h after
  | none => false

theorem stepsFastB_imp {Q : CHeap → CLambda → Bool} {before after : CHeap} (x : stepsFastB Q before after = true) :
    stepsB Q before after = true := by
  unfold stepsFastB at x
  unfold stepsB
  cases hr : (replay Q after (newCount before after) before).bind (globReplay (newGlobs before after)) with
  | none => rw [hr] at x; cases x
  | some h => rw [hr] at x; exact resymFastB_imp x

def installsFastB (e : Datum) (fuel : Nat) (before after : St CHeap) (entry : Nat) : Bool :=
  regsEqB before after &&
  match compileRunnable e fuel with
  | .ok (st, lam, ent) =>
    stepsFastB (loadedQB (st.lambdas ++ [lam]) (lam :: ent :: st.lambdas)) before.heap after.heap && entryB ent after.heap entry &&
      nonFreeB after.heap entry && !nonFreeB before.heap entry
  | .error _ => false

theorem installsFastB_imp {e : Datum} {fuel : Nat} {before after : St CHeap} {entry : Nat}
    (x : installsFastB e fuel before after entry = true) : installsB e fuel before after entry = true := by
  unfold installsFastB at x
  unfold installsB
  rw [Bool.and_eq_true] at x ⊢
  refine ⟨x.1, ?_⟩
  have y := x.2
  cases hc : compileRunnable e fuel with
  | error err => rw [hc] at y; cases y
  | ok r =>
    obtain ⟨st, lam, ent⟩ := r
    rw [hc] at y
    simp only [Bool.and_eq_true] at y ⊢
    exact ⟨⟨⟨stepsFastB_imp y.1.1.1, y.1.1.2⟩, y.1.2⟩, y.2⟩

def garbageFastB (before after : St CHeap) : Bool :=
  regsEqB before after && stepsFastB codeOkHB before.heap after.heap

theorem garbageFastB_imp {before after : St CHeap} (x : garbageFastB before after = true) :
    garbageB before after = true := by
  unfold garbageFastB at x
  unfold garbageB
  rw [Bool.and_eq_true] at x ⊢
  exact ⟨x.1, stepsFastB_imp x.2⟩

/-- what the driver evaluates -/
theorem installsFast_or {e : Datum} {fuel : Nat} {before after : St CHeap} {entry : Nat} :
    (installsFastB e fuel before after entry || installsB e fuel before after entry) =
      installsB e fuel before after entry := by
  cases h : installsFastB e fuel before after entry
  · rfl
  · simp [installsFastB_imp h]

theorem garbageFast_or {before after : St CHeap} :
    (garbageFastB before after || garbageB before after) = garbageB before after := by
  cases h : garbageFastB before after
  · rfl
  · simp [garbageFastB_imp h]

end Marwood.Vm.Concrete
