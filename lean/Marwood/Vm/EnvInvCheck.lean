import Marwood.Vm.ProcInv
import Marwood.Vm.NoPanicCheck
/-!
# The slot clause of T06.6 as an invariant: the executable clauses (`Lemmas/EnvFit*.lean`, `Lemmas/EnvTaint*.lean`)

`EnvSlots` (`Lemmas/NoPanicDefs.lean`) looks at the instruction under `ip`: CLOSURE's `IofEnvironment(k)` entries index the
current environment, ENTER's closure environment has a slot for every entry of the callee's environment map. The
whole-state clauses that make it an invariant come in two groups.

**Fit** (`stateFB`; `Lemmas/EnvFit*.lean`: `FInv`). `fitB h e l`: the lexical environment in cell `e` has a slot for every
entry of the environment map of the lambda in cell `l`. It holds of every closure cell `Closure(l, e)`, of every adjacent
pair `EnvironmentPointer(e), InstructionPointer(l, _)` in the live stack and in the stack copy of every continuation object
(`pairsEB`: the two header cells CALL pushes), of the `(ep, ip.0)` saved in every continuation object, and of the current
`(ep, ip.0)` outside a procedure prologue (`curFitB`: between CALL and the callee's ENTER `ep` is still the caller's; there
`acc` still holds the callee).
`sitesFB`: where a code object `l` has `MOVIMM <Ptr(p)> %acc; CLOSURE`, the `IofEnvironment(k)` sources of the lambda in
cell `p` index `l`'s map (`EnvironmentMap::new_from_iof`).

**No value leads to a capturing lambda** (`stateTB`; `Lemmas/EnvTaint*.lean`: `TInv`). A lambda is *capturing* when its
environment map is not empty (`capAt`). `acc` (unless it is the immediate the `MOVIMM … %acc` before the CLOSURE under `ip`
just loaded: `atSiteB`), the live stack cells, global slots, environment slots, vector elements, car / cdr of pair cells,
`Ptr` cells, the stack copies of continuation objects, the symbol table and every MOVIMM / PUSHIMM immediate that is not
at such a site never hold `Ptr(p)` with `p` a capturing lambda. Hence a bare lambda CALL / TCALL / ENTER dispatch on (the
top-level lambda of `compile_runnable`, the lambda `eval` compiles) has an empty environment map and runs correctly in its
caller's environment, and the lambda CLOSURE closes over is a child of the running code object or captures nothing.

The second group has the shape of `Vm/ProcInv.lean` ("no value leads to entry code") with `capAt` in place of `entryAt`.
-/
namespace Marwood.Vm.Concrete
open Marwood Marwood.Vm

/-! ## no value leads to a capturing lambda -/

/-- heap cell `p` is a lambda with a non-empty environment map -/
def capAt (h : CHeap) (p : Nat) : Bool :=
  match lambdaAt h p with
  | some lam => !lam.envmap.isEmpty
  | none => false

/-- no constraint on the lambda of a closure cell (the counterpart of `procAtB`) -/
def allAtB (_h : CHeap) (_p : Nat) : Bool := true

/-- `MOVIMM _ %acc; CLOSURE` at offset `j` -/
def siteB (bc : List VCell) (j : Nat) : Bool :=
  bc[j]? == some (VCell.opcode .movImm) && bc[j + 2]? == some VCell.acc && bc[j + 3]? == some (VCell.opcode .closureAcc)

/-- the immediates of MOVIMM / PUSHIMM: not a pointer to a capturing lambda, except at `MOVIMM _ %acc; CLOSURE` -/
def immTF (E : Nat → Bool) (bc : List VCell) : Bool :=
  (List.range bc.length).all fun j =>
    match bc[j]? with
    | some (.opcode .pushImm) =>
      (match bc[j + 1]? with
       | some v => neF E v
       | none => true)
    | some (.opcode .movImm) =>
      (match bc[j + 1]? with
       | some v => neF E v || siteB bc j
       | none => true)
    | _ => true

def cellTF (E P : Nat → Bool) : CCell → Bool
  | .val v => valPF E P v
  | .lexEnv ss => ss.all (neF E)
  | .vector es => es.all (neF E)
  | .lambda l => immTF E l.bc
  | .cont c => c.stack.cells.all (neF E)

def neE (h : CHeap) : VCell → Bool := neF (capAt h)
def valEB (h : CHeap) : VCell → Bool := valPF (capAt h) (allAtB h)
def cellEB (h : CHeap) : CCell → Bool := cellTF (capAt h) (allAtB h)

def heapTB (h : CHeap) : Bool :=
  h.cells.all (cellEB h) && h.globals.all (neE h) && h.symtab.all (fun e => !capAt h e.2)

/-- `acc` is the immediate the `MOVIMM … %acc` before the CLOSURE under `ip` loaded -/
def atSiteB (s : St CHeap) : Bool :=
  match lambdaAt s.heap s.ipL with
  | some l => decide (3 ≤ s.ipO) && siteB l.bc (s.ipO - 3) && l.bc[s.ipO - 3 + 1]? == some s.acc
  | none => false

/-- the state part with `acc` constrained unconditionally (the shape of `statePB`) -/
def stateT0B (s : St CHeap) : Bool :=
  heapTB s.heap && neE s.heap s.acc && (s.stack.cells.take (s.stack.sp + 1)).all (neE s.heap)

def stateTB (s : St CHeap) : Bool :=
  heapTB s.heap && (neE s.heap s.acc || atSiteB s) && (s.stack.cells.take (s.stack.sp + 1)).all (neE s.heap)

/-! ## fit -/

/-- the environment in cell `e` has a slot for every entry of the environment map of the lambda in cell `l` -/
def fitB (h : CHeap) (e l : Nat) : Bool :=
  match lambdaAt h l, envAt h e with
  | some lam, some ss => decide (lam.envmap.length ≤ ss.length)
  | _, _ => true

/-- the `IofEnvironment` sources of the lambda `v` points to index a map of `n` entries -/
def childFitB (h : CHeap) (n : Nat) : VCell → Bool
  | .ptr p => (match lambdaAt h p with
    | some lam' => iofEnvFitB lam'.envmap n
    | none => true)
  | _ => true

def notIpB : VCell → Bool
  | .instrPtr _ _ => false
  | _ => true

/-- the children of a code object: the immediates of its `MOVIMM _ %acc; CLOSURE` sites; and no PUSHIMM immediate is
    an `InstructionPointer` (the only `InstructionPointer` cells on the stack are the ones CALL pushes) -/
def sitesFB (h : CHeap) (l : CLambda) : Bool :=
  (List.range l.bc.length).all fun j =>
    (!siteB l.bc j || (match l.bc[j + 1]? with
      | some v => childFitB h l.envmap.length v
      | none => true)) &&
    (match l.bc[j]?, l.bc[j + 1]? with
     | some (.opcode .pushImm), some v => notIpB v
     | _, _ => true)

/-- adjacent `EnvironmentPointer(e), InstructionPointer(l, _)` cells at `i, i + 1 ≤ sp` fit -/
def pairsEB (h : CHeap) (cells : List VCell) (sp : Nat) : Bool :=
  (List.range sp).all fun i =>
    match cells[i]?, cells[i + 1]? with
    | some (.envPtr e), some (.instrPtr l _) => fitB h e l
    | _, _ => true

def cellFB (h : CHeap) : CCell → Bool
  | .val (.closure l e) => fitB h e l
  | .lambda l => sitesFB h l
  | .cont c => pairsEB h c.stack.cells c.stack.sp && fitB h c.ep c.ipL
  | _ => true

def heapFB (h : CHeap) : Bool := h.cells.all (cellFB h)

/-- the verifier's state at `(l, o)` is `pre` (a prologue instruction of procedure code: VARARG / ENTER) -/
def inPreB (h : CHeap) (l o : Nat) : Bool :=
  match lambdaAt h l with
  | some lam =>
    (match Verify.verifyLam lam.bc with
     | some t => !t.entry && decide (Verify.stateAt t.tm o = some .pre)
     | none => false)
  | none => false

/-- the lambda cell CALL / TCALL / ENTER dispatch on when `acc` holds a closure or a bare lambda -/
def calleeLamB (h : CHeap) (acc : VCell) : Option Nat :=
  match callee h acc with
  | .closure lam _ => some lam
  | .lambda => (match acc with | .ptr p => some p | _ => none)
  | _ => none

/-- in a prologue `acc` still holds the callee whose code `ip.0` points to (or `Undefined`: the error reset; ENTER then
    fails); outside the current `(ep, ip.0)` fits -/
def curFitB (s : St CHeap) : Bool :=
  if inPreB s.heap s.ipL s.ipO then decide (s.acc = .undefined) || decide (calleeLamB s.heap s.acc = some s.ipL)
  else fitB s.heap s.ep s.ipL

def stateFB (s : St CHeap) : Bool :=
  heapFB s.heap && pairsEB s.heap s.stack.cells s.stack.sp && curFitB s

/-! ## both -/

def stateEnvB (s : St CHeap) : Bool := stateTB s && stateFB s

/-- first violated clause, for the driver (`syn`: hand-assembled bytecode, the two code clauses are not evaluated) -/
def stateEnvWhy (syn : Bool) (s : St CHeap) : Option String :=
  let h := s.heap
  if !(h.cells.all fun c => match c with | .val _ => cellEB h c | _ => true) then some "env-val-cell" else
  if !(h.cells.all fun c => match c with | .lexEnv _ => cellEB h c | _ => true) then some "env-env-slot" else
  if !(h.cells.all fun c => match c with | .vector _ => cellEB h c | _ => true) then some "env-vector-elem" else
  if !syn && !(h.cells.all fun c => match c with | .lambda _ => cellEB h c | _ => true) then some "env-code-imm" else
  if !(h.cells.all fun c => match c with | .cont _ => cellEB h c | _ => true) then some "env-cont-stack" else
  if !(h.globals.all (neE h)) then some "env-global" else
  if !(h.symtab.all fun e => !capAt h e.2) then some "env-symtab" else
  if !(neE h s.acc || atSiteB s) then some "env-acc" else
  if !(s.stack.cells.take (s.stack.sp + 1)).all (neE h) then some "env-stack" else
  if !(h.cells.all fun c => match c with | .val _ => cellFB h c | _ => true) then some "env-clos-fit" else
  if !syn && !(h.cells.all fun c => match c with | .lambda _ => cellFB h c | _ => true) then some "env-child-fit" else
  if !(h.cells.all fun c => match c with | .cont _ => cellFB h c | _ => true) then some "env-cont-fit" else
  if !pairsEB h s.stack.cells s.stack.sp then some "env-frame-pairs" else
  if !curFitB s then some "env-cur-fit" else
  if !syn && !stateEnvB s then some "env-state" else none

end Marwood.Vm.Concrete
