import Marwood.Vm.Machine
import Marwood.Vm.RunLoop
/-!
# Model of one evaluation: `prepare_eval` + `run_count` with its success and error epilogues
(vm/mod.rs:94-107, run.rs:25-56 after the error-path fix)
-/
namespace Marwood.Vm

def usizeMax : Nat := 18446744073709551615

variable {H : Type}

/-- errors of an evaluation: a returned `Error`, or a Rust panic (process-level failure) -/
inductive Fault
  | err (e : Err)
  | panic (site : String)
deriving Repr

/-- `run_one` as the `step` of the generic loop -/
def vmStep (ops : HeapOps H) (s : St H) : StepRes (St H) Fault :=
  match step ops s with
  | .ok (s', false) => .next s'
  | .ok (s', true) => .halt s'
  | .err e => .fail (.err e) s
  | .panic site => .fail (.panic site) s

/-- The error arm of `run_count` (after the fix): wipe the stack, `sp = 0`, `bp = 0`,
    `ep = usize::MAX`, `acc = Undefined`. The heap — where every completed definition and
    mutation lives — is untouched by the reset (the collection that follows is `gc`, see `runEval`). -/
def onError (s : St H) : St H :=
  { s with stack := { cells := List.replicate s.stack.cells.length .undefined, sp := 0 },
           bp := 0, ep := usizeMax, acc := .undefined }

/-- The success epilogue: `stack.clear()` (contents wiped, `sp` as the final `RET` left it). -/
def onDone (s : St H) : St H := { s with stack := s.stack.clear }

/-- `prepare_eval`: point `ip` at the freshly compiled entry lambda -/
def prepare (s : St H) (entry : Nat) : St H := { s with ipL := entry, ipO := 0 }

inductive EvalRes (H : Type)
  | value (s : St H)             -- Ok(Some(cell)); the value is read off `acc` before `onDone`
  | failed (f : Fault) (s : St H)
  | paused (s : St H)
  | fuel

/-- the collector touches only the heap: true of `run_gc`, which marks and sweeps and reads — never
    writes — the stack and the registers. An explicit hypothesis wherever the state after a
    collection is described. -/
def GcRegs (gc : St H → St H) : Prop :=
  ∀ s, (gc s).stack = s.stack ∧ (gc s).acc = s.acc ∧ (gc s).ep = s.ep ∧ (gc s).bp = s.bp ∧
    (gc s).ipL = s.ipL ∧ (gc s).ipO = s.ipO

/-- one `run_count(count)` call with its epilogues; `gc` is the collector. The error arm ends with
    a collection, like the success arm (run.rs: `self.run_gc()` after the reset): what the failed
    evaluation allocated is garbage. -/
def runEval (ops : HeapOps H) (gc : St H → St H) (count : Option Nat) (fuel : Nat) (s : St H) : EvalRes H :=
  match runLoop ⟨vmStep ops, gc⟩ count fuel 0 s with
  | .done s' => .value (gc (onDone s'))
  | .error f s' => .failed f (gc (onError s'))
  | .paused s' => .paused s'
  | .fuel => .fuel

/-- the stack trace computed at a failure (`StackTrace::new`): the lambdas of the
    `InstructionPointer` cells strictly below `sp`, innermost first -/
def traceFrames (s : St H) : List Nat :=
  ((s.stack.cells.take s.stack.sp).reverse.filterMap fun c =>
    match c with
    | .instrPtr l _ => some l
    | _ => none)

end Marwood.Vm
