import Marwood.Vm.ConcreteHeap
import Marwood.Vm.Verify
/-!
# "No value leads to entry code": the executable clauses

`compile.rs` emits two shapes of code object (`Vm/Verify.lean`): *procedure* code `[VARARG] ENTER … RET` (lambda
bodies, the top-level lambda of `compile_runnable`, the lambda the `eval` builtin compiles) and *entry* code
`PUSHIMM argc0; MOVIMM λ acc; CALL; HALT` (the `entry_lambda` of `compile_runnable`, which `prepare_eval` puts on the
heap and points `ip` at). An entry lambda is only ever referred to by `ip.0` and by saved `InstructionPointer` cells;
CALL / TCALL / ENTER never dispatch on one. That is the reachability fact `CalleeOk` (`Lemmas/ConcreteLawsOps.lean`)
states for one state; here are the two heap-invariant clauses that make it an invariant:

* (a) **every closure cell's lambda is procedure code** (`valPF`, case `closure`);
* (b) **no value points to entry code**: `acc`, the live stack cells, global slots, lexical-environment slots, vector
  elements, the car / cdr of pair cells, the stack copies of continuation objects, the immediates of MOVIMM / PUSHIMM
  in every code object, and the symbol table never hold `Ptr(p)` with `p` an entry-lambda cell (`neF`). A pointer to a
  *procedure*-code lambda is allowed (`compile_lambda` emits `MOVIMM <lambda> %acc; CLOSURE`; `eval` returns one).

The definitions are Boolean so that the driver (`Driver/SimGood.lean`, stream `safe-side-conditions`) evaluates them
on every real state; they are parametric in the two address predicates (`E` = "holds entry code", `P` = "holds
procedure code") so that heaps with the same lambda cells give the same answers by rewriting.
-/
namespace Marwood.Vm.Concrete
open Marwood Marwood.Vm

/-- heap cell `p` is a lambda holding entry code -/
def entryAt (h : CHeap) (p : Nat) : Bool :=
  match lambdaAt h p with
  | some lam => Verify.isEntryCode lam.bc
  | none => false

/-- heap cell `p` is a lambda holding procedure code (= `procAt` of `Lemmas/ConcreteLawsOps.lean`) -/
def procAtB (h : CHeap) (p : Nat) : Bool :=
  match lambdaAt h p with
  | some lam => !Verify.isEntryCode lam.bc
  | none => false

/-- a first-class value does not point to entry code -/
def neF (E : Nat → Bool) : VCell → Bool
  | .ptr p => !E p
  | _ => true

/-- the content of a `val` heap cell (or a value a builtin returns, before `maybe_put` stores it): a pointer, a
    pair's car / cdr do not designate entry code; a closure's lambda is procedure code -/
def valPF (E P : Nat → Bool) : VCell → Bool
  | .ptr p => !E p
  | .pair a d => !E a && !E d
  | .closure l _ => P l
  | _ => true

/-- the immediates of MOVIMM / PUSHIMM -/
def immPF (E : Nat → Bool) (bc : List VCell) : Bool :=
  (List.range bc.length).all fun j =>
    match bc[j]? with
    | some (.opcode .movImm) | some (.opcode .pushImm) =>
      (match bc[j + 1]? with
       | some v => neF E v
       | none => true)
    | _ => true

def cellPF (E P : Nat → Bool) : CCell → Bool
  | .val v => valPF E P v
  | .lexEnv ss => ss.all (neF E)
  | .vector es => es.all (neF E)
  | .lambda l => immPF E l.bc
  | .cont c => c.stack.cells.all (neF E)

def neB (h : CHeap) : VCell → Bool := neF (entryAt h)
def valPB (h : CHeap) : VCell → Bool := valPF (entryAt h) (procAtB h)
def cellPB (h : CHeap) : CCell → Bool := cellPF (entryAt h) (procAtB h)

/-- the heap part: every cell, every global slot, every symbol-table entry -/
def heapPB (h : CHeap) : Bool :=
  h.cells.all (cellPB h) && h.globals.all (neB h) && h.symtab.all (fun e => !entryAt h e.2)

/-- first violated clause of the heap part (for the driver's answer) -/
def heapPWhy (h : CHeap) : Option String :=
  if !(h.cells.all fun c => match c with | .val v => valPB h v | _ => true) then some "proc-val-cell" else
  if !(h.cells.all fun c => match c with | .lexEnv _ => cellPB h c | _ => true) then some "proc-env-slot" else
  if !(h.cells.all fun c => match c with | .vector _ => cellPB h c | _ => true) then some "proc-vector-elem" else
  if !(h.cells.all fun c => match c with | .lambda _ => cellPB h c | _ => true) then some "proc-code-imm" else
  if !(h.cells.all fun c => match c with | .cont _ => cellPB h c | _ => true) then some "proc-cont-stack" else
  if !(h.globals.all (neB h)) then some "proc-global" else
  if !(h.symtab.all fun e => !entryAt h e.2) then some "proc-symtab" else none

/-- the state part: `acc` and the live stack cells `0 ..= sp` -/
def statePB (s : St CHeap) : Bool :=
  heapPB s.heap && neB s.heap s.acc && (s.stack.cells.take (s.stack.sp + 1)).all (neB s.heap)

def statePWhy (s : St CHeap) : Option String :=
  match heapPWhy s.heap with
  | some e => some e
  | none =>
    if !heapPB s.heap then some "proc-heap" else
    if !neB s.heap s.acc then some "proc-acc" else
    if !(s.stack.cells.take (s.stack.sp + 1)).all (neB s.heap) then some "proc-stack" else none

end Marwood.Vm.Concrete
