import Marwood.Vm.ConcreteHeap
/-!
# T06.6 on the concrete machine: the executable clauses

What `step` of the concrete machine needs beyond WF-stack / `GoodI` / `PInv` in order not to panic
(`Lemmas/NoPanic*.lean`), as Boolean functions so that the driver (`Driver/SimGood.lean`, stream
`safe-side-conditions`) evaluates them on every real state:

* `lamNPB` — per lambda object: code that contains VARARG has at least one formal (`args.len() - 1` of VARARG does
  not underflow: `compile_lambda` emits VARARG only for a formal list with a rest parameter), and every
  `BindingSource::Argument(a)` of the environment map has `a ≤ args.len()` (`argc - arg` of ENTER's
  `build_lexical_environment`);
* `contFitsB` — every continuation object's stack copy is no longer than the current stack
  (`restore_continuation`'s `split_at_mut`);
* `envSlotsB` — the slot-index `expect`s of CLOSURE / ENTER at the current instruction: CLOSURE's
  `IofEnvironment(k)` entries index the current environment, ENTER's closure environment has a slot for every
  entry of the lambda's environment map.
-/
namespace Marwood.Vm.Concrete
open Marwood Marwood.Vm

def lamNPB (l : CLambda) : Bool :=
  (!(l.bc.contains (VCell.opcode .varArg)) || decide (1 ≤ l.args.length)) &&
  l.envmap.all fun p => match p.2 with
    | .arg a => decide (a ≤ l.args.length)
    | _ => true

def heapNPB (h : CHeap) : Bool :=
  h.cells.all fun c => match c with
    | .lambda l => lamNPB l
    | _ => true

def contBoundB (n : Nat) (h : CHeap) : Bool :=
  h.cells.all fun c => match c with
    | .cont k => decide (k.stack.cells.length ≤ n)
    | _ => true

def contFitsB (s : St CHeap) : Bool := contBoundB s.stack.cells.length s.heap

def iofEnvFitB (envmap : List (VCell × Source)) (n : Nat) : Bool :=
  envmap.all fun p => match p.2 with
    | .iofEnv k => decide (k < n)
    | _ => true

def envSlotsB (s : St CHeap) : Bool :=
  match lambdaAt s.heap s.ipL with
  | none => true
  | some l =>
    match l.bc[s.ipO]? with
    | some (.opcode .closureAcc) =>
      (match s.acc with
       | .ptr p =>
         (match lambdaAt s.heap p, envAt s.heap s.ep with
          | some lam', some ss => iofEnvFitB lam'.envmap ss.length
          | _, _ => true)
       | _ => true)
    | some (.opcode .enter) =>
      (match callee s.heap s.acc with
       | .closure lam env =>
         (match lambdaAt s.heap lam, envAt s.heap env with
          | some l', some ss => decide (l'.envmap.length ≤ ss.length)
          | _, _ => true)
       | _ => true)
    | _ => true

/-! ## the invariant form of the slot clause (evaluated, not yet proved preserved)

`envSlotsB` looks at the instruction under `ip`. The facts that would make it an invariant, as whole-state clauses:

* `closFitB` — every closure cell `Closure(l, e)`: the environment `e` has a slot for every entry of `l`'s
  environment map (CLOSURE builds it from that map; `set!` through `envPut` keeps the length);
* `childEnvB` — every lambda object `l`, every `MOVIMM <Ptr(p)>` immediate of its code with `p` a lambda object:
  the `IofEnvironment(k)` sources of `p`'s map index `l`'s map (`EnvironmentMap::new_from_iof`);
* `frameEnvB` — every adjacent pair `EnvironmentPointer(e), InstructionPointer(l, _)` in the live stack and in the
  stack copy of every continuation object (the two header cells CALL pushes): `e`, when it is an environment, has a
  slot for every entry of `l`'s map. -/

def closFitB (h : CHeap) : Bool :=
  h.cells.all fun c => match c with
    | .val (.closure l e) =>
      (match lambdaAt h l, envAt h e with
       | some lam, some ss => decide (lam.envmap.length ≤ ss.length)
       | _, _ => true)
    | _ => true

def childEnvB (h : CHeap) : Bool :=
  h.cells.all fun c => match c with
    | .lambda l =>
      (List.range l.bc.length).all fun j =>
        (match l.bc[j]?, l.bc[j + 1]? with
         | some (.opcode .movImm), some (.ptr p) =>
           (match lambdaAt h p with
            | some lam' => iofEnvFitB lam'.envmap l.envmap.length
            | none => true)
         | _, _ => true)
    | _ => true

def framePairsB (h : CHeap) (cells : List VCell) (sp : Nat) : Bool :=
  (List.range sp).all fun i =>
    match cells[i]?, cells[i + 1]? with
    | some (.envPtr e), some (.instrPtr l _) =>
      (match lambdaAt h l, envAt h e with
       | some lam, some ss => decide (lam.envmap.length ≤ ss.length)
       | _, _ => true)
    | _, _ => true

def frameEnvB (s : St CHeap) : Bool :=
  framePairsB s.heap s.stack.cells s.stack.sp &&
  s.heap.cells.all fun c => match c with
    | .cont k => framePairsB s.heap k.stack.cells k.stack.sp
    | _ => true

/-- first violated clause, for the driver -/
def noPanicWhy (s : St CHeap) : Option String :=
  if !heapNPB s.heap then some "np-lambda" else
  if !contFitsB s then some "np-cont-fits" else
  if !envSlotsB s then some "np-env-slots" else
  if !closFitB s.heap then some "np-clos-fit" else
  if !childEnvB s.heap then some "np-child-env" else
  if !frameEnvB s then some "np-frame-env" else none

end Marwood.Vm.Concrete
