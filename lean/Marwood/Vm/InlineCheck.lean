import Marwood.Vm.ConcreteHeap
/-!
# No dereferenced vector in a value position (executable)

`heap.get(ptr)` of a vector cell returns a clone of the `Rc`: an **inline** `VCell::Vector`. The by-value heap
model renders it as the address-free representative `repr (.vector _) = .opaque "v"` (Vm/ConcreteHeap.lean,
modelling decision 3). An inline vector in `%acc`, a stack slot, a global slot, an environment slot, a pair
field or a vector element is *not a root path* for the collector: `run_gc` marks a global slot only when it is
a pointer, and `mark_vcell` of an inline vector marks nothing, so the elements of the vector are reclaimed while
the vector is still in use. Before fix 43d0413 VPUSH left such a value in `%acc`
(`(define v \`#(,(list 1 2)))` … `v` ⇒ `#(#<undefined>)`); since the fix no instruction of compiled code
produces one.

`noInlineVecB` is the executable check of that discipline on a complete machine state. It is evaluated on
every real state of the `safe-side-conditions` stream (clause `inline-vector` of the driver command
`simgood`, Driver/SimGood.lean), and it is the hypothesis under which `Proofs/C03.lean:
vpush_acc_is_pointer` shows that `%acc` after VPUSH is a pointer to an allocated vector cell.
-/
namespace Marwood.Vm.Concrete
open Marwood Marwood.Vm

/-- the representative of a dereferenced `Vector(Rc)` -/
def isInlineVec : VCell → Bool
  | .opaque t => t == "v"
  | _ => false

def cellNoInlineVec : CCell → Bool
  | .val v => !isInlineVec v
  | .lexEnv ss => ss.all fun v => !isInlineVec v
  | .vector es => es.all fun v => !isInlineVec v
  | .lambda _ => true
  | .cont c => c.stack.cells.all fun v => !isInlineVec v

/-- no register, stack slot, global slot or heap cell holds a dereferenced vector -/
def noInlineVecB (s : St CHeap) : Bool :=
  !isInlineVec s.acc && (s.stack.cells.all fun v => !isInlineVec v) &&
  (s.heap.globals.toList.all fun v => !isInlineVec v) && s.heap.cells.toList.all cellNoInlineVec

/-- VPUSH as it was before fix 43d0413 (pinned copy of the old arm of `Machine.step`, after the opcode fetch):
    `%acc` receives the DEREFERENCED vector -/
def stepVpushPinned {H : Type} (ops : HeapOps H) (s : St H) : Outcome (St H × Bool) := do
  let (v, st) ← s.stack.pop
  let h ← ops.vectorPush s.heap (ops.deref s.heap v) s.acc
  .ok ({ s with heap := h, stack := st, acc := ops.deref s.heap v }, false)

end Marwood.Vm.Concrete
