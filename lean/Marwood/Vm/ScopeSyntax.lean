/-!
# The scope-skeleton language (C02)

The probe programs of property C02 are generated from this grammar only: procedures with
fixed and rest parameters, internal definitions at the head of a body, logged variable
references, logged `set!`, calls, `begin`, closure creation in a loop. Both the specification
interpreter (`Marwood.Spec.Scope`) and the model of the compiler's scope analysis
(`Marwood.Vm.Env`) are defined over it; the harness (`harness/src/bin/scope.rs`) renders the same
terms as Scheme text for the real VM.

Rendering (what the real VM is given; `tick rd wr times each` are global helpers defined by the
session prologue, see `scope.rs`):

```
fresh            (tick)                        a fresh integer (global counter)
ref s x          (rd s x)                      logs (s . value of x), returns the value
set s x e        (set! x (wr s e))             logs (s . value of e), returns #<void>
lam ps r ds es   (lambda (ps… . r) (define x e)… es…)
                 a definition with `sugar = true` whose value is a `lam` is rendered
                 (define (x ps… . r) …)
call f as        (f as…)
seq es           (begin es…)                   prelude macro: ((lambda () es…))
loop n f         (times n f)                   calls f n times with a fresh integer, list of results
each l as        (each l (list as…))           applies every element of the list l to as
```
Names are numbers; `0 1 2` are the three names of the property (`a b c`), larger numbers are
auxiliary variables, `Name.tick …` the global helpers (never bound by a generated program).
-/
namespace Marwood.Scope

abbrev Name := Nat

/-- the helper globals appear as free symbols of every lambda whose body mentions them -/
def Name.tick : Name := 1000
def Name.rd : Name := 1001
def Name.wr : Name := 1002
def Name.times : Name := 1003
def Name.each : Name := 1004
def Name.list : Name := 1005

mutual
inductive Expr where
  | fresh
  | ref (site : Nat) (x : Name)
  | set (site : Nat) (x : Name) (e : Expr)
  | lam (ps : List Name) (rest : Option Name) (ds : Defs) (body : Exprs)
  | call (f : Expr) (args : Exprs)
  | seq (es : Exprs)
  | loop (n : Nat) (f : Expr)
  | each (l : Expr) (args : Exprs)
inductive Exprs where
  | nil
  | cons (e : Expr) (es : Exprs)
/-- internal definitions at the head of a body: `(define x e)`, or `(define (x formals) body)`
    when `sugar` is set and `e` is a `lam` -/
inductive Defs where
  | nil
  | cons (x : Name) (sugar : Bool) (e : Expr) (ds : Defs)
end

instance : Inhabited Expr := ⟨.fresh⟩
instance : Inhabited Exprs := ⟨.nil⟩
instance : Inhabited Defs := ⟨.nil⟩

def Exprs.ofList : List Expr → Exprs
  | [] => .nil
  | e :: es => .cons e (Exprs.ofList es)

def Exprs.length : Exprs → Nat
  | .nil => 0
  | .cons _ es => es.length + 1

def Defs.names : Defs → List Name
  | .nil => []
  | .cons x _ _ ds => x :: ds.names

/-- a top-level form: `(define x e)` or an expression -/
inductive Top where
  | define (x : Name) (e : Expr)
  | expr (e : Expr)

abbrev Program := List Top

end Marwood.Scope
