import Marwood.Vm.Machine
import Marwood.Vm.Eval
import Marwood.Heap.Gc
/-!
# The machine's heap interface instantiated over the collector's heap model (T03.5 / T13.3)

`Machine.lean` is generic in the heap (`HeapOps H`); `Heap/{Cell,Heap,Gc}.lean` model the allocator and
the collector over cells rendered *as the marker sees them* (scalars carry no payload). This file
joins the two:

* `CCell` — the content of a heap cell **with** what the machine needs: a flat machine value
  (`Vm.VCell`; scalar payloads are the opaque tags of `Machine.lean`), or one of the four `Rc` payload
  kinds the core instruction set looks into (lexical environment, vector, lambda with its bytecode /
  formals / environment map, continuation), each holding flat machine values.
* `CHeap` — `Marwood.Heap.Heap` with `CCell` contents (chunk size, cells, 2-bit map, free list with
  head = next address, symbol table) plus the global environment (`globenv.bindings` keys and
  `globenv.slots`), which `run_gc` reads as roots and `MOV` reads and writes.
* `eraseC` / `toHeap` / `rootsOf` — the erasure onto the collector's model. The allocator operations are
  re-stated natively (`cgrow`, `calloc`, `cwrite`: same free-list discipline, same growth formula) because
  `Heap.Heap` is not generic in its cell type; the collector is **not** re-stated: `cgc` runs the C03 model
  `Heap.runGc` on the erased heap and copies map / free list / symbol table back (`liftGc`).
* `concreteOps` — `HeapOps CHeap`.

## Decisions and limits (cheapest sound route)

1. *Cell-type bridge*: translation, not generalisation. `Heap.VCell` (nested, payload-free) is what the C03
   proofs are about and is left untouched; `eraseC` maps a `CCell` onto it and `Lemmas/SimErase.lean`
   proves that the addresses the machine-level relation inspects in a cell are among the addresses the
   marker follows in its erasure.
2. *Opaque tags*: the first character of an `opaque` tag is the kind (`n` number, `c` character, `s` string,
   `m` macro, `y` symbol followed by its name); `heap.put` interns `y…` values through the symbol table.
   A tag never mentions a heap address (the assumption of `Machine.lean`).
3. *`Rc` payloads are stored by value in their cell.* Environments are only ever reached through their heap
   index (`ep`, `Closure(_, env)`, `LexicalEnvPtr(env, _)`), lambdas and continuations are immutable, so
   for the core instruction set this is exact **except** where an `Rc` is aliased: `VPUSH` pushes through
   the `Rc` of the vector cell the popped pointer designates — `vectorPush` is therefore a parameter
   (`ExtOps`), like the builtins (`builtinKind`, `builtinEval`) and `eval`'s compiler (`compileEval`); it
   receives the address-free representative of the dereferenced cell, the heap effect is replayed from the
   recorded delta by the driver. Since fix 43d0413 `acc` keeps the popped POINTER (`Machine.step`, arm
   `.vpushAcc`: `acc := v`). Before the fix `acc` received the dereferenced vector — an inline `Vector(Rc)`
   clone, rendered here as the atom `repr (.vector _) = .opaque "v"`, which has no elements: this model
   could not see that such a value is not a root path for the collector (the elements of
   `(define v `#(,(list 1 2)))` were reclaimed), and an instruction storing that inline value back
   (`PUSH acc … CONS` in quasiquoted vector templates, a VARARG rest argument) created a second cell
   sharing the vector in Rust but a cell holding the representative here (bucket `alias` of the
   concrete-heap-step stream, witness corpus/C03/simstep-cons-inline-vector-alias.txt recorded on the
   unrepaired code; the bucket is empty since the fix). The discipline "no dereferenced vector in a value
   position" is the executable check `Vm/InlineCheck.lean: noInlineVecB`, evaluated on every real state
   (clause `inline-vector` of `simgood`); `Proofs/C03.lean: vpush_acc_is_pointer`, `vpush_acc_inline_pinned`.
4. *Total signatures*: `HeapOps.put`, `getAt`, `globGet` … cannot fail, the Rust ones can panic (index out
   of range, `expect`). Those paths return a default here (`Undefined`, no-op); they are unreachable for
   addresses the simulation relation knows about. `heap.get(ptr)` of a payload cell returns the `Rc`
   clone; here it returns an address-free representative (`repr`), which is all the core instructions
   observe of it (kind tests).
-/
namespace Marwood.Vm.Concrete
open Marwood Marwood.Vm
open Marwood.Heap (GcState)

/-- `environment.rs` `BindingSource` -/
inductive Source
  | iofArg (n : Nat) | iofEnv (n : Nat) | global | arg (n : Nat) | internal
deriving DecidableEq, Repr, Inhabited

/-- `lambda.rs` `Lambda`, the parts `run_one` and the marker read -/
structure CLambda where
  bc : List VCell
  args : List VCell
  envmap : List (VCell × Source)
deriving Repr, Inhabited, DecidableEq

inductive CCell
  | val (v : VCell)
  | lexEnv (slots : List VCell)
  | vector (elems : List VCell)
  | lambda (l : CLambda)
  | cont (c : Cont)
deriving Repr, Inhabited, DecidableEq

structure CHeap where
  chunk : Nat
  cells : Array CCell
  gc : Array GcState
  free : List Nat
  symtab : List (Text × Nat)
  globSyms : List Nat
  globals : Array VCell
deriving Repr, Inhabited

/-! ## erasure onto the collector's model -/

def eraseOp : Op → Heap.Op
  | .cons => .cons | .jmp => .jmp | .jnt => .jnt | .mov => .mov | .movImm => .movImmediate
  | .push => .push | .pushAcc => .pushAcc | .pushImm => .pushImmediate | .halt => .halt
  | .vpushAcc => .vpushAcc | .callAcc => .callAcc | .closureAcc => .closureAcc | .enter => .enter
  | .ret => .ret | .tcallAcc => .tcallAcc | .varArg => .varArg

/-- the name of a symbol value -/
def symName? (tag : String) : Option Text :=
  match tag.toList with
  | 'y' :: r => some r
  | _ => none

def atomOfTag (tag : String) : Heap.Atom :=
  match tag.toList with
  | 'n' :: _ => .number
  | 'c' :: _ => .char
  | 'm' :: _ => .macro_
  | _ => .string

def eraseV : VCell → Heap.VCell
  | .bool _ => .atom .bool | .nil => .atom .nil | .undefined => .atom .undefined | .void => .atom .void
  | .opaque tag => match symName? tag with
    | some n => .symbol n
    | none => .atom (atomOfTag tag)
  | .pair a d => .pair a d
  | .closure l e => .closure l e
  | .lambda _ => .atom .builtin | .continuation _ => .atom .builtin | .builtin _ => .atom .builtin
  | .lexEnvSlot _ => .atom .lexSlot
  | .lexEnvPtr e n => .lexEnvPtr e n
  | .acc => .atom .acc | .argc _ => .atom .argc | .basePtr _ => .atom .basePtr
  | .bpOffset _ => .atom .bpOffset
  | .envPtr e => .envPtr e
  | .globSlot _ => .atom .globSlot
  | .instrPtr l o => .ip l o
  | .opcode op => .opcode (eraseOp op)
  | .ptr a => .ptr a

def eraseC : CCell → Heap.VCell
  | .val v => eraseV v
  | .lexEnv ss => .lexEnv (ss.map eraseV)
  | .vector es => .vector (es.map eraseV)
  | .lambda l => .lambda (l.bc.map eraseV) (l.args.map eraseV) (l.envmap.map fun p => eraseV p.1)
  | .cont c => .cont (c.stack.cells.map eraseV) c.ipL c.ep

def toHeap (h : CHeap) : Heap.Heap :=
  { chunk := h.chunk, cells := h.cells.map eraseC, gc := h.gc, free := h.free, symtab := h.symtab }

/-- what `run_gc` reads from the machine (run.rs:482-508) -/
def rootsOf (s : St CHeap) : Heap.Roots :=
  { globalSyms := s.heap.globSyms
    globalSlots := s.heap.globals.toList.map eraseV
    stack := (s.stack.cells.take (s.stack.sp + 1)).map eraseV
    acc := eraseV s.acc
    ipLam := s.ipL
    ep := s.ep }

/-! ## allocator (heap.rs:45-143), total -/

/-- `Heap::grow` (for a heap of whole chunks: exactly `Heap.grow` of the erasure) -/
def cgrow (h : CHeap) : CHeap :=
  let cur := h.cells.size
  let new := Heap.Heap.grownSize h.chunk cur
  { h with cells := h.cells ++ Array.replicate (new - cur) (CCell.val .undefined)
           gc := h.gc ++ Array.replicate (new - cur) GcState.free
           free := (List.range' cur (new - cur)).reverse ++ h.free }

def takeFree (h : CHeap) (p : Nat) (rest : List Nat) : CHeap × Nat :=
  ({ h with free := rest, gc := h.gc.setIfInBounds p .allocated }, p)

/-- `Heap::alloc` -/
def calloc (h : CHeap) : CHeap × Nat :=
  match h.free with
  | p :: rest => takeFree h p rest
  | [] =>
    let g := cgrow h
    match g.free with
    | p :: rest => takeFree g p rest
    | [] => (g, g.cells.size)      -- not reachable for a heap of whole chunks (Rust: unbounded recursion)

def cwrite (h : CHeap) (p : Nat) (c : CCell) : CHeap := { h with cells := h.cells.setIfInBounds p c }

/-- allocate a cell and store `c` in it -/
def cput (h : CHeap) (c : CCell) : CHeap × Nat :=
  let r := calloc h
  (cwrite r.1 r.2 c, r.2)

def symLookup (h : CHeap) (name : Text) : Option Nat := (h.symtab.find? (·.1 = name)).map (·.2)

def symOf : VCell → Option Text
  | .opaque tag => symName? tag
  | _ => none

def isPtr : VCell → Bool
  | .ptr _ => true
  | _ => false

/-- the allocating part of `put` / `maybe_put` -/
def putNew (h : CHeap) (v : VCell) : CHeap × VCell :=
  match symOf v with
  | some name =>
    match symLookup h name with
    | some p => (h, .ptr p)
    | none =>
      let r := cput h (.val v)
      ({ r.1 with symtab := Heap.Heap.symInsert r.1.symtab name r.2 }, .ptr r.2)
  | none =>
    let r := cput h (.val v)
    (r.1, .ptr r.2)

/-- `Heap::put` -/
def putV (h : CHeap) (v : VCell) : CHeap × VCell := if isPtr v then (h, v) else putNew h v

/-- `Number Bool Char Nil Void Undefined` -/
def immediate : VCell → Bool
  | .bool _ | .nil | .void | .undefined => true
  | .opaque tag => match tag.toList with
    | 'n' :: _ => true
    | 'c' :: _ => true
    | _ => false
  | _ => false

/-- `Heap::maybe_put` -/
def maybePutV (h : CHeap) (v : VCell) : CHeap × VCell :=
  if isPtr v || immediate v then (h, v) else putNew h v

/-! ## reads -/

/-- address-free representative of a cell as a machine value (`heap.get`) -/
def repr : CCell → VCell
  | .val v => v
  | .lexEnv _ => .opaque "e"
  | .vector _ => .opaque "v"
  | .lambda _ => .lambda 0
  | .cont _ => .continuation 0

def getAt (h : CHeap) (p : Nat) : VCell :=
  match h.cells[p]? with
  | some c => repr c
  | none => .undefined

def deref (h : CHeap) (v : VCell) : VCell :=
  match v with
  | .ptr p => getAt h p
  | v => v

def lambdaAt (h : CHeap) (l : Nat) : Option CLambda :=
  match h.cells[l]? with
  | some (.lambda lam) => some lam
  | _ => none

def envAt (h : CHeap) (e : Nat) : Option (List VCell) :=
  match h.cells[e]? with
  | some (.lexEnv ss) => some ss
  | _ => none

def calleeOfCell : CCell → Callee
  | .val (.closure l e) => .closure l e
  | .val (.builtin id) => .builtin id
  | .lambda _ => .lambda
  | .cont c => .continuation c
  | _ => .other

/-- `match self.heap.get(&self.acc)` of CALL / TCALL / ENTER -/
def callee (h : CHeap) (v : VCell) : Callee :=
  match v with
  | .ptr p => match h.cells[p]? with
    | some c => calleeOfCell c
    | none => .other
  | .closure l e => .closure l e
  | .builtin id => .builtin id
  | _ => .other

def isProcedure : VCell → Bool
  | .closure _ _ | .lambda _ | .continuation _ | .builtin _ => true
  | _ => false

def envGet (h : CHeap) (e k : Nat) : Option VCell :=
  match envAt h e with
  | some ss => ss[k]?
  | none => none

def envPut (h : CHeap) (e k : Nat) (v : VCell) : Option CHeap :=
  match envAt h e with
  | some ss => if k < ss.length then some (cwrite h e (.lexEnv (ss.set k v))) else none
  | none => none

/-! ## CLOSURE and ENTER (run.rs:510-590) -/

/-- `load_arg(index)` -/
def loadArg (bp : Nat) (st : Stack) (index : Nat) : Outcome VCell := do
  let n ← (do let v ← st.get (bp + 1); asArgc v)
  let base ← usub bp n "load_arg: bp - argc"
  st.get (base + index + 1)

/-- one slot of `build_closure_environment` -/
def closureSlot (h : CHeap) (ep bp : Nat) (st : Stack) : Source → Outcome VCell
  | .iofArg a => loadArg bp st a
  | .iofEnv k =>
    match envAt h ep with
    | none => .err .expectedType
    | some ss =>
      match ss[k]? with
      | none => .panic "slot index out of bounds"
      | some (.lexEnvPtr e n) => .ok (.lexEnvPtr e n)
      | some _ => .ok (.lexEnvPtr ep k)
  | _ => .ok .undefined

def closureSlots (h : CHeap) (ep bp : Nat) (st : Stack) : List (VCell × Source) → Outcome (List VCell)
  | [] => .ok []
  | (_, src) :: rest => do
    let v ← closureSlot h ep bp st src
    let vs ← closureSlots h ep bp st rest
    .ok (v :: vs)

def makeClosure (h : CHeap) (lam ep bp : Nat) (st : Stack) : Outcome (CHeap × VCell) :=
  match lambdaAt h lam with
  | none => .err .expectedType
  | some l => do
    let slots ← closureSlots h ep bp st l.envmap
    let r1 := cput h (.lexEnv slots)
    let r2 := cput r1.1 (.val (.closure lam r1.2))
    .ok (r2.1, .ptr r2.2)

/-- one slot of `build_lexical_environment`: `old` is the closure environment's slot -/
def activationSlot (env bp argc : Nat) (st : Stack) (slot : Nat) (old : VCell) : Source → Outcome VCell
  | .arg a => do
    let d ← usub argc a "enter: argc - arg"
    let base ← usub bp d "enter: bp - (argc - arg)"
    st.get (base + 1)
  | .iofArg _ | .iofEnv _ =>
    match old with
    | .lexEnvPtr _ _ => .ok old
    | _ => .ok (.lexEnvPtr env slot)
  | _ => .ok old

def activationSlots (env bp argc : Nat) (st : Stack) : Nat → List VCell → List (VCell × Source) → Outcome (List VCell)
  | _, olds, [] => .ok olds
  | _, [], _ :: _ => .panic "slot index out of bounds"
  | slot, old :: olds, (_, src) :: rest => do
    let v ← activationSlot env bp argc st slot old src
    let vs ← activationSlots env bp argc st (slot + 1) olds rest
    .ok (v :: vs)

def makeActivation (h : CHeap) (lam env bp : Nat) (st : Stack) : Outcome (CHeap × Nat) :=
  match lambdaAt h lam with
  | none => .err .expectedType
  | some l =>
    match envAt h env with
    | none => .err .expectedType
    | some olds => do
      let slots ← activationSlots env bp l.args.length st 0 olds l.envmap
      let r := cput h (.lexEnv slots)
      .ok r

/-! ## the instantiation -/

/-- what is **not** modelled: the builtin procedures, `eval`'s compiler, and `VPUSH`'s push through an
    aliased `Rc`. Their simulation law is `Lemmas/SimDefs.ExtLaws`. -/
structure ExtOps where
  builtinKind : CHeap → Nat → BuiltinKind
  builtinEval : CHeap → Nat → List VCell → Outcome (CHeap × VCell)
  compileEval : CHeap → VCell → Outcome (CHeap × VCell)
  vectorPush : CHeap → VCell → VCell → Outcome CHeap

def concreteOps (ext : ExtOps) : HeapOps CHeap where
  fetch h l o := match lambdaAt h l with
    | some lam => lam.bc[o]?
    | none => none
  isLambda h l := (lambdaAt h l).isSome
  callee := callee
  lambdaInfo h l := (lambdaAt h l).map fun lam => ⟨lam.args.length⟩
  deref := deref
  getAt := getAt
  setAt h p v := cwrite h p (.val v)
  put := putV
  maybePut := maybePutV
  newCont h c := let r := cput h (.cont c); (r.1, .ptr r.2)
  globGet h n := h.globals[n]?.getD .undefined
  globPut h n v := { h with globals := h.globals.setIfInBounds n v }
  envGet := envGet
  envPut := envPut
  makeClosure := makeClosure
  makeActivation := makeActivation
  vectorPush := ext.vectorPush
  builtinKind := ext.builtinKind
  builtinEval := ext.builtinEval
  compileEval := ext.compileEval
  isProcedure _ v := isProcedure v

/-! ## the collector: `Heap.runGc` of the C03 model, through the erasure -/

/-- copy the collector's result back: map, free list and symbol table are the model's; a cell the
    collector freed becomes `Undefined` (`Heap::free`), a cell it added is `Undefined` (`Heap::grow`), every
    other cell keeps its content -/
def liftGc (h : CHeap) (h' : Heap.Heap) : CHeap :=
  { h with
    gc := h'.gc, free := h'.free, symtab := h'.symtab
    cells := Array.ofFn (n := h'.cells.size) fun i =>
      if h'.gc[i.val]? = some GcState.free then CCell.val .undefined
      else (h.cells[i.val]?).getD (CCell.val .undefined) }

/-- `Vm::run_gc` (repaired marker); `force` is the verification hook that bypasses the utilisation test.
    A Rust panic inside the collector (`used_size` underflow on a corrupt free list) is not representable
    in `Machine.gc : S → S`; the state is then returned unchanged (excluded by the heap invariant). -/
def cgc (force : Bool) (s : St CHeap) : St CHeap :=
  match Heap.Heap.runGc true force (toHeap s.heap) (rootsOf s) with
  | .ok (.collected h') => { s with heap := liftGc s.heap h' }
  | _ => s

theorem cgc_regs (force : Bool) : GcRegs (cgc force) := by
  intro s
  unfold cgc
  split <;> simp

/-- the concrete machine: `run_one` over `concreteOps`, `run_gc` = `cgc` -/
def machine (ext : ExtOps) (force : Bool) : Machine (St CHeap) Fault :=
  ⟨vmStep (concreteOps ext), cgc force⟩

end Marwood.Vm.Concrete
