/-!
# Model of `Vm::run_count` / `Vm::run` (run.rs:25-56, after the budget fix)

The loop is modelled once, generically in the machine (`step` = `run_one`, `gc` = `run_gc`), so
that the theorems about slicing (C13), about collection placement (C03) and about the error path
(C07) are statements about this loop for *every* instruction semantics — including the real one.
`fuel` bounds the number of instructions examined (the real loop may not terminate).
-/
namespace Marwood.Vm

/-- result of `run_one` -/
inductive StepRes (S E : Type)
  | next (s : S)            -- Ok(false)
  | halt (s : S)            -- Ok(true)
  | fail (e : E) (s : S)    -- Err(e); `s` is the state at the failing instruction
deriving Repr

structure Machine (S E : Type) where
  step : S → StepRes S E
  /-- `run_gc` (includes its own utilisation test) -/
  gc : S → S

/-- result of `run_count` before the success / error epilogues -/
inductive Res (S E : Type)
  | paused (s : S)          -- Ok(None): budget reached, `s` is after the budget-stop collection
  | done (s : S)            -- HALT reached; `s` is the state at HALT
  | error (e : E) (s : S)
  | fuel                    -- model artefact: more than `fuel` instructions
deriving Repr

/-- the `loop { … }` of `run_count`: `cycles` is the value of the counter before this iteration's
    increment; `count = none` models `usize::MAX` (and `0`, which the counter never equals). -/
def runLoop {S E : Type} (m : Machine S E) (count : Option Nat) : Nat → Nat → S → Res S E
  | 0, _, _ => .fuel
  | f+1, cycles, s =>
    let cycles := cycles + 1
    let s := if cycles % 8192 = 0 then m.gc s else s
    match m.step s with
    | .halt s' => .done s'
    | .fail e s' => .error e s'
    | .next s' =>
      if count = some cycles then .paused (m.gc s') else runLoop m count f cycles s'

/-- `run_count(count)` with `count ≥ 1`: the loop stops at the latest when the counter reaches
    `count`, so `count` iterations of fuel always suffice (`runCount_ne_fuel`). -/
def runCount {S E : Type} (m : Machine S E) (count : Nat) (s : S) : Res S E :=
  runLoop m (some count) count 0 s

/-- `run()` = `run_count(usize::MAX)` -/
def run {S E : Type} (m : Machine S E) (fuel : Nat) (s : S) : Res S E :=
  runLoop m none fuel 0 s

/-- resume repeatedly with the given budgets (the wasm front end's loop); stops at the first
    slice that does not pause. -/
def runSliced {S E : Type} (m : Machine S E) : List Nat → S → Res S E
  | [], s => .paused s
  | b :: bs, s =>
    match runCount m b s with
    | .paused s' => runSliced m bs s'
    | r => r

/-- collection-free reference semantics: execute at most `n` instructions -/
def pureN {S E : Type} (m : Machine S E) : Nat → S → Res S E
  | 0, s => .paused s
  | n+1, s =>
    match m.step s with
    | .halt s' => .done s'
    | .fail e s' => .error e s'
    | .next s' => pureN m n s'

end Marwood.Vm
