import Marwood.Vm.ConcreteHeap
/-!
# `listExt`: REAL builtin procedures as the `ExtOps` parameter of the concrete machine

`Vm/ConcreteHeap.lean` leaves the generic Rust builtins (`ExtOps.builtinEval`), `eval`'s compiler and VPUSH as
parameters; every machine-level theorem (C03 / C13 / C07 / C04 / C05 / C12 / C18) assumes law structures about
them (`ExtLaws`, `ExtGood`, `ExtCodeLawsV`, `ExtProc`, `ExtCodePlain`, `ExtAllocOnly`), and the only instance
proved so far was the degenerate `failingExt` (every builtin fails). This file models a table of the core
builtins over `CHeap` **as the Rust code does** (`/repo/marwood/src/vm/builtin/{list,predicate}.rs`,
`vm/compare.rs`), so that the theorems can be instantiated at programs that really `cons`, `car` and `set-car!`.

## ids
`id % 4` is the kind (0 generic, 1 `apply`, 2 `eval`, 3 `call/cc`: the convention of `Driver/SimStep.lean`,
`X<id>`); a generic id `4 * k` designates entry `k` of the table below (`primOf`); every other generic id fails
with `Err.builtin "unsupported"` exactly like `failingExt`. `apply` and `call/cc` are modelled by `Machine.lean`
itself; `eval`'s compiler and VPUSH's vector push fail as in `failingExt`.

## arguments
`builtinGeneric` pops `argc` and then `argc` cells, top of the stack first: for `(f a b)` the list is `[b, a]`.
The Rust procedures call `pop_argc(vm, n, Some(n), …)` first (`InvalidNumArgs`) and then pop in that order.

## what is NOT modelled, and why
* scalar payloads are opaque tags in the machine model (`VCell.opaque`): `eq?` / `eqv?` on two numbers or two
  strings compare PAYLOADS in Rust (`Number::eq` equates `2` and `2.0` and distinguishes `NaN` from itself; strings
  compare by content). That comparison is the parameter `eqTag` (any function on tags: the laws hold for every
  one); `listExt` fixes it to tag equality. Characters and symbols compare by tag (the tag *is* the payload).
* `vector-ref` / `vector-length` / `list-ref` / `list-tail` need an index or produce a number: number payloads are
  opaque, so they are left out (they fail like in `failingExt`). `list` is not a Rust builtin (the prelude defines
  it with a rest argument: VARARG, modelled in `Machine.lean`).
* `set-car!` / `set-cdr!`: Rust allocates the new element (`heap.put`) and THEN reads the pair cell; the model reads
  the pair cell first. The two orders agree whenever the pair's cell is not on the free list
  (`Lemmas/ListExtGood.lean: setPair_read_order`, `evalSetPair_eq_rust`); reading first is what makes the simulation law provable at the
  boundary `cells.size = 2^63` (a sentinel address could become a real cell of the grown heap on one side only).
-/
namespace Marwood.Vm.Concrete
open Marwood Marwood.Vm

namespace ListExt

/-- the type and shape predicates of `builtin/predicate.rs` that look at the dereferenced argument only -/
inductive Pred
  | isNull | isPair | not_ | isBoolean | isChar | isString | isSymbol | isNumber | isVector | isProcedure
deriving DecidableEq, Repr

/-- the table -/
inductive Prim
  | car | cdr | cons | setCar | setCdr | eq
  | pred (p : Pred)
deriving DecidableEq, Repr

def kindOfId (id : Nat) : BuiltinKind :=
  match id % 4 with
  | 1 => .apply | 2 => .eval | 3 => .callcc | _ => .generic

/-- table index of a generic id (`id = 4 * k`) -/
def primOfIdx : Nat → Option Prim
  | 1 => some .car
  | 2 => some .cdr
  | 3 => some .cons
  | 4 => some .setCar
  | 5 => some .setCdr
  | 6 => some (.pred .isNull)
  | 7 => some (.pred .isPair)
  | 8 => some .eq                    -- `eq?`
  | 9 => some (.pred .not_)
  | 10 => some .eq                   -- `eqv?` (the same Rust function `Vm::eqv`)
  | 11 => some (.pred .isBoolean)
  | 12 => some (.pred .isChar)
  | 13 => some (.pred .isString)
  | 14 => some (.pred .isSymbol)
  | 15 => some (.pred .isNumber)
  | 16 => some (.pred .isVector)
  | 17 => some (.pred .isProcedure)
  | _ => none

def primOf (id : Nat) : Option Prim := if id % 4 = 0 then primOfIdx (id / 4) else none

/-- builtin ids by name (for hand-assembled programs and the driver) -/
def idCar : Nat := 4
def idCdr : Nat := 8
def idCons : Nat := 12
def idSetCar : Nat := 16
def idSetCdr : Nat := 20
def idNull : Nat := 24
def idPair : Nat := 28
def idEq : Nat := 32
def idNot : Nat := 36
def idEqv : Nat := 40

/-- first character of an opaque tag: the kind (`n c s m y`, `e` / `v` for the representative of a payload cell) -/
def tagKind (t : String) : Option Char := t.toList.head?

def Pred.test : Pred → VCell → Bool
  | .isNull, .nil => true
  | .isNull, _ => false
  | .isPair, .pair _ _ => true
  | .isPair, _ => false
  | .not_, .bool b => !b
  | .not_, _ => false
  | .isBoolean, .bool _ => true
  | .isBoolean, _ => false
  | .isChar, .opaque t => tagKind t == some 'c'
  | .isChar, _ => false
  | .isString, .opaque t => tagKind t == some 's'
  | .isString, _ => false
  | .isSymbol, .opaque t => tagKind t == some 'y'
  | .isSymbol, _ => false
  | .isNumber, .opaque t => tagKind t == some 'n'
  | .isNumber, _ => false
  | .isVector, .opaque t => tagKind t == some 'v'
  | .isVector, _ => false
  | .isProcedure, v => Concrete.isProcedure v

/-- `(Number, Number)`, `(Char, Char)`, `(Symbol, Symbol)`, `(String, String)` of `Vm::eqv`; every other pair of
    scalar kinds (and vectors, macros, environments) is `false` -/
def scalarEq (eqTag : String → String → Bool) (t1 t2 : String) : Bool :=
  match tagKind t1, tagKind t2 with
  | some 'n', some 'n' => eqTag t1 t2
  | some 's', some 's' => eqTag t1 t2
  | some 'c', some 'c' => t1 == t2
  | some 'y', some 'y' => t1 == t2
  | _, _ => false

/-- the `match (left, right)` of `Vm::eqv` on the dereferenced operands -/
def eqvVal (eqTag : String → String → Bool) (l r : VCell) : Bool :=
  match l with
  | .bool a => (match r with | .bool b => a == b | _ => false)
  | .nil => (match r with | .nil => true | _ => false)
  | .pair a d => (match r with | .pair a' d' => a == a' && d == d' | _ => false)
  | .opaque t1 => (match r with | .opaque t2 => scalarEq eqTag t1 t2 | _ => false)
  | _ => false

def samePtr (l r : VCell) : Bool :=
  match l with
  | .ptr a => (match r with | .ptr b => a == b | _ => false)
  | _ => false

/-- `Vm::eqv` (compare.rs:27-53) -/
def eqvC (eqTag : String → String → Bool) (h : CHeap) (l r : VCell) : Bool :=
  samePtr l r || eqvVal eqTag (deref h l) (deref h r)

/-- `car` / `cdr` (list.rs:19-33) -/
def evalCar (first : Bool) (h : CHeap) (x : VCell) : Outcome (CHeap × VCell) :=
  match deref h x with
  | .pair a d => .ok (h, .ptr (if first then a else d))
  | _ => .err (.builtin "ExpectedPairButFound")

/-- `cons` (list.rs:35-40): the result is an inline `Pair`; `runBuiltin`'s `maybe_put` allocates its cell -/
def evalCons (h : CHeap) (d a : VCell) : Outcome (CHeap × VCell) := do
  let r1 := putV h d
  let dp ← asPtr r1.2
  let r2 := putV r1.1 a
  let ap ← asPtr r2.2
  .ok (r2.1, .pair ap dp)

/-- `set-car!` / `set-cdr!` (list.rs:42-68) -/
def evalSetPair (first : Bool) (h : CHeap) (obj pair : VCell) : Outcome (CHeap × VCell) :=
  let old := deref h pair
  let r := putV h obj
  match old with
  | .pair a d => do
    let o ← asPtr r.2
    let p ← asPtr pair
    .ok (cwrite r.1 p (.val (if first then .pair o d else .pair a o)), .void)
  | _ => .err .invalidSyntax

/-- the same with the reads in Rust's order (the pair cell is read AFTER `heap.put(obj)`); equal to `evalSetPair` on
    every heap satisfying the invariant (`Lemmas/ListExtGood.lean: evalSetPair_eq_rust`) -/
def evalSetPairRust (first : Bool) (h : CHeap) (obj pair : VCell) : Outcome (CHeap × VCell) :=
  let r := putV h obj
  match deref r.1 pair with
  | .pair a d => do
    let o ← asPtr r.2
    let p ← asPtr pair
    .ok (cwrite r.1 p (.val (if first then .pair o d else .pair a o)), .void)
  | _ => .err .invalidSyntax

def evalPrim (eqTag : String → String → Bool) (p : Prim) (h : CHeap) (args : List VCell) :
    Outcome (CHeap × VCell) :=
  match p, args with
  | .car, [x] => evalCar true h x
  | .cdr, [x] => evalCar false h x
  | .cons, [d, a] => evalCons h d a
  | .setCar, [obj, pair] => evalSetPair true h obj pair
  | .setCdr, [obj, pair] => evalSetPair false h obj pair
  | .eq, [l, r] => .ok (h, .bool (eqvC eqTag h l r))
  | .pred q, [x] => .ok (h, .bool (q.test (deref h x)))
  | _, _ => .err .invalidNumArgs

def builtinEval (eqTag : String → String → Bool) (h : CHeap) (id : Nat) (args : List VCell) :
    Outcome (CHeap × VCell) :=
  match primOf id with
  | some p => evalPrim eqTag p h args
  | none => .err (.builtin "unsupported")

end ListExt

/-- the parameter set with the table of real builtins; `eqTag` = payload equality of two number / two string tags -/
def listExtWith (eqTag : String → String → Bool) : ExtOps :=
  { builtinKind := fun _ id => ListExt.kindOfId id
    builtinEval := ListExt.builtinEval eqTag
    compileEval := fun _ _ => .err (.builtin "unsupported")
    vectorPush := fun _ _ _ => .err .expectedType }

/-- scalar payloads compared by tag -/
def listExt : ExtOps := listExtWith (fun a b => a == b)

end Marwood.Vm.Concrete
