import Marwood.Vm.Machine
/-!
# A bytecode verifier for the stack discipline of compiled code

`compile.rs` emits three shapes of code object (all `Lambda`s living in heap cells):

* **procedure code** — a lambda body or the top-level lambda of `compile_runnable` / of the `eval`
  builtin: `[VARARG] ENTER <body> RET`;
* **entry code** — the `entry_lambda` of `compile_runnable`: `PUSHIMM argc0; MOVIMM <lambda> acc;
  CALL; HALT`, no `ENTER`; it runs in the entry frame of an evaluation (the frame `prepare_eval`
  starts in, which has no header).

The verifier assigns to every instruction offset an *abstract stack*: the cells the current frame
has pushed above its header (`sp - (bp + 4)` of them; above the entry `sp` for entry code), each
statically known to hold a **value** (`val`: a pointer or an address-free cell — what PUSHACC pushes, and
PUSHIMM of a constant), statically known to hold `ArgumentCount(n)` (`argc n`), or untyped (`any`: what
PUSH pushes — `compile.rs` never emits PUSH — and PUSHIMM of a cell that is not a value). CONS pops two
typed cells, CALL / TCALL need `argc n` on top of `n` typed cells: the cells the machine consumes *as
values* are values, never frame-header cells (`EnvironmentPointer`, `InstructionPointer`). One forward pass (`infer`) computes
the assignment; an independent local check (`checkAt`, one instruction at a time, against the
assignment) validates it. Only the local check is used by the soundness proof
(`Lemmas/StackWFStep.lean`): `infer` is an untrusted oracle.
-/
namespace Marwood.Vm.Verify

/-- abstract stack cell -/
inductive ACell
  | any
  | val
  | argc (n : Nat)
deriving DecidableEq, Repr, Inhabited

/-- typed: the cell is known to hold a value (`ArgumentCount(n)` is address-free, hence a value too) -/
def ACell.isV : ACell → Bool
  | .any => false
  | _ => true

/-- a first-class value as the machine holds it in `acc`, in a global slot or in a temporary: a pointer,
    or a cell that mentions no heap address. The frame-header cells `EnvironmentPointer` and
    `InstructionPointer` are not, nor are the inline `Pair` / `Closure` / `LexicalEnvPtr` payloads that only
    ever live *inside* heap cells. (`Lemmas.Sim.plainGlob`, restated over the machine's cells alone because
    the driver links this file; `Lemmas/StackWF.lean` proves the two equal.) -/
def isVal : VCell → Bool
  | .pair _ _ | .closure _ _ | .lexEnvPtr _ _ | .envPtr _ | .instrPtr _ _ => false
  | _ => true

/-- abstract state at an instruction offset. Lists are top-first.
    * `pre`: the instruction is `VARARG`/`ENTER` of a procedure prologue; the frame header is being
      built (`args…, argc n, envPtr, instrPtr` on top of the caller's frame; `bp` still the caller's).
    * `body a`: the frame's temporaries are exactly `a`.
    * `call a`: the instruction is `CALL`/`TCALL`; the temporaries are `a` with an **argument block**
      `v₁ … v_m, argc m` on top, for some `m` known only at run time (`apply`, `eval` and `call/cc`
      rewrite the block and run the same instruction again). -/
inductive AState
  | pre
  | body (a : List ACell)
  | call (a : List ACell)
deriving DecidableEq, Repr, Inhabited

abbrev TypeMap := List (Option AState)

def stateAt (tm : TypeMap) (o : Nat) : Option AState :=
  match tm[o]? with
  | some (some s) => some s
  | _ => none

def cellTy : VCell → ACell
  | .argc n => .argc n
  | v => if isVal v then .val else .any

/-- the static stack `x` is acceptable where the assignment says `s`: equal, or — at a CALL/TCALL —
    `x` is `argc n` on top of `n` **typed** cells on top of the recorded rest -/
def flowsTo (x : List ACell) : Option AState → Bool
  | some (.body y) => decide (x = y)
  | some (.call a) =>
    match x with
    | .argc n :: r => decide (n ≤ r.length ∧ a = r.drop n) && (r.take n).all ACell.isV
    | _ => false
  | _ => false

/-- The **destination** operand of MOV / MOVIMM (`store_operand`, run.rs:432-450). `compile.rs` emits
    `Acc`, a `GlobalEnvSlot` or a `LexicalEnvSlot` there (`compile_symbol_expression`, `compile_define`,
    `compile_set`, `MOVIMM … acc`), nothing else is accepted:
    * a `BasePointerOffset` destination is resolved relative to `sp` (sic, run.rs:440), so it could
      overwrite anything on the stack (`compile_define` / `compile_set` would emit it for a formal that is
      not in the environment map; no such formal exists, see `harness/src/simstep_progs.rs`);
    * a `Ptr(p)` destination overwrites heap cell `p` whatever it holds — a lambda's bytecode included;
    * every other cell is `InvalidBytecode` at run time. -/
def dstOk : Option VCell → Bool
  | some .acc => true
  | some (.globSlot _) => true
  | some (.lexEnvSlot _) => true
  | _ => false

/-- The cell that follows an opcode, read as a **source** operand (`load_operand`, run.rs:402-407: a
    `BasePointerOffset(off)` source reads `stack[bp + off]`). `compile.rs` emits `bp - argc + i + 1` for
    argument `i` of the current frame only (`compile_symbol_expression`), i.e. `-(argc - 1) ≤ off ≤ 0`:
    the argument cells `bp - argc + 1 ..= bp`. The verifier demands `off ≤ 0` and procedure code (entry
    code has no frame of its own, hence no arguments): the cell read is then at or below `bp`, hence — the
    frame header `bp + 1 ..= bp + 4` being below `sp` — a live cell of the stack. The lower bound needs the
    lambda's `args.len()`, which is not part of the bytecode: `argNeed` computes the number of argument
    cells the code addresses; the `bytecode-verifier` stream compares it with `args.len()` of every real
    lambda object. The check is made on the cell after *every* reachable opcode (`checkAt`), whatever the
    opcode: only MOV and PUSH load from it, the others never see a `BasePointerOffset` there in real code. -/
def bpSrcOk (entry : Bool) : Option VCell → Bool
  | some (.bpOffset off) => !entry && decide (off ≤ 0)
  | _ => true

/-- the **source** operand of MOV: not a `Ptr` (`load_operand` would clone the *content* of that heap cell —
    an inline `Pair` / `Closure`, not a value — into `acc` / a global slot / an environment slot).
    `compile.rs` emits `Acc`, a `GlobalEnvSlot`, a `LexicalEnvSlot` or a `BasePointerOffset` there. -/
def srcOk : Option VCell → Bool
  | some (.ptr _) => false
  | _ => true

/-- the immediate of MOVIMM is a value (`Void`, a pointer to a constant / a lambda, a macro object) -/
def immOk : Option VCell → Bool
  | some v => isVal v
  | none => false

/-- the number of argument cells (counted down from `bp`) the `BasePointerOffset` cells of a code object
    address: `bp + off` with `off ≤ 0` is argument cell number `-off` from the top, so `-off + 1` are needed -/
def argNeed (bc : List VCell) : Nat :=
  bc.foldl (fun m c => match c with
    | .bpOffset off => max m ((-off).toNat + 1)
    | _ => m) 0

/-- the local typing rule of one instruction -/
def checkOp (bc : List VCell) (tm : TypeMap) (entry : Bool) (o : Nat) (st : AState) (op : Op) : Bool :=
  match op, st with
  | .enter, .pre => !entry && flowsTo [] (stateAt tm (o + 1))
  | .varArg, .pre => !entry && decide (stateAt tm (o + 1) = some .pre)
  | .jmp, .body x =>
    match (bc[o + 1]? : Option VCell) with
    | some (.ptr t) => flowsTo x (stateAt tm t)
    | _ => false
  | .jnt, .body x =>
    match (bc[o + 1]? : Option VCell) with
    | some (.ptr t) => flowsTo x (stateAt tm t) && flowsTo x (stateAt tm (o + 2))
    | _ => false
  -- MOV / MOVIMM: the destination is `acc`, a global slot or an environment slot (`dstOk`)
  | .mov, .body x => srcOk bc[o + 1]? && dstOk bc[o + 2]? && flowsTo x (stateAt tm (o + 3))
  | .movImm, .body x => immOk bc[o + 1]? && dstOk bc[o + 2]? && flowsTo x (stateAt tm (o + 3))
  | .push, .body x => flowsTo (.any :: x) (stateAt tm (o + 2))
  | .pushImm, .body x =>
    match (bc[o + 1]? : Option VCell) with
    | some v => flowsTo (cellTy v :: x) (stateAt tm (o + 2))
    | none => false
  | .pushAcc, .body x => flowsTo (.val :: x) (stateAt tm (o + 1))
  -- HALT is the last cell of entry code (`PUSHIMM argc0; MOVIMM λ acc; CALL; HALT`): nothing runs after it
  | .halt, .body x => entry && x.isEmpty && decide (o + 1 = bc.length)
  | .cons, .body (c1 :: c2 :: x) => c1.isV && c2.isV && flowsTo x (stateAt tm (o + 1))
  | .vpushAcc, .body (_ :: x) => flowsTo x (stateAt tm (o + 1))
  | .closureAcc, .body x => flowsTo x (stateAt tm (o + 1))
  | .callAcc, .call a => flowsTo a (stateAt tm (o + 1))
  -- TCALL is *not* terminal: a builtin target returns to the next instruction (the RET / JMP that
  -- follows every tail call), exactly like CALL
  | .tcallAcc, .call a => !entry && flowsTo a (stateAt tm (o + 1))
  | .ret, .body _ => !entry
  | _, _ => false

def checkAt (bc : List VCell) (tm : TypeMap) (entry : Bool) (o : Nat) : Bool :=
  match stateAt tm o with
  | none => true
  | some st =>
    match (bc[o]? : Option VCell) with
    | some (.opcode op) => bpSrcOk entry bc[o + 1]? && checkOp bc tm entry o st op
    | _ => false

def initState (entry : Bool) : AState := if entry then .body [] else .pre

def checkAll (bc : List VCell) (tm : TypeMap) (entry : Bool) : Bool :=
  decide (stateAt tm 0 = some (initState entry)) && (List.range bc.length).all (checkAt bc tm entry)

/-- entry code is recognised by its first instruction -/
def isEntryCode (bc : List VCell) : Bool :=
  match (bc[0]? : Option VCell) with
  | some (.opcode .enter) => false
  | some (.opcode .varArg) => false
  | _ => true

/-! ## the forward pass -/

structure Reject where
  off : Nat
  why : String
deriving Repr

structure Scan where
  o : Nat
  cur : Option (List ACell)
  pend : List (Nat × List ACell)
  tm : List (Option AState)      -- reversed
  maxH : Nat

def Scan.emit (s : Scan) (st : AState) (width : Nat) (cur : Option (List ACell))
    (pend : List (Nat × List ACell)) (h : Nat) : Scan :=
  { o := s.o + width, cur, pend := pend ++ s.pend,
    tm := List.replicate (width - 1) none ++ some st :: s.tm, maxH := max s.maxH h }

/-- one instruction (or one skipped cell of unreachable code) -/
def scanOne (bc : List VCell) (entry : Bool) (s : Scan) : Except Reject Scan :=
  let o := s.o
  let ins := (s.pend.filter (·.1 == o)).map (·.2)
  match s.cur.toList ++ ins with
  | [] => .ok { s with o := o + 1, tm := none :: s.tm }      -- unreachable: skip one cell
  | x :: others =>
    if others.any (· != x) then .error ⟨o, "join: different abstract stacks meet"⟩ else
    let pend := s.pend.filter (·.1 != o)
    let s := { s with pend }
    let h := x.length
    match (bc[o]? : Option VCell) with
    | some (.opcode op) =>
      if !bpSrcOk entry bc[o + 1]? then
        .error ⟨o, "bp-relative source operand above the frame base, or in entry code"⟩ else
      match op with
      | .jmp =>
        match (bc[o + 1]? : Option VCell) with
        | some (.ptr t) =>
          if t ≤ o then .error ⟨o, "jmp: backward jump"⟩
          else .ok (s.emit (.body x) 2 none [(t, x)] h)
        | _ => .error ⟨o, "jmp: operand is not an offset"⟩
      | .jnt =>
        match (bc[o + 1]? : Option VCell) with
        | some (.ptr t) =>
          if t ≤ o then .error ⟨o, "jnt: backward jump"⟩
          else .ok (s.emit (.body x) 2 (some x) [(t, x)] h)
        | _ => .error ⟨o, "jnt: operand is not an offset"⟩
      | .mov =>
        if !srcOk bc[o + 1]? then .error ⟨o, "mov: source is a heap pointer"⟩
        else if dstOk bc[o + 2]? then .ok (s.emit (.body x) 3 (some x) [] h)
        else .error ⟨o, "mov: destination is not acc, a global slot or an environment slot"⟩
      | .movImm =>
        if !immOk bc[o + 1]? then .error ⟨o, "movImm: immediate is not a value"⟩
        else if dstOk bc[o + 2]? then .ok (s.emit (.body x) 3 (some x) [] h)
        else .error ⟨o, "mov: destination is not acc, a global slot or an environment slot"⟩
      | .push => .ok (s.emit (.body x) 2 (some (.any :: x)) [] (h + 1))
      | .pushImm =>
        match (bc[o + 1]? : Option VCell) with
        | some v => .ok (s.emit (.body x) 2 (some (cellTy v :: x)) [] (h + 1))
        | none => .error ⟨o, "pushImm: missing operand"⟩
      | .pushAcc => .ok (s.emit (.body x) 1 (some (.val :: x)) [] (h + 1))
      | .halt =>
        if !(entry && x.isEmpty) then .error ⟨o, "halt: outside entry code or with a non-empty stack"⟩
        else if o + 1 = bc.length then .ok (s.emit (.body x) 1 none [] h)
        else .error ⟨o, "halt: not the last cell of the code"⟩
      | .cons =>
        match x with
        | c1 :: c2 :: r =>
          if c1.isV && c2.isV then .ok (s.emit (.body x) 1 (some r) [] h)
          else .error ⟨o, "cons: an operand is not statically a value"⟩
        | _ => .error ⟨o, "cons: fewer than two temporaries"⟩
      | .vpushAcc =>
        match x with
        | _ :: r => .ok (s.emit (.body x) 1 (some r) [] h)
        | _ => .error ⟨o, "vpush: no temporary"⟩
      | .closureAcc => .ok (s.emit (.body x) 1 (some x) [] h)
      | .callAcc =>
        match x with
        | .argc n :: r =>
          if !(r.take n).all ACell.isV then .error ⟨o, "call: an argument is not statically a value"⟩
          else if n ≤ r.length then .ok (s.emit (.call (r.drop n)) 1 (some (r.drop n)) [] h)
          else .error ⟨o, "call: fewer temporaries than the argument count"⟩
        | _ => .error ⟨o, "call: top of stack is not a static argument count"⟩
      | .tcallAcc =>
        match x with
        | .argc n :: r =>
          if entry then .error ⟨o, "tcall: in entry code"⟩
          else if !(r.take n).all ACell.isV then .error ⟨o, "tcall: an argument is not statically a value"⟩
          else if n ≤ r.length then .ok (s.emit (.call (r.drop n)) 1 (some (r.drop n)) [] h)
          else .error ⟨o, "tcall: fewer temporaries than the argument count"⟩
        | _ => .error ⟨o, "tcall: top of stack is not a static argument count"⟩
      | .ret =>
        if entry then .error ⟨o, "ret: in entry code"⟩ else .ok (s.emit (.body x) 1 none [] h)
      | .enter => .error ⟨o, "enter: outside the prologue"⟩
      | .varArg => .error ⟨o, "vararg: outside the prologue"⟩
    | _ => .error ⟨o, "not an opcode at a reachable offset"⟩

def scanAll (bc : List VCell) (entry : Bool) : Nat → Scan → Except Reject Scan
  | 0, s => .ok s
  | fuel + 1, s =>
    if bc.length ≤ s.o then .ok s else
    match scanOne bc entry s with
    | .ok s' => scanAll bc entry fuel s'
    | .error e => .error e

/-- the forward pass: prologue shape, then `scanAll` -/
def infer (bc : List VCell) (entry : Bool) : Except Reject (TypeMap × Nat) :=
  let start : Except Reject Scan :=
    if entry then .ok ⟨0, some [], [], [], 0⟩ else
    match (bc[0]? : Option VCell), (bc[1]? : Option VCell) with
    | some (.opcode .enter), _ => .ok ⟨1, some [], [], [some .pre], 0⟩
    | some (.opcode .varArg), some (.opcode .enter) => .ok ⟨2, some [], [], [some .pre, some .pre], 0⟩
    | _, _ => .error ⟨0, "prologue: expected [VARARG] ENTER"⟩
  match start with
  | .error e => .error e
  | .ok s =>
    match scanAll bc entry (bc.length + 1) s with
    | .error e => .error e
    | .ok s =>
      match s.cur, s.pend with
      | some _, _ => .error ⟨s.o, "control falls off the end of the code"⟩
      | none, (t, _) :: _ => .error ⟨t, "jump target past the end of the code"⟩
      | none, [] => .ok (s.tm.reverse, s.maxH)

/-- a verified code object: its kind, its code, the abstract stack at every instruction -/
structure LamTy where
  entry : Bool
  bc : List VCell
  tm : TypeMap
deriving Repr

/-- the verifier: infer, then check. `ok (typing, maximal number of temporaries)`. -/
def verify (bc : List VCell) : Except Reject (LamTy × Nat) :=
  let entry := isEntryCode bc
  match infer bc entry with
  | .error e => .error e
  | .ok (tm, h) =>
    if checkAll bc tm entry then .ok (⟨entry, bc, tm⟩, h)
    else
      match (List.range bc.length).find? (fun o => !checkAt bc tm entry o) with
      | some o => .error ⟨o, "local check failed"⟩
      | none => .error ⟨0, "initial state"⟩

def verifyLam (bc : List VCell) : Option LamTy :=
  match verify bc with
  | .ok (t, _) => some t
  | .error _ => none

/-- the number of temporaries the verifier assigns to offset `o` (`none`: not an instruction, or a
    prologue instruction) — for CALL/TCALL the part below the argument block -/
def heightAt (t : LamTy) (o : Nat) : Option Nat :=
  match stateAt t.tm o with
  | some (.body a) => some a.length
  | some (.call a) => some a.length
  | _ => none

end Marwood.Vm.Verify
