import Marwood.Vm.ScopeSyntax
/-!
# Model of the scope machinery: vm/environment.rs, vm/lambda.rs, and the environment part of vm/run.rs

*Static part* (compile time): `find_free_symbols` (`fv`), `internally_defined_symbols`
(`Defs.names`), `EnvironmentMap::new_from_iof` (`newEnvmap`), `EnvironmentMap::get_slot` (`slotOf`),
`Lambda::binding_location` (`bindingLocation`), over the scope-skeleton grammar (the terms the
harness renders as Scheme text; `compile.rs` sees them after macro expansion, so `begin` is the
call of a parameterless lambda).

`free_symbols` and `internally_defined_symbols` return `HashSet`s, whose iteration order decides
the order of the environment-map entries behind the arguments; the model uses lists in
first-occurrence order, the theorems (`Lemmas/EnvStatic.lean`) only use membership, and the
correspondence compares maps by name with every entry followed along its `IofEnvironment` links.

Faithfully reproduced quirks of `find_free_symbols_in_proc`: a `lambda` form adds only its *fixed*
parameters to the environment (the rest parameter stays "free"), a `(define (f . formals) …)` form
adds all formals including the rest parameter, the name being defined is neither bound nor
free, `set!` targets and operator symbols are free, and internal definitions are not added to the
environment at all (so a reference to an internally defined name is "free" in its own lambda and
shows up twice in the map when an enclosing lambda also has it).

*Run-time part*: `LexicalEnvironment`s live in a table addressed by environment id (the heap cell
holding the `Rc`); a slot is undefined, a value, or `LexicalEnvPtr(env, slot)`.
`buildClosureEnvironment` is run by CLOSURE, `buildLexicalEnvironment` by ENTER, `load`/`store`
are the `LexicalEnvSlot` cases of `load_operand`/`store_operand`.
-/
namespace Marwood.Vm.Env
open Marwood.Scope

/-! ## environment.rs: BindingSource, EnvironmentMap -/

inductive Source where
  | argument (n : Nat)
  | internal
  | iofEnv (slot : Nat)
  | iofArg (n : Nat)
deriving DecidableEq, Repr, Inhabited

abbrev Envmap := List (Name × Source)

/-- `EnvironmentMap::get_slot`: index of the first entry for the symbol -/
def slotOf : Envmap → Name → Option Nat
  | [], _ => none
  | (y, _) :: em, x => if y = x then some 0 else (slotOf em x).map (· + 1)

/-- position of a symbol in `Lambda.args` -/
def argIndex : List Name → Name → Option Nat
  | [], _ => none
  | y :: ys, x => if y = x then some 0 else (argIndex ys x).map (· + 1)

/-- what the compiler keeps of a lambda for scoping purposes: `Lambda.args`, `Lambda.envmap` -/
structure LamCtx where
  args : List Name
  envmap : Envmap
deriving Repr, Inhabited

/-- the inner lambda of `compile_runnable`: no arguments, empty map -/
def LamCtx.top : LamCtx := ⟨[], []⟩

def argEntries : List Name → Nat → Envmap
  | [], _ => []
  | a :: as, i => (a, .argument i) :: argEntries as (i + 1)

def freeEntry (iof : LamCtx) (s : Name) : Option (Name × Source) :=
  match slotOf iof.envmap s with
  | some k => some (s, .iofEnv k)
  | none =>
    match argIndex iof.args s with
    | some n => some (s, .iofArg n)
    | none => none

/-- `EnvironmentMap::new_from_iof` -/
def newEnvmap (args internal free : List Name) (iof : LamCtx) : Envmap :=
  argEntries args 0 ++ internal.map (fun s => (s, Source.internal)) ++ free.filterMap (freeEntry iof)

/-! ## lambda.rs: binding_location -/

inductive BLoc where
  | env (slot : Nat)
  | arg (n : Nat)
  | global
deriving DecidableEq, Repr, Inhabited

def bindingLocation (l : LamCtx) (x : Name) : BLoc :=
  match slotOf l.envmap x with
  | some s => .env s
  | none =>
    match argIndex l.args x with
    | some n => .arg n
    | none => .global

/-! ## environment.rs: free symbols of the rendered term -/

def remove (bound : List Name) (l : List Name) : List Name := l.filter (fun x => !bound.contains x)

/-- a `HashSet` holds every symbol once -/
def dedup : List Name → List Name
  | [] => []
  | x :: xs => if xs.contains x then dedup xs else x :: dedup xs

mutual
/-- `free_symbols` of the rendering of an expression (membership is what matters) -/
def fv : Expr → List Name
  | .fresh => [Name.tick]                                   -- (tick)
  | .ref _ x => [Name.rd, x]                                -- (rd s x)
  | .set _ x e => x :: Name.wr :: fv e                      -- (set! x (wr s e))
  | .lam ps _ ds body => remove ps (fvDefs ds ++ fvList body)  -- only the fixed parameters are bound
  | .call f args => fv f ++ fvList args
  | .seq es => fvList es                                    -- ((lambda () es…))
  | .loop _ f => Name.times :: fv f                         -- (times n f)
  | .each l args => Name.each :: fv l ++ Name.list :: fvList args  -- (each l (list as…))
def fvList : Exprs → List Name
  | .nil => []
  | .cons e es => fv e ++ fvList es
/-- a definition contributes the free symbols of its value; the sugared procedure definition
    binds all its formals, the rest parameter included -/
def fvDefs : Defs → List Name
  | .nil => []
  | .cons _ sugar e ds =>
    (match sugar, e with
     | true, .lam ps r ds' body => remove (ps ++ r.toList) (fvDefs ds' ++ fvList body)
     | _, e => fv e) ++ fvDefs ds
end

/-- `free_symbols(expr)` as `compile_lambda` calls it: on the `lambda` form, or on the whole
    `define` form when compiling the sugared definition -/
def fvLam (sugar : Bool) (ps : List Name) (r : Option Name) (ds : Defs) (body : Exprs) : List Name :=
  dedup (remove (if sugar then ps ++ r.toList else ps) (fvDefs ds ++ fvList body))

/-- `compile_lambda`: the scoping context of the new lambda given that of the immediate outer
    function -/
def compileLam (iof : LamCtx) (sugar : Bool) (ps : List Name) (r : Option Name) (ds : Defs)
    (body : Exprs) : LamCtx :=
  let args := ps ++ r.toList
  { args, envmap := newEnvmap args ds.names (fvLam sugar ps r ds body) iof }

/-! ## run.rs: lexical environments at CLOSURE / ENTER, loads and stores -/

inductive Slot (α : Type) where
  | undef
  | val (v : α)
  | ptr (env slot : Nat)
deriving Repr, Inhabited

def Slot.isPtr : Slot α → Bool
  | .ptr _ _ => true
  | _ => false

/-- `err`: a Rust `Err(..)` (wrong cell kind, stack index); `panic`: `expect("slot index out of bounds")` -/
inductive Fault where
  | err
  | panic
deriving DecidableEq, Repr, Inhabited

/-- the lexical environments of the heap, by environment id -/
structure Envs (α : Type) where
  envs : Array (Array (Slot α)) := #[]
deriving Inhabited

def Envs.getEnv (h : Envs α) (e : Nat) : Except Fault (Array (Slot α)) :=
  match h.envs[e]? with
  | some a => .ok a
  | none => .error .err                 -- `as_lexical_env()?` on something else

def getSlot (a : Array (Slot α)) (i : Nat) : Except Fault (Slot α) :=
  match a[i]? with
  | some s => .ok s
  | none => .error .panic               -- "slot index out of bounds"

def putSlot (a : Array (Slot α)) (i : Nat) (s : Slot α) : Except Fault (Array (Slot α)) :=
  if i < a.size then .ok (a.setIfInBounds i s) else .error .panic

def Envs.push (h : Envs α) (a : Array (Slot α)) : Envs α × Nat := (⟨h.envs.push a⟩, h.envs.size)

/-- one entry of `build_closure_environment`; `ep` is the creating activation's environment,
    `args` its stack arguments (only the dead `IofArgument` case reads them) -/
def closureSlot (h : Envs α) (ep : Nat) (args : List α) : Source → Except Fault (Slot α)
  | .iofArg n => match args[n]? with
    | some v => .ok (.val v)
    | none => .error .err
  | .iofEnv k => do
      let iofEnv ← h.getEnv ep
      let g ← getSlot iofEnv k
      match g with
      | .ptr e s => pure (.ptr e s)
      | _ => pure (.ptr ep k)
  | _ => .ok .undef

def closureSlots (h : Envs α) (ep : Nat) (args : List α) : Envmap → Except Fault (List (Slot α))
  | [] => .ok []
  | (_, src) :: em => do
      let s ← closureSlot h ep args src
      let ss ← closureSlots h ep args em
      pure (s :: ss)

/-- `build_closure_environment` + the `heap.put` of CLOSURE: the new environment and its id -/
def buildClosureEnvironment (h : Envs α) (ep : Nat) (args : List α) (em : Envmap) :
    Except Fault (Envs α × Nat) := do
  let ss ← closureSlots h ep args em
  pure (h.push ss.toArray)

/-- one entry of `build_lexical_environment`, given the closure environment's slot -/
def activationSlot (cenv : Nat) (args : List α) (slot : Nat) (old : Slot α) : Source → Except Fault (Slot α)
  | .argument n => match args[n]? with
    | some v => .ok (.val v)
    | none => .error .err
  | .iofArg _ | .iofEnv _ => match old with
    | .ptr e s => .ok (.ptr e s)
    | _ => .ok (.ptr cenv slot)
  | .internal => .ok old

def activationSlots (cenv : Nat) (args : List α) : Nat → List (Slot α) → Envmap → Except Fault (List (Slot α))
  | _, [], [] => .ok []
  | i, old :: olds, (_, src) :: em => do
      let s ← activationSlot cenv args i old src
      let ss ← activationSlots cenv args (i + 1) olds em
      pure (s :: ss)
  | _, olds, [] => .ok olds            -- slots beyond the map are kept as cloned
  | _, [], _ :: _ => .error .panic      -- `closure_env.get(slot)` / `put(slot)` out of bounds (CLOSURE sizes the
                                        -- environment by the same map, so this is unreachable; the Rust loop would
                                        -- skip `InternalDefinition` entries without touching the slot)

/-- `build_lexical_environment` + the `heap.put` of ENTER -/
def buildLexicalEnvironment (h : Envs α) (cenv : Nat) (args : List α) (em : Envmap) :
    Except Fault (Envs α × Nat) := do
  let c ← h.getEnv cenv
  let ss ← activationSlots cenv args 0 c.toList em
  pure (h.push ss.toArray)

/-- `load_operand`, case `LexicalEnvSlot` -/
def load (h : Envs α) (ep slot : Nat) : Except Fault (Slot α) := do
  let e ← h.getEnv ep
  match ← getSlot e slot with
  | .ptr e' s' => do
      let o ← h.getEnv e'
      getSlot o s'
  | s => pure s

/-- the location a slot operand denotes: the slot itself, or the owner's slot it points to -/
def target (h : Envs α) (ep slot : Nat) : Except Fault (Nat × Nat) := do
  let e ← h.getEnv ep
  match ← getSlot e slot with
  | .ptr e' s' => pure (e', s')
  | _ => pure (ep, slot)

/-- `store_operand`, case `LexicalEnvSlot` -/
def store (h : Envs α) (ep slot : Nat) (v : α) : Except Fault (Envs α) := do
  let (e, s) ← target h ep slot
  let a ← h.getEnv e
  let a ← putSlot a s (.val v)
  pure ⟨h.envs.setIfInBounds e a⟩

end Marwood.Vm.Env

/-! ## Nests of lambdas (what the theorems of C02 are stated about)

A `Level` is what `compile_lambda` extracts from one lambda form; a nest lists the levels from the
innermost outwards, the outermost being compiled inside the top-level lambda of
`compile_runnable`. -/
namespace Marwood.Vm.Env
open Marwood.Scope

structure Level where
  args : List Name          -- formals, rest parameter last
  internal : List Name      -- `internally_defined_symbols(body)`
  free : List Name          -- `free_symbols(expr)` in whatever order the `HashSet` yields them

def Level.binders (l : Level) : List Name := l.args ++ l.internal

/-- the scoping context the compiler builds for the innermost lambda of a nest -/
def ctxOf : List Level → LamCtx
  | [] => LamCtx.top
  | l :: outer => { args := l.args, envmap := newEnvmap l.args l.internal l.free (ctxOf outer) }

/-- follow the `IofEnvironment` links from slot `s` of the innermost map outwards: the number of
    links followed, and the slot and source of the entry the chain ends at -/
def follow : List Level → Nat → Option (Nat × Nat × Source)
  | [], _ => none
  | l :: outer, s =>
    match (ctxOf (l :: outer)).envmap[s]? with
    | some (_, .iofEnv k) => (follow outer k).map fun (j, t, src) => (j + 1, t, src)
    | some (_, src) => some (0, s, src)
    | none => none

/-- a lambda form of the skeleton grammar: sugared?, fixed parameters, rest, definitions, body -/
structure Node where
  sugar : Bool
  ps : List Name
  rest : Option Name
  ds : Defs
  body : Exprs

def Node.level (n : Node) : Level :=
  ⟨n.ps ++ n.rest.toList, n.ds.names, fvLam n.sugar n.ps n.rest n.ds n.body⟩

mutual
/-- the lambda forms occurring in an expression outside any other lambda form (`begin` is one) -/
def subs : Expr → List Node
  | .fresh => []
  | .ref _ _ => []
  | .set _ _ e => subs e
  | .lam ps r ds body => [⟨false, ps, r, ds, body⟩]
  | .call f args => subs f ++ subsList args
  | .seq es => [⟨false, [], none, .nil, es⟩]
  | .loop _ f => subs f
  | .each l args => subs l ++ subsList args
def subsList : Exprs → List Node
  | .nil => []
  | .cons e es => subs e ++ subsList es
def subsDefs : Defs → List Node
  | .nil => []
  | .cons _ sugar e ds =>
    (match sugar, e with
     | true, .lam ps r ds' body => [⟨true, ps, r, ds', body⟩]
     | _, e => subs e) ++ subsDefs ds
end

/-- the lambda forms directly inside a lambda form -/
def Node.children (n : Node) : List Node := subsDefs n.ds ++ subsList n.body

mutual
/-- the names an expression references, assigns or (in a definition) defines outside nested
    lambda forms -/
def refs : Expr → List Name
  | .fresh => []
  | .ref _ x => [x]
  | .set _ x e => x :: refs e
  | .lam .. => []
  | .call f args => refs f ++ refsList args
  | .seq _ => []
  | .loop _ f => refs f
  | .each l args => refs l ++ refsList args
def refsList : Exprs → List Name
  | .nil => []
  | .cons e es => refs e ++ refsList es
def refsDefs : Defs → List Name
  | .nil => []
  | .cons x sugar e ds =>
    x :: (match sugar, e with
     | true, .lam .. => []
     | _, e => refs e) ++ refsDefs ds
end

def Node.refs (n : Node) : List Name := refsDefs n.ds ++ refsList n.body

/-- innermost first: every node is directly inside the next one -/
def IsNest : List Node → Prop
  | [] => True
  | [_] => True
  | n :: m :: rest => n ∈ m.children ∧ IsNest (m :: rest)

end Marwood.Vm.Env
