import Marwood.Vm.Env
/-!
# The machine model restricted to the scope-skeleton language

An evaluator in which variables are *not* looked up by name: every lambda gets the environment
map the compiler model computes (`compileLam`), CLOSURE builds the closure environment
(`buildClosureEnvironment`), ENTER the activation's environment (`buildLexicalEnvironment`), and
every reference / assignment goes through `bindingLocation` and `load` / `store` on environment
slots, as the compiled code does. The helper procedures of the probe programs (`tick rd wr times
each`) are primitives here. Used as the model side of the C02 correspondence.
-/
namespace Marwood.Vm.EnvRun
open Marwood.Scope Marwood.Vm.Env

inductive Val where
  | int (n : Nat)
  | clo (ps : List Name) (rest : Option Name) (ds : Defs) (body : Exprs) (ctx : LamCtx) (cenv : Nat)
  | nil
  | pair (a d : Val)
  | void
  | undef

instance : Inhabited Val := ⟨.undef⟩

def Val.ofList : List Val → Val
  | [] => .nil
  | v :: vs => .pair v (Val.ofList vs)

inductive Err where
  | unbound | arity | notProcedure | type | fuel | internal | panic
deriving DecidableEq, Repr

structure St where
  envs : Envs Val := {}
  globals : List (Name × Val) := []
  counter : Nat := 0
  log : List (Nat × Val) := []     -- most recent first

abbrev M := ExceptT Err (StateM St)

def liftFault : Except Fault α → M α
  | .ok a => pure a
  | .error .err => throw .internal
  | .error .panic => throw .panic

def tick : M Val := do
  let s ← get
  set { s with counter := s.counter + 1 }
  pure (.int (s.counter + 1))

def setGlobal (x : Name) (v : Val) : M Unit :=
  modify fun s => { s with globals := (x, v) :: s.globals.filter (·.1 != x) }

/-- `MOV <operand> %acc` for the operand `compile_symbol_expression` emits -/
def readVar (ctx : LamCtx) (ep : Option Nat) (x : Name) : M Val := do
  match bindingLocation ctx x with
  | .env s =>
    match ep with
    | none => throw .internal
    | some e =>
      match ← liftFault (load (← get).envs e s) with
      | .val v => pure v
      | .undef => pure .undef           -- no check: an uninitialised slot reads as #<undefined>
      | .ptr _ _ => throw .internal     -- a pointer to a pointer: never built (one level of indirection)
  | .global =>
    match (← get).globals.find? (·.1 == x) with
    | some (_, .undef) | none => throw .unbound
    | some (_, v) => pure v
  | .arg _ => throw .internal           -- `BindingLocation::Argument`: dead (every argument is in the map)

/-- `MOV %acc <operand>` of `compile_set` / `compile_define` -/
def writeVar (ctx : LamCtx) (ep : Option Nat) (x : Name) (v : Val) : M Unit := do
  match bindingLocation ctx x with
  | .env s =>
    match ep with
    | none => throw .internal
    | some e => do
      let h ← liftFault (store (← get).envs e s v)
      modify fun st => { st with envs := h }
  | .global => setGlobal x v
  | .arg _ => throw .internal

/-- CLOSURE -/
def mkClosure (ctx : LamCtx) (ep : Option Nat) (sugar : Bool) (ps : List Name) (r : Option Name)
    (ds : Defs) (body : Exprs) : M Val := do
  let ctx' := compileLam ctx sugar ps r ds body
  let (h, cenv) ← match ep with
    | some e => liftFault (buildClosureEnvironment (← get).envs e [] ctx'.envmap)
    | none =>
      -- top level: `ep` is not an environment; any `IofEnvironment` entry would fault
      if ctx'.envmap.all (fun p => match p.2 with | .iofEnv _ | .iofArg _ => false | _ => true) then
        pure ((← get).envs.push (ctx'.envmap.map fun _ => Slot.undef).toArray)
      else throw .internal
  modify fun st => { st with envs := h }
  pure (.clo ps r ds body ctx' cenv)

/-- VARARG / the arity check of ENTER -/
def frameArgs : List Name → Option Name → List Val → Except Err (List Val)
  | [], none, [] => .ok []
  | [], none, _ :: _ => .error .arity
  | [], some _, vs => .ok [Val.ofList vs]
  | _ :: _, _, [] => .error .arity
  | _ :: ps, r, v :: vs => (frameArgs ps r vs).map (v :: ·)

mutual
def eval : Nat → LamCtx → Option Nat → Expr → M Val
  | 0, _, _, _ => throw .fuel
  | _+1, _, _, .fresh => tick
  | _+1, c, ep, .ref s x => do
      let v ← readVar c ep x
      modify fun st => { st with log := (s, v) :: st.log }
      pure v
  | f+1, c, ep, .set s x e => do
      let v ← eval f c ep e
      modify fun st => { st with log := (s, v) :: st.log }
      writeVar c ep x v
      pure .void
  | _+1, c, ep, .lam ps r ds body => mkClosure c ep false ps r ds body
  | f+1, c, ep, .call fn args => do
      let vs ← evalList f c ep args
      let fv ← eval f c ep fn
      apply f fv vs
  | f+1, c, ep, .seq es => do
      let fv ← mkClosure c ep false [] none .nil es
      apply f fv []
  | f+1, c, ep, .loop n fn => do
      let fv ← eval f c ep fn
      loopGo f fv n
  | f+1, c, ep, .each l args => do
      let lv ← eval f c ep l
      let vs ← evalList f c ep args
      eachGo f lv vs

def evalList : Nat → LamCtx → Option Nat → Exprs → M (List Val)
  | 0, _, _, _ => throw .fuel
  | _+1, _, _, .nil => pure []
  | f+1, c, ep, .cons e es => do
      let v ← eval f c ep e
      let vs ← evalList f c ep es
      pure (v :: vs)

def evalBody : Nat → LamCtx → Option Nat → Exprs → M Val
  | 0, _, _, _ => throw .fuel
  | _+1, _, _, .nil => pure .void
  | f+1, c, ep, .cons e .nil => eval f c ep e
  | f+1, c, ep, .cons e es => do
      let _ ← eval f c ep e
      evalBody f c ep es

def evalDefs : Nat → LamCtx → Option Nat → Defs → M Unit
  | 0, _, _, _ => throw .fuel
  | _+1, _, _, .nil => pure ()
  | f+1, c, ep, .cons x sugar e ds => do
      let v ← match sugar, e with
        | true, .lam ps r ds' body => mkClosure c ep true ps r ds' body
        | _, e => eval f c ep e
      writeVar c ep x v
      evalDefs f c ep ds

/-- CALL + (VARARG) + ENTER + body + RET -/
def apply : Nat → Val → List Val → M Val
  | 0, _, _ => throw .fuel
  | f+1, .clo ps r ds body ctx cenv, vs => do
      let args ← match frameArgs ps r vs with
        | .ok a => pure a
        | .error e => throw e
      let (h, a) ← liftFault (buildLexicalEnvironment (← get).envs cenv args ctx.envmap)
      modify fun st => { st with envs := h }
      evalDefs f ctx (some a) ds
      evalBody f ctx (some a) body
  | _+1, _, _ => throw .notProcedure

def loopGo : Nat → Val → Nat → M Val
  | 0, _, _ => throw .fuel
  | _+1, _, 0 => pure .nil
  | f+1, fv, n+1 => do
      let t ← tick
      let v ← apply f fv [t]
      let rest ← loopGo f fv n
      pure (.pair v rest)

def eachGo : Nat → Val → List Val → M Val
  | 0, _, _ => throw .fuel
  | _+1, .nil, _ => pure .nil
  | f+1, .pair c rest, vs => do
      let v ← apply f c vs
      let r ← eachGo f rest vs
      pure (.pair v r)
  | _+1, _, _ => throw .type
end

def runTop (fuel : Nat) : Top → M Val
  | .define x e => do
      let v ← eval fuel LamCtx.top none e
      setGlobal x v
      pure .void
  | .expr e => eval fuel LamCtx.top none e

def run (fuel : Nat) : Program → St → List (Except Err Val) × St
  | [], s => ([], s)
  | t :: ts, s =>
    let (r, s) := (runTop fuel t).run.run s
    let (rs, s) := run fuel ts s
    (r :: rs, s)

end Marwood.Vm.EnvRun
