/-!
# Model of `Vm::run_one` (run.rs:63-316), the stack (stack.rs), continuations (continuation.rs) and
the three re-dispatching builtins (builtin/procedure.rs: apply, eval, call/cc)

The machine is generic in the heap: everything `run_one` asks of the heap, the global environment
and the lexical environments goes through the operations record `HeapOps H`. The theorems about
the calling convention (C04), continuations (C05) and the error path (C07) hold for *every*
heap; the correspondence instantiates `H` with the facts recorded from the real heap at each
instruction (`Driver/Vm.lean`), so the model is run on exactly the states the real VM reaches.

Outcomes are three-valued: `ok`, `err` (a returned `Error`), `panic` (Rust would panic: `usize`
underflow in a debug build, `expect`, slice out of range).
-/
namespace Marwood.Vm

inductive Op
  | cons | jmp | jnt | mov | movImm | push | pushAcc | pushImm | halt | vpushAcc
  | callAcc | closureAcc | enter | ret | tcallAcc | varArg
deriving DecidableEq, Repr, Inhabited

/-- `vcell::VCell`. Payloads behind an `Rc` (strings, vectors, lambdas, environments,
    continuations, builtins, macros) are object ids; scalar payloads irrelevant to the machine
    (numbers, characters, symbol names) are an opaque tag that is only ever copied and compared. -/
inductive VCell
  | bool (b : Bool) | nil | undefined | void
  | opaque (tag : String)            -- Number / Char / Symbol / String / Vector / Macro / LexicalEnv payloads
  | pair (car cdr : Nat)
  | closure (lam env : Nat)
  | lambda (id : Nat) | continuation (id : Nat) | builtin (id : Nat)
  | lexEnvSlot (n : Nat) | lexEnvPtr (env n : Nat)
  | acc | argc (n : Nat) | basePtr (n : Nat) | bpOffset (i : Int)
  | envPtr (e : Nat) | globSlot (n : Nat) | instrPtr (l o : Nat) | opcode (op : Op) | ptr (a : Nat)
deriving DecidableEq, Repr, Inhabited

inductive Err
  | invalidStackIndex (i : Nat)
  | invalidBytecode
  | invalidNumArgs
  | invalidProcedure
  | invalidSyntax
  | expectedType
  | variableNotBound
  | builtin (cls : String)           -- error returned by a (generic) builtin procedure
deriving DecidableEq, Repr, Inhabited

inductive Outcome (α : Type)
  | ok (a : α)
  | err (e : Err)
  | panic (site : String)
deriving Repr

instance : Monad Outcome where
  pure := .ok
  bind x f := match x with
    | .ok a => f a
    | .err e => .err e
    | .panic s => .panic s

/-- checked `usize` subtraction (debug build) -/
def usub (a b : Nat) (site : String) : Outcome Nat :=
  if b ≤ a then .ok (a - b) else .panic site

/-! ## Stack (stack.rs) -/

structure Stack where
  cells : List VCell      -- `stack: Vec<VCell>`; length = capacity
  sp : Nat
deriving Repr, DecidableEq

namespace Stack

def get (s : Stack) (i : Nat) : Outcome VCell :=
  match s.cells[i]? with
  | some v => .ok v
  | none => .err (.invalidStackIndex i)

/-- `get_offset(off)`: index `(sp as i64 + off) as usize`; a negative sum wraps to a huge index -/
def getOffset (s : Stack) (off : Int) : Outcome VCell :=
  let i := (s.sp : Int) + off
  if 0 ≤ i then s.get i.toNat else .err (.invalidStackIndex 0)

def set (s : Stack) (i : Nat) (v : VCell) : Outcome Stack :=
  if i < s.cells.length then .ok { s with cells := s.cells.set i v }
  else .err (.invalidStackIndex i)

def setOffset (s : Stack) (off : Int) (v : VCell) : Outcome Stack :=
  let i := (s.sp : Int) + off
  if 0 ≤ i then s.set i.toNat v else .err (.invalidStackIndex 0)

/-- `grow`: double the capacity -/
def grow (s : Stack) : Stack :=
  { s with cells := s.cells ++ List.replicate s.cells.length VCell.undefined }

/-- `push`: writes cell `sp + 1`, doubling the capacity first when it is full (`sp + 1 = capacity`
    is the only reachable full case since `sp < capacity` always; the padding formula also covers
    the unreachable ones so that `push` is total). -/
def push (s : Stack) (v : VCell) : Stack :=
  if s.sp + 1 < s.cells.length then { cells := s.cells.set (s.sp + 1) v, sp := s.sp + 1 }
  else { cells := (s.cells ++ List.replicate (max s.cells.length (s.sp + 2 - s.cells.length))
                      VCell.undefined).set (s.sp + 1) v,
         sp := s.sp + 1 }

def pop (s : Stack) : Outcome (VCell × Stack) :=
  if 0 < s.sp then
    match s.cells[s.sp]? with
    | some v => .ok (v, { s with sp := s.sp - 1 })
    | none => .err (.invalidStackIndex s.sp)
  else .err (.invalidStackIndex 0)

/-- `to_continuation`: `stack[0..=sp]` -/
def capture (s : Stack) : Outcome Stack :=
  if s.sp + 1 ≤ s.cells.length then .ok { cells := s.cells.take (s.sp + 1), sp := s.sp }
  else .panic "to_continuation: slice out of range"

/-- `restore_continuation`: overwrite the prefix, keep the rest of the live stack -/
def restore (s : Stack) (c : Stack) : Outcome Stack :=
  if c.cells.length ≤ s.cells.length then
    .ok { cells := c.cells ++ s.cells.drop c.cells.length, sp := c.sp }
  else .panic "restore_continuation: split_at_mut out of range"

/-- `clear` -/
def clear (s : Stack) : Stack := { s with cells := List.replicate s.cells.length VCell.undefined }

end Stack

structure Cont where
  stack : Stack
  ep : Nat
  ipL : Nat
  ipO : Nat
  bp : Nat
deriving Repr, DecidableEq

/-- what `heap.get(&acc)` is, as far as CALL / TCALL / ENTER care -/
inductive Callee
  | closure (lam env : Nat)
  | lambda                      -- `acc` is a pointer to a bare Lambda (top-level code)
  | builtin (id : Nat)
  | continuation (c : Cont)
  | other
deriving Repr

inductive BuiltinKind | apply | eval | callcc | generic
deriving DecidableEq, Repr

/-- static facts about a lambda object -/
structure LambdaInfo where
  argc : Nat           -- `args.len()`
deriving Repr

/-- Everything `run_one` needs from the heap / global environment / lexical environments.
    No laws are assumed here; each theorem states the laws it needs. -/
structure HeapOps (H : Type) where
  /-- `lambda().get(ip.1)`; `none` past the end. Panics (`%ip is not a procedure`) are `fetchPanics`. -/
  fetch : H → Nat → Nat → Option VCell
  /-- is `ip.0` a lambda at all (`expect("%ip is not a procedure")`) -/
  isLambda : H → Nat → Bool
  callee : H → VCell → Callee
  lambdaInfo : H → Nat → Option LambdaInfo
  /-- `heap.get(v)`: dereference a pointer, anything else is itself -/
  deref : H → VCell → VCell
  /-- `heap.get_at_index(p).clone()` -/
  getAt : H → Nat → VCell
  setAt : H → Nat → VCell → H
  /-- `heap.put(v)` (allocates unless `v` is a pointer; symbols interned) -/
  put : H → VCell → H × VCell
  /-- `heap.maybe_put(v)` -/
  maybePut : H → VCell → H × VCell
  newCont : H → Cont → H × VCell
  globGet : H → Nat → VCell
  globPut : H → Nat → VCell → H
  /-- `heap.get_at_index(env).as_lexical_env()?.get(slot)`; `none` = not an environment (error) -/
  envGet : H → Nat → Nat → Option VCell
  envPut : H → Nat → Nat → VCell → Option H
  /-- CLOSURE: build the closure environment for the lambda at `lam` in the current frame and
      allocate environment and closure; returns the closure pointer -/
  makeClosure : H → (lam : Nat) → (ep bp : Nat) → Stack → Outcome (H × VCell)
  /-- ENTER for a closure: build the activation environment; returns its heap index -/
  makeActivation : H → (lam env : Nat) → (bp : Nat) → Stack → Outcome (H × Nat)
  /-- VPUSH: push `acc` onto the vector `v` points to -/
  vectorPush : H → VCell → VCell → Outcome H
  builtinKind : H → Nat → BuiltinKind
  /-- a generic builtin's effect once its `argc` cell has been popped and `args` (top of stack
      first) are known: `(heap', result)` or an error class -/
  builtinEval : H → Nat → (args : List VCell) → Outcome (H × VCell)
  /-- `eval`: datum conversion + compilation of the popped expression to a fresh lambda -/
  compileEval : H → VCell → Outcome (H × VCell)
  isProcedure : H → VCell → Bool

structure St (H : Type) where
  heap : H
  stack : Stack
  acc : VCell
  ep : Nat
  ipL : Nat
  ipO : Nat
  bp : Nat

variable {H : Type}

def St.push (s : St H) (v : VCell) : St H := { s with stack := s.stack.push v }

/-- `read_opcode` -/
def readOpcode (ops : HeapOps H) (s : St H) : Outcome (Op × St H) :=
  if !ops.isLambda s.heap s.ipL then .panic "%ip is not a procedure" else
  match ops.fetch s.heap s.ipL s.ipO with
  | some (.opcode op) => .ok (op, { s with ipO := s.ipO + 1 })
  | some _ => .err .expectedType
  | none => .err .invalidBytecode

/-- `read_operand` -/
def readOperand (ops : HeapOps H) (s : St H) : Outcome (VCell × St H) :=
  if !ops.isLambda s.heap s.ipL then .panic "%ip is not a procedure" else
  match ops.fetch s.heap s.ipL s.ipO with
  | some (.opcode _) => .err .invalidBytecode
  | some v => .ok (v, { s with ipO := s.ipO + 1 })
  | none => .err .invalidBytecode

def asPtr : VCell → Outcome Nat
  | .ptr a => .ok a
  | _ => .err .expectedType

def asArgc : VCell → Outcome Nat
  | .argc n => .ok n
  | _ => .err .expectedType

def asBp : VCell → Outcome Nat
  | .basePtr n => .ok n
  | _ => .err .expectedType

def asEp : VCell → Outcome Nat
  | .envPtr n => .ok n
  | _ => .err .expectedType

def asIp : VCell → Outcome (Nat × Nat)
  | .instrPtr l o => .ok (l, o)
  | _ => .err .expectedType

/-- `load_operand` -/
def loadOperand (ops : HeapOps H) (s : St H) : Outcome (VCell × St H) := do
  let (opnd, s) ← readOperand ops s
  match opnd with
  | .acc => .ok (s.acc, s)
  | .ptr p => .ok (ops.getAt s.heap p, s)
  | .bpOffset off =>
    let i := (s.bp : Int) + off
    if 0 ≤ i then do let v ← s.stack.get i.toNat; .ok (v, s) else .err (.invalidStackIndex 0)
  | .globSlot n =>
    match ops.globGet s.heap n with
    | .undefined => .err .variableNotBound
    | v => .ok (v, s)
  | .lexEnvSlot n =>
    match ops.envGet s.heap s.ep n with
    | none => .err .expectedType
    | some (.lexEnvPtr e k) =>
      match ops.envGet s.heap e k with
      | none => .err .expectedType
      | some v => .ok (v, s)
    | some v => .ok (v, s)
  | _ => .err .invalidBytecode

/-- `store_operand` -/
def storeOperand (ops : HeapOps H) (s : St H) (v : VCell) : Outcome (St H) := do
  let (opnd, s) ← readOperand ops s
  match opnd with
  | .acc => .ok { s with acc := v }
  | .ptr p => .ok { s with heap := ops.setAt s.heap p v }
  | .bpOffset off =>
    -- `get_offset_mut((self.bp as i64) + offset)`: relative to **sp** (sic)
    do let st ← s.stack.setOffset ((s.bp : Int) + off) v; .ok { s with stack := st }
  | .globSlot n => .ok { s with heap := ops.globPut s.heap n v }
  | .lexEnvSlot n =>
    match ops.envGet s.heap s.ep n with
    | none => .err .expectedType
    | some (.lexEnvPtr e k) =>
      match ops.envPut s.heap e k v with
      | none => .err .expectedType
      | some h => .ok { s with heap := h }
    | some _ =>
      match ops.envPut s.heap s.ep n v with
      | none => .err .expectedType
      | some h => .ok { s with heap := h }
  | _ => .err .invalidBytecode

/-- `restore_continuation` on the VM -/
def restoreCont (s : St H) (c : Cont) : Outcome (St H) := do
  let st ← s.stack.restore c.stack
  .ok { s with stack := st, ep := c.ep, ipL := c.ipL, ipO := c.ipO, bp := c.bp, acc := .undefined }

/-- invoking a continuation from CALL / TCALL -/
def invokeCont (s : St H) (c : Cont) : Outcome (St H) := do
  let (a, st) ← s.stack.pop
  let n ← asArgc a
  if n = 0 then .err .invalidSyntax else do
  let (result, st) ← st.pop
  let s ← restoreCont { s with stack := st } c
  .ok { s with acc := result }

/-- pop `n` cells, top first -/
def popN : Nat → Stack → Outcome (List VCell × Stack)
  | 0, st => .ok ([], st)
  | n+1, st => do
    let (v, st) ← st.pop
    let (vs, st) ← popN n st
    .ok (v :: vs, st)

/-- `apply` (builtin/procedure.rs:72-110), after which the same CALL/TCALL runs again -/
def builtinApply (ops : HeapOps H) (s : St H) : Outcome (St H × VCell) := do
  let (a, st) ← s.stack.pop
  let argc ← asArgc a
  if argc < 2 then .err .invalidNumArgs else do
  let (top, st) ← st.pop
  let rest := ops.deref s.heap top
  let okShape := match rest with | .nil => true | .pair _ _ => true | _ => false
  if !okShape then .err .invalidSyntax else do
  let proc ← st.getOffset (-((argc : Int) - 2))
  -- shift the fixed arguments down by one, overwriting the procedure
  let rec shift (k : Nat) (st : Stack) : Outcome Stack :=
    match k with
    | 0 => .ok st
    | k+1 => do
      -- `for it in (0..argc-2).rev()`: it = k
      let v ← st.getOffset (-(k : Int))
      let st ← st.setOffset (-(k : Int) - 1) v
      shift k st
  let st ← shift (argc - 2) st
  let (_, st) ← st.pop
  -- push the elements of the list
  let rec pushList (fuel : Nat) (rest : VCell) (n : Nat) (st : Stack) : Outcome (Nat × Stack) :=
    match fuel with
    | 0 => .panic "apply: list longer than fuel (cyclic list)"
    | fuel+1 =>
      match rest with
      | .pair car cdr => pushList fuel (ops.deref s.heap (.ptr cdr)) (n + 1) (st.push (.ptr car))
      | .nil => .ok (n, st)
      | _ => .err .invalidSyntax
  let (n, st) ← pushList 100000 rest (argc - 2) st
  let st := st.push (.argc n)
  let ipO ← usub s.ipO 1 "apply: ip.1 -= 1"
  .ok ({ s with stack := st, ipO := ipO }, proc)

/-- `call/cc` (builtin/procedure.rs:119-134) -/
def builtinCallcc (ops : HeapOps H) (s : St H) : Outcome (St H × VCell) := do
  let (a, st) ← s.stack.pop
  let argc ← asArgc a
  if argc ≠ 1 then .err .invalidNumArgs else do
  let (proc, st) ← st.pop
  if !ops.isProcedure s.heap (ops.deref s.heap proc) then .err .invalidSyntax else do
  let cst ← st.capture
  let (h, k) := ops.newCont s.heap { stack := cst, ep := s.ep, ipL := s.ipL, ipO := s.ipO, bp := s.bp }
  let st := (st.push k).push (.argc 1)
  let ipO ← usub s.ipO 1 "call/cc: ip.1 -= 1"
  .ok ({ s with heap := h, stack := st, ipO := ipO }, proc)

/-- `eval` (builtin/procedure.rs:42-57) -/
def builtinEvalProc (ops : HeapOps H) (s : St H) : Outcome (St H × VCell) := do
  let (a, st) ← s.stack.pop
  let argc ← asArgc a
  if argc ≠ 1 then .err .invalidNumArgs else do
  let (e, st) ← st.pop
  let (h, lam) ← ops.compileEval s.heap (ops.deref s.heap e)
  let st := st.push (.argc 0)
  let ipO ← usub s.ipO 1 "eval: ip.1 -= 1"
  .ok ({ s with heap := h, stack := st, ipO := ipO }, lam)

/-- every other builtin: pop `argc`, pop that many arguments, produce a value or an error -/
def builtinGeneric (ops : HeapOps H) (id : Nat) (s : St H) : Outcome (St H × VCell) := do
  let (a, st) ← s.stack.pop
  let argc ← asArgc a
  let (args, st) ← popN argc st
  let (h, v) ← ops.builtinEval s.heap id args
  .ok ({ s with heap := h, stack := st }, v)

def runBuiltin (ops : HeapOps H) (id : Nat) (s : St H) : Outcome (St H) := do
  let (s, v) ← match ops.builtinKind s.heap id with
    | .apply => builtinApply ops s
    | .callcc => builtinCallcc ops s
    | .eval => builtinEvalProc ops s
    | .generic => builtinGeneric ops id s
  -- `self.acc = match proc.eval(self)? { Ptr(p) => Ptr(p), v => heap.maybe_put(v) }`
  match v with
  | .ptr p => .ok { s with acc := .ptr p }
  | v => let (h, r) := ops.maybePut s.heap v; .ok { s with heap := h, acc := r }

/-- CALL -/
def stepCall (ops : HeapOps H) (s : St H) : Outcome (St H) :=
  match ops.callee s.heap s.acc with
  | .builtin id => runBuiltin ops id s
  | .continuation c => invokeCont s c
  | .other => .err .invalidProcedure
  | .closure lam _ =>
    let s := (s.push (.envPtr s.ep)).push (.instrPtr s.ipL s.ipO)
    .ok { s with ipL := lam, ipO := 0 }
  | .lambda => do
    let lam ← asPtr s.acc
    let s := (s.push (.envPtr s.ep)).push (.instrPtr s.ipL s.ipO)
    .ok { s with ipL := lam, ipO := 0 }

/-- the copy loop of the equal-argc TCALL: `*stack[bp - it] = stack[sp - 1 - it]` for `it` in `0..argc` -/
def tcallCopySame : Nat → Nat → Nat → Stack → Outcome Stack
  | 0, _, _, st => .ok st
  | k+1, it, bp, st => do
    let v ← st.getOffset (-1 - (it : Int))
    let i ← usub bp it "tcall: bp - it"
    let st ← st.set i v
    tcallCopySame k (it + 1) bp st

/-- the push loop of the different-argc TCALL: `for it in (0..argc).rev() { push(stack[saved_sp - it - 1]) }` -/
def tcallCopyDiff : Nat → Nat → Stack → Outcome Stack
  | 0, _, st => .ok st
  | it+1, savedSp, st => do
    -- current `it` value is the successor's predecessor: iterate it = argc-1 … 0
    let i ← usub savedSp (it + 1) "tcall: saved_sp - it - 1"
    let v ← st.get i
    tcallCopyDiff it savedSp (st.push v)

/-- TCALL -/
def stepTCall (ops : HeapOps H) (s : St H) : Outcome (St H) :=
  match ops.callee s.heap s.acc with
  | .builtin id => runBuiltin ops id s
  | .continuation c => invokeCont s c
  | .other => .err .invalidProcedure
  | callee => do
    let lam ← match callee with
      | .closure lam _ => (.ok lam : Outcome Nat)
      | _ => asPtr s.acc
    let argc ← (do let v ← s.stack.getOffset 0; asArgc v)
    let frameArgc ← (do let v ← s.stack.get (s.bp + 1); asArgc v)
    if argc = frameArgc then do
      let savedBp ← s.stack.get (s.bp + 4)
      let st ← tcallCopySame argc 0 s.bp s.stack
      let st := { st with sp := s.bp + 3 }
      let bp ← asBp savedBp
      .ok { s with stack := st, bp := bp, ipL := lam, ipO := 0 }
    else do
      let savedSp := s.stack.sp
      let savedEp ← s.stack.get (s.bp + 2)
      let savedIp ← s.stack.get (s.bp + 3)
      let savedBp ← s.stack.get (s.bp + 4)
      let sp0 ← usub s.bp frameArgc "tcall: bp - frame_argc"
      let st := { s.stack with sp := sp0 }
      let st ← tcallCopyDiff argc savedSp st
      let st := ((st.push (.argc argc)).push savedEp).push savedIp
      let bp ← asBp savedBp
      .ok { s with stack := st, bp := bp, ipL := lam, ipO := 0 }

/-- ENTER -/
def stepEnter (ops : HeapOps H) (s : St H) : Outcome (St H) := do
  let (lam, cenv) ← match ops.callee s.heap s.acc with
    | .closure lam env => (.ok (lam, some env) : Outcome (Nat × Option Nat))
    | .lambda => do let p ← asPtr s.acc; .ok (p, none)
    | _ => .err .invalidBytecode
  match ops.lambdaInfo s.heap lam with
  | none => .err .expectedType
  | some info => do
    let a ← s.stack.getOffset (-2)
    let n ← asArgc a
    if n ≠ info.argc then .err .invalidNumArgs else do
    let st := s.stack.push (.basePtr s.bp)
    let bp ← usub st.sp 4 "enter: sp - 4"
    let s := { s with stack := st, bp := bp }
    match cenv with
    | none => .ok s
    | some env => do
      let (h, e) ← ops.makeActivation s.heap lam env s.bp s.stack
      .ok { s with heap := h, ep := e }

/-- RET -/
def stepRet (s : St H) : Outcome (St H) := do
  let n ← (do let v ← s.stack.get (s.bp + 1); asArgc v)
  let sp ← usub s.bp n "ret: bp - n"
  let st := { s.stack with sp := sp }
  let ep ← (do let v ← st.get (s.bp + 2); asEp v)
  let (l, o) ← (do let v ← st.get (s.bp + 3); asIp v)
  let bp ← (do let v ← st.get (s.bp + 4); asBp v)
  .ok { s with stack := st, ep := ep, ipL := l, ipO := o, bp := bp }

/-- the list-building loop of VARARG -/
def varargCollect (ops : HeapOps H) : Nat → H → Nat → Stack → Outcome (H × Nat × Stack)
  | 0, h, acc, st => .ok (h, acc, st)
  | k+1, h, acc, st => do
    let (v, st) ← st.pop
    let (h, a) := ops.put h v
    let a ← asPtr a
    let (h, p) := ops.put h (.pair a acc)
    let p ← asPtr p
    varargCollect ops k h p st

/-- VARARG -/
def stepVarArg (ops : HeapOps H) (s : St H) : Outcome (St H) :=
  match ops.lambdaInfo s.heap s.ipL with
  | none => .panic "%ip is not a procedure"
  | some info => do
    let reqArgc ← usub info.argc 1 "vararg: args.len() - 1"
    let argc ← (do let v ← s.stack.getOffset (-2); asArgc v)
    if argc < reqArgc then .err .invalidNumArgs
    else if argc = reqArgc + 1 then do
      let v ← s.stack.getOffset (-3)
      let (h, a) := ops.put s.heap v
      let (h, n) := ops.put h .nil
      let a ← asPtr a
      let n ← asPtr n
      let (h, p) := ops.put h (.pair a n)
      let st ← s.stack.setOffset (-3) p
      .ok { s with heap := h, stack := st }
    else do
      let (c1, st) ← s.stack.pop      -- the saved instruction pointer
      let (c2, st) ← st.pop           -- the saved environment pointer
      let (_, st) ← st.pop            -- argc
      let (h, n) := ops.put s.heap .nil
      let n ← asPtr n
      let (h, lst, st) ← varargCollect ops (argc - reqArgc) h n st
      let st := (((st.push (.ptr lst)).push (.argc (reqArgc + 1))).push c2).push c1
      .ok { s with heap := h, stack := st }

/-- result of one instruction: continue or HALT -/
def step (ops : HeapOps H) (s0 : St H) : Outcome (St H × Bool) := do
  let (op, s) ← readOpcode ops s0
  match op with
  | .jmp => do
    let (v, s) ← readOperand ops s
    let o ← asPtr v
    .ok ({ s with ipO := o }, false)
  | .jnt => do
    let (v, s) ← readOperand ops s
    let o ← asPtr v
    match ops.deref s.heap s.acc with
    | .bool false => .ok ({ s with ipO := o }, false)
    | _ => .ok (s, false)
  | .mov => do
    let (v, s) ← loadOperand ops s
    let s ← storeOperand ops s v
    .ok (s, false)
  | .movImm => do
    let (v, s) ← readOperand ops s
    let s ← storeOperand ops s v
    .ok (s, false)
  | .push => do
    let (v, s) ← loadOperand ops s
    .ok (s.push v, false)
  | .pushImm => do
    let (v, s) ← readOperand ops s
    .ok (s.push v, false)
  | .pushAcc => .ok (s.push s.acc, false)
  | .halt => .ok (s, true)
  | .cons => do
    let (d, st) ← s.stack.pop
    let (h, d) := ops.put s.heap d
    let (a, st) ← st.pop
    let (h, a) := ops.put h a
    let a ← asPtr a
    let d ← asPtr d
    let (h, p) := ops.put h (.pair a d)
    .ok ({ s with heap := h, stack := st, acc := p }, false)
  | .vpushAcc => do
    let (v, st) ← s.stack.pop
    let vec := ops.deref s.heap v
    let h ← ops.vectorPush s.heap vec s.acc
    -- `%acc` keeps the popped cell (the reference), not the dereferenced vector (fix 43d0413)
    .ok ({ s with heap := h, stack := st, acc := v }, false)
  | .closureAcc => do
    let lam ← asPtr s.acc
    let (h, c) ← ops.makeClosure s.heap lam s.ep s.bp s.stack
    .ok ({ s with heap := h, acc := c }, false)
  | .callAcc => do let s ← stepCall ops s; .ok (s, false)
  | .tcallAcc => do let s ← stepTCall ops s; .ok (s, false)
  | .enter => do let s ← stepEnter ops s; .ok (s, false)
  | .ret => do let s ← stepRet s; .ok (s, false)
  | .varArg => do let s ← stepVarArg ops s; .ok (s, false)

end Marwood.Vm
