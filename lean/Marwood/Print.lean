import Marwood.Datum
import Marwood.Num.Text
/-!
# Model of `Display for Cell` (`marwood/src/cell.rs:385-504`) and `char::write_escaped_char`
(`marwood/src/char.rs:26-42`)

`printD fo alt d` is `format!("{}", d)` for `alt = false` (display) and `format!("{:#}", d)` for
`alt = true` (write). Numbers go through `printNumber` of `Num/Text.lean` (float text is the
parameter `fo`). Line-by-line:

* a pair whose car is the symbol `quote` and whose cdr is a one-element list prints as `'x`
  (the formatter, and with it the alternate flag, is handed on);
* otherwise `(` and the loop over the cdr spine: `car)` at `Nil`, `car ` at a pair, `car . cdr)` at
  anything else;
* characters: raw in display mode; `write_escaped_char` in write mode (the named arms after the
  `is_control` guard are unreachable — every named character is a control character — and are kept);
* strings: raw in display mode; quoted with the escapes of `cell.rs:443-453` in write mode;
* symbols: the stored spelling, raw, in both modes;
* vectors: `#(`, elements separated by one space, `)`.

Nothing here can panic: `vector.len() - 1` is evaluated only inside the loop over a non-empty
vector. Native recursion depth (C19) is not modelled. Core Lean only.
-/
namespace Marwood

/-- `char::is_control` (general category Cc: 00–1F, 7F–9F) -/
def isControl (c : Char) : Bool := c.toNat ≤ 0x1F || (0x7F ≤ c.toNat && c.toNat ≤ 0x9F)

/-- `format!("{:x}", c as u32)` -/
def hexOf (c : Char) : Text := natDigits 16 c.toNat

/-- `char::write_escaped_char` -/
def writeEscapedChar (c : Char) : Text :=
  if c = ' ' then "#\\space".toList
  else if c = '\n' then "#\\newline".toList
  else if isControl c then '#' :: '\\' :: 'x' :: hexOf c
  else if c.toNat = 0x7 then "#\\alarm".toList
  else if c.toNat = 0x8 then "#\\backspace".toList
  else if c.toNat = 0x7f then "#\\delete".toList
  else if c.toNat = 0x1b then "#\\escape".toList
  else if c.toNat = 0x0 then "#\\null".toList
  else if c.toNat = 0xd then "#\\return".toList
  else if c.toNat = 0x9 then "#\\tab".toList
  else ['#', '\\', c]

/-- one character of a string in write mode (`cell.rs:442-454`) -/
def escapeStrChar (c : Char) : Text :=
  if c = '"' ∨ c = '\\' then ['\\', c]
  else if c = '\t' then ['\\', 't']
  else if c = '\n' then ['\\', 'n']
  else if c = '\r' then ['\\', 'r']
  else if c.toNat = 0x1b then ['\\', 'e']
  else if c.toNat = 0x7 then ['\\', 'a']
  else if c.toNat = 0x8 then ['\\', 'b']
  else if c.toNat = 0xb then ['\\', 'v']
  else if c.toNat = 0xc then ['\\', 'f']
  else if isControl c then '\\' :: 'x' :: (hexOf c ++ [';'])
  else [c]

def escapeStr : Text → Text
  | [] => []
  | c :: cs => escapeStrChar c ++ escapeStr cs

/-- `Cell::String` in write mode -/
def writeString (s : Text) : Text := '"' :: (escapeStr s ++ ['"'])

def quoteName : Text := "quote".toList

/-- `car.is_quote() && cdr.is_pair() && cdr.cdr().unwrap().is_nil()` -/
def isQuoteForm (car cdr : Datum) : Bool :=
  match car, cdr with
  | .sym s, .pair _ .nil => s == quoteName
  | _, _ => false

/-- the arms of `fmt` that do not recurse -/
def printAtom (fo : FloatOps) (alt : Bool) : Datum → Text
  | .bool true => ['#', 't']
  | .bool false => ['#', 'f']
  | .char c => if alt then writeEscapedChar c else [c]
  | .num n => printNumber fo n
  | .str s => if alt then writeString s else s
  | .sym s => s
  | .nil => ['(', ')']
  | .continuation => "#<continuation>".toList
  | .macro_ => "#<macro>".toList
  | .procedure (some d) => "#<procedure:".toList ++ d ++ ['>']
  | .procedure none => "#<procedure>".toList
  | .undefined => "#<undefined>".toList
  | .void => "#<void>".toList
  | .pair _ _ => []
  | .vec _ => []

mutual
/-- `<Cell as Display>::fmt` -/
def printD (fo : FloatOps) (alt : Bool) : Datum → Text
  | .pair a d =>
    if isQuoteForm a d then '\'' :: printCadr fo alt d
    else '(' :: (printD fo alt a ++ printRest fo alt d)
  | .vec e => '#' :: '(' :: (printElems fo alt e ++ [')'])
  | .bool b => printAtom fo alt (.bool b)
  | .char c => printAtom fo alt (.char c)
  | .num n => printAtom fo alt (.num n)
  | .str s => printAtom fo alt (.str s)
  | .sym s => printAtom fo alt (.sym s)
  | .nil => printAtom fo alt .nil
  | .continuation => printAtom fo alt .continuation
  | .macro_ => printAtom fo alt .macro_
  | .procedure p => printAtom fo alt (.procedure p)
  | .undefined => printAtom fo alt .undefined
  | .void => printAtom fo alt .void
/-- `fmt(cdr.car().unwrap())` of the quote sugar -/
def printCadr (fo : FloatOps) (alt : Bool) : Datum → Text
  | .pair x _ => printD fo alt x
  | _ => []
/-- the loop of the `Pair` arm after `car` has been printed: `cdr` decides what follows -/
def printRest (fo : FloatOps) (alt : Bool) : Datum → Text
  | .nil => [')']
  | .pair a d => ' ' :: (printD fo alt a ++ printRest fo alt d)
  | .vec e => ' ' :: '.' :: ' ' :: '#' :: '(' :: (printElems fo alt e ++ [')', ')'])
  | .bool b => ' ' :: '.' :: ' ' :: (printAtom fo alt (.bool b) ++ [')'])
  | .char c => ' ' :: '.' :: ' ' :: (printAtom fo alt (.char c) ++ [')'])
  | .num n => ' ' :: '.' :: ' ' :: (printAtom fo alt (.num n) ++ [')'])
  | .str s => ' ' :: '.' :: ' ' :: (printAtom fo alt (.str s) ++ [')'])
  | .sym s => ' ' :: '.' :: ' ' :: (printAtom fo alt (.sym s) ++ [')'])
  | .continuation => ' ' :: '.' :: ' ' :: (printAtom fo alt .continuation ++ [')'])
  | .macro_ => ' ' :: '.' :: ' ' :: (printAtom fo alt .macro_ ++ [')'])
  | .procedure p => ' ' :: '.' :: ' ' :: (printAtom fo alt (.procedure p) ++ [')'])
  | .undefined => ' ' :: '.' :: ' ' :: (printAtom fo alt .undefined ++ [')'])
  | .void => ' ' :: '.' :: ' ' :: (printAtom fo alt .void ++ [')'])
/-- the elements of a vector (a `pair`/`nil` spine), separated by single spaces -/
def printElems (fo : FloatOps) (alt : Bool) : Datum → Text
  | .pair x rest => printD fo alt x ++ ((if rest.isPair then [' '] else []) ++ printElems fo alt rest)
  | _ => []
end

/-- `format!("{}", d)` -/
def display (fo : FloatOps) (d : Datum) : Text := printD fo false d
/-- `format!("{:#}", d)` -/
def write (fo : FloatOps) (d : Datum) : Text := printD fo true d

end Marwood
