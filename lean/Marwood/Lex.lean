import Marwood.Text
/-!
# Model of `marwood/src/lex.rs`

Hand-written, line-by-line; tied to the code by the `scan` correspondence (harness `reader`
binary) and, for the character classes, by an exhaustive comparison over every scalar value.
Tokens carry byte offsets exactly as the Rust `Token::span`.
-/
namespace Marwood

inductive TokType
  | char | dot | false_ | leftParen | number | numberPrefix | quasiquote
  | rightParen | singleQuote | string | symbol | true_ | unquote | hashParen
deriving DecidableEq, Repr, Inhabited

structure Token where
  lo : Nat
  hi : Nat
  ty : TokType
deriving DecidableEq, Repr, Inhabited

inductive LexErr
  | incomplete
  | unexpectedToken (c : Char)
  | unexpectedFollowing (a : String) (b : String)
deriving DecidableEq, Repr

/-! ## Character classes (`char::is_alphabetic` / `is_whitespace` restricted to Latin-1:
the scanner tests `c > 0xFF` before consulting either) -/

def isAsciiDigit (c : Char) : Bool := 48 ≤ c.toNat && c.toNat ≤ 57
def isAsciiAlpha (c : Char) : Bool :=
  (65 ≤ c.toNat && c.toNat ≤ 90) || (97 ≤ c.toNat && c.toNat ≤ 122)
def isAsciiAlnum (c : Char) : Bool := isAsciiAlpha c || isAsciiDigit c
def isAsciiHex (c : Char) : Bool :=
  isAsciiDigit c || (65 ≤ c.toNat && c.toNat ≤ 70) || (97 ≤ c.toNat && c.toNat ≤ 102)

/-- `char::is_alphabetic` for `c ≤ 0xFF` (Unicode `Alphabetic` in Latin-1). -/
def isAlphabeticL1 (c : Char) : Bool :=
  let n := c.toNat
  isAsciiAlpha c || n == 0xAA || n == 0xB5 || n == 0xBA
    || (0xC0 ≤ n && n ≤ 0xD6) || (0xD8 ≤ n && n ≤ 0xF6) || (0xF8 ≤ n && n ≤ 0xFF)

/-- `char::is_whitespace` for `c ≤ 0xFF` (Unicode `White_Space` in Latin-1). -/
def isWhitespaceL1 (c : Char) : Bool :=
  let n := c.toNat
  (9 ≤ n && n ≤ 13) || n == 32 || n == 0x85 || n == 0xA0

def isInitialNumber (c : Char) : Bool := isAsciiDigit c || c == '+' || c == '-'
def isSubsequentNumber (c : Char) : Bool := isAsciiDigit c || isAsciiHex c || c == '.' || c == '/'
def isInitialIdentifier (c : Char) : Bool :=
  isAlphabeticL1 c || c.toNat > 0xFF || c == '!' || c == '$' || c == '%' || c == '&' || c == '*'
    || c == '/' || c == '\\' || c == ':' || c == '<' || c == '=' || c == '>' || c == '?'
    || c == '^' || c == '_' || c == '~'
def isSpecialSubsequent (c : Char) : Bool :=
  c == '+' || c == '-' || c == '.' || c == '@' || c == ';'
def isSubsequentIdentifier (c : Char) : Bool :=
  isInitialIdentifier c || isAsciiDigit c || isSpecialSubsequent c

/-! ## Token scanners. Each takes the text *after* the characters already consumed and returns
the characters it consumes and the rest; the caller turns lengths into byte offsets. -/

/-- longest prefix satisfying `p` -/
def spanWhile (p : Char → Bool) : Text → Text × Text
  | [] => ([], [])
  | c :: cs => if p c then let r := spanWhile p cs; (c :: r.1, r.2) else ([], c :: cs)

/-- `scan_comment`: up to and including the first newline. -/
def takeComment : Text → Text × Text
  | [] => ([], [])
  | c :: cs => if c == '\n' then ([c], cs) else let r := takeComment cs; (c :: r.1, r.2)

/-- `scan_symbol` after its first (unconditionally consumed) character. -/
def symbolTail (cs : Text) : Text × Text := spanWhile isSubsequentIdentifier cs

/-- `scan_number` after the first character (pinned tree, before fix c1c04ca: a sign always
    ends the run of number characters). Kept for the counter-witness
    `Proofs/C16: signed_exponent_was_symbol`. -/
def numberTailPinned : Text → Text × Text × Bool
  | [] => ([], [], false)
  | c :: cs =>
    if isSubsequentNumber c then
      let r := numberTailPinned cs; (c :: r.1, r.2.1, r.2.2)
    else if isSubsequentIdentifier c && c != ';' then
      let r := numberTailPinned cs; (c :: r.1, r.2.1, true)
    else ([], c :: cs, false)

/-- `scan_number` after the first character: returns consumed, rest, and whether a character that
    is not a subsequent-number character (and not the sign of an exponent) was consumed (token
    becomes a symbol). `mantissa`, `digits`, `marker` are the three booleans of the Rust loop as
    they stand when the head of the text is peeked (after the first character: `true`,
    "the first character is an ASCII digit", `false`). -/
def numberTail (mantissa digits marker : Bool) : Text → Text × Text × Bool
  | [] => ([], [], false)
  | c :: cs =>
    let marker' := mantissa && digits && (c == 'e' || c == 'E')
    let mantissa' := mantissa && (isAsciiDigit c || c == '.')
    let digits' := digits || isAsciiDigit c
    if isSubsequentNumber c || (marker && (c == '+' || c == '-')) then
      let r := numberTail mantissa' digits' marker' cs; (c :: r.1, r.2.1, r.2.2)
    else if isSubsequentIdentifier c && c != ';' then
      let r := numberTail mantissa' digits' marker' cs; (c :: r.1, r.2.1, true)
    else ([], c :: cs, false)

/-- the loop of `scan_dot` once the token type is known to be `Symbol`. -/
def dotSymbolTail (cs : Text) : Text × Text := spanWhile isSubsequentIdentifier cs

/-- the loop of `scan_dot` while the type is `Number` (pinned tree, before fix c1c04ca). -/
def dotNumberTailPinned : Text → Text × Text × Bool
  | [] => ([], [], false)
  | c :: cs =>
    if c == '.' then
      let r := dotSymbolTail cs; (c :: r.1, r.2, true)
    else if isSubsequentNumber c then
      let r := dotNumberTailPinned cs; (c :: r.1, r.2.1, r.2.2)
    else ([], c :: cs, false)

/-- the loop of `scan_dot` while the type is `Number`: a further `.` switches to `Symbol`.
    `mantissa`, `digits`, `marker` as in the Rust loop (at the first character after the dot:
    `true`, `false`, `false`; here `mantissa` is cleared by anything but an ASCII digit). -/
def dotNumberTail (mantissa digits marker : Bool) : Text → Text × Text × Bool
  | [] => ([], [], false)
  | c :: cs =>
    if c == '.' then
      -- token_type := Symbol; '.' is a subsequent identifier, consumed; continue as symbol
      let r := dotSymbolTail cs; (c :: r.1, r.2, true)
    else if isSubsequentNumber c || (marker && (c == '+' || c == '-')) then
      let r := dotNumberTail (mantissa && isAsciiDigit c) (digits || isAsciiDigit c)
        (mantissa && digits && (c == 'e' || c == 'E')) cs
      (c :: r.1, r.2.1, r.2.2)
    else ([], c :: cs, false)

/-- `scan_string` after the opening quote: consumed text *including* the closing quote,
    or `none` when unterminated. `esc` is `escape_next`. -/
def stringTail : Bool → Text → Option (Text × Text)
  | _, [] => none
  | esc, c :: cs =>
    if c == '"' && !esc then some ([c], cs)
    else match stringTail (c == '\\' && !esc) cs with
      | some (a, r) => some (c :: a, r)
      | none => none

/-- `scan_char` after `#\`: consumed text and rest; `none` = Incomplete. -/
def charTail : Text → Option (Text × Text)
  | [] => none
  | c :: cs =>
    if !isAsciiAlpha c then some ([c], cs)
    else let r := spanWhile isAsciiAlnum cs; some (c :: r.1, r.2)

/-- The result of scanning one token (or skipping a gap) at the head of a non-empty text. -/
inductive Piece
  | tok (consumed : Text) (ty : TokType) (rest : Text)
  | skip (consumed : Text) (rest : Text)
  | fail (e : LexErr)

def charStr (c : Char) : String := String.singleton c

/-- `scan_hash_token` (the `#` already seen, `cs` is what follows it) -/
def scanHash (c : Char) (cs : Text) : Piece :=
  match cs with
  | [] => .fail (.unexpectedFollowing "#" "\\n")
  | d :: ds =>
    if d == 't' then .tok [c, d] .true_ ds
    else if d == 'f' then .tok [c, d] .false_ ds
    else if d == '(' then .tok [c, d] .hashParen ds
    else if d == 'e' || d == 'i' || d == 'b' || d == 'o' || d == 'd' || d == 'x' then
      .tok [c, d] .numberPrefix ds
    else if d == '\\' then
      match charTail ds with
      | none => .fail .incomplete
      | some (a, r) => .tok (c :: d :: a) .char r
    else .fail (.unexpectedFollowing "#" (charStr d))

/-- `scan_dot` -/
def scanDot (c : Char) (cs : Text) : Piece :=
  match cs with
  | [] => .tok [c] .dot []
  | d :: _ =>
    if isSubsequentNumber d then
      let r := dotNumberTail true false false cs
      .tok (c :: r.1) (if r.2.2 then .symbol else .number) r.2.1
    else if isSubsequentIdentifier d then
      let r := dotSymbolTail cs
      .tok (c :: r.1) .symbol r.2
    else .tok [c] .dot cs

/-- `scan_dot` of the pinned tree (before fix c1c04ca) -/
def scanDotPinned (c : Char) (cs : Text) : Piece :=
  match cs with
  | [] => .tok [c] .dot []
  | d :: _ =>
    if isSubsequentNumber d then
      let r := dotNumberTailPinned cs
      .tok (c :: r.1) (if r.2.2 then .symbol else .number) r.2.1
    else if isSubsequentIdentifier d then
      let r := dotSymbolTail cs
      .tok (c :: r.1) .symbol r.2
    else .tok [c] .dot cs

def isOpenChar (c : Char) : Bool := c == '(' || c == '[' || c == '{'
def isCloseChar (c : Char) : Bool := c == ')' || c == ']' || c == '}'

/-- `scan_string` -/
def scanString (c : Char) (cs : Text) : Piece :=
  match stringTail false cs with
  | none => .fail .incomplete
  | some (a, r) => .tok (c :: a) .string r

/-- the last four arms of the dispatch in `scan` -/
def scanOther (c : Char) (cs : Text) : Piece :=
  if isInitialIdentifier c then
    let r := symbolTail cs
    .tok (c :: r.1) .symbol r.2
  else if isInitialNumber c then
    let r := numberTail true (isAsciiDigit c) false cs
    .tok (c :: r.1) (if r.2.2 then .symbol else .number) r.2.1
  else if c == ';' then
    let r := takeComment cs
    .skip (c :: r.1) r.2
  else if isWhitespaceL1 c then .skip [c] cs
  else .fail (.unexpectedToken c)

/-- the number arm of the dispatch on the pinned tree (before fix c1c04ca) -/
def scanNumberPinned (c : Char) (cs : Text) : Piece :=
  let r := numberTailPinned cs
  .tok (c :: r.1) (if r.2.2 then .symbol else .number) r.2.1

/-- One iteration of the `while let Some(&(_, c)) = cur.peek()` loop of `scan`. -/
def scanPiece (c : Char) (cs : Text) : Piece :=
  if isOpenChar c then .tok [c] .leftParen cs
  else if isCloseChar c then .tok [c] .rightParen cs
  else if c == '\'' then .tok [c] .singleQuote cs
  else if c == '`' then .tok [c] .quasiquote cs
  else if c == ',' then .tok [c] .unquote cs
  else if c == '#' then scanHash c cs
  else if c == '.' then scanDot c cs
  else if c == '"' then scanString c cs
  else scanOther c cs

/-- `scan`, fuel-indexed; `pos` is the byte offset of the head of the remaining text.
    `none` = fuel exhausted (shown impossible for `fuel > length`). -/
def scanFuel : Nat → Nat → Text → Option (Except LexErr (List Token))
  | 0, _, _ => none
  | _+1, _, [] => some (.ok [])
  | f+1, pos, c :: cs =>
    match scanPiece c cs with
    | .fail e => some (.error e)
    | .skip a r => scanFuel f (pos + byteLen a) r
    | .tok a ty r =>
      match scanFuel f (pos + byteLen a) r with
      | none => none
      | some (.error e) => some (.error e)
      | some (.ok ts) => some (.ok (⟨pos, pos + byteLen a, ty⟩ :: ts))

def scanFrom (pos : Nat) (cs : Text) : Option (Except LexErr (List Token)) :=
  scanFuel (cs.length + 1) pos cs

/-- `lex::scan`. The `none` branch is unreachable (`Proofs/C11: scan_total`). -/
def scan (cs : Text) : Except LexErr (List Token) :=
  match scanFrom 0 cs with
  | some r => r
  | none => .error .incomplete

end Marwood
