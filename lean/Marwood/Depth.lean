import Marwood.Datum
import Marwood.Heap.Gc
/-!
# Native recursion depth of the reader, the datum ⇄ heap conversion, the marker, `equal?`,
# the printer, the drop glue and the compiler

Native stack consumption = recursion depth × frame size. The frame size is a compiler artefact and
a stack overflow is a runtime event; the recursion *depth* as a function of the input is logic.
Every function below follows the call structure of the Rust function it is named after — where the
Rust code calls itself (or a function of the same cluster) the model adds a frame, where the Rust
code loops the model stays in the same frame — and returns the highest number of frames of the
cluster that are live at the same time. The clusters are the groups of the hook
`marwood::vm::verif::depth` (`parse`, `put`, `get`, `mark`, `equal`, `fmt`, `compile`), so the
numbers are directly comparable with the counters of the real code.

The heap functions are stated over `Datum`, read as the heap graph of a datum stored by `put_cell` /
built by `cons`, `vector`: every car and cdr is a heap index; a vector element is an immediate
`VCell` for numbers, booleans, characters, `()` and a `Ptr` for everything else (`maybe_put`).
Core Lean only.
-/
namespace Marwood.Depth
open Marwood

/-! ## Reader (`parse.rs`): skeleton over the token kinds that decide the call structure -/

/-- what `parse` / `parse_list` / `parse_vector` dispatch on -/
inductive Tk
  | lp     -- `(`  `[`  `{`
  | rp     -- `)`  `]`  `}`
  | hp     -- `#(`
  | dot
  | wrap   -- `'`  `` ` ``  `,`
  | atom   -- any token on which `parse` does not call `parse` again (one token, one datum)
deriving DecidableEq, Repr, Inhabited

/-- highest number of live frames, and the tokens left (`none`: the parse ended in an error) -/
abbrev DRes := Nat × Option (List Tk)

mutual
/-- `parse` entered as frame number `d` -/
def parseD : Nat → Nat → List Tk → Option DRes
  | 0, _, _ => none
  | _+1, d, [] => some (d, none)
  | f+1, d, t :: ts =>
    match t with
    | .wrap => parseD f (d + 1) ts
    | .lp => listD f (d + 1) false ts
    | .hp => vecD f (d + 1) ts
    | .atom => some (d, some ts)
    | .rp => some (d, none)
    | .dot => some (d, none)

/-- the loop of `parse_list` running in frame `d`; `ne`: `list` is not empty -/
def listD : Nat → Nat → Bool → List Tk → Option DRes
  | 0, _, _, _ => none
  | _+1, d, _, [] => some (d, none)
  | f+1, d, ne, t :: ts =>
    match t with
    | .rp => some (d, some ts)
    | .dot => tailD f (d + 1) ne ts
    | _ =>
      match parseD f (d + 1) (t :: ts) with
      | none => none
      | some (m, none) => some (m, none)
      | some (m, some rest) =>
        match listD f d true rest with
        | none => none
        | some (m', r) => some (max m m', r)

/-- `parse_improper_list_tail` entered as frame `d` -/
def tailD : Nat → Nat → Bool → List Tk → Option DRes
  | 0, _, _, _ => none
  | f+1, d, ne, ts =>
    if !ne then some (d, none)
    else match ts with
      | [] => some (d, none)
      | .dot :: _ => some (d, none)
      | .rp :: _ => some (d, none)
      | t :: ts' =>
        match parseD f (d + 1) (t :: ts') with
        | none => none
        | some (m, none) => some (m, none)
        | some (m, some []) => some (m, none)
        | some (m, some (.rp :: rest)) => some (m, some rest)
        | some (m, some (_ :: _)) => some (m, none)

/-- the loop of `parse_vector` running in frame `d` -/
def vecD : Nat → Nat → List Tk → Option DRes
  | 0, _, _ => none
  | _+1, d, [] => some (d, none)
  | f+1, d, t :: ts =>
    match t with
    | .rp => some (d, some ts)
    | .dot => some (d, none)
    | _ =>
      match parseD f (d + 1) (t :: ts) with
      | none => none
      | some (m, none) => some (m, none)
      | some (m, some rest) =>
        match vecD f d rest with
        | none => none
        | some (m', r) => some (max m m', r)
end

/-- fuel that always suffices for the token list (two calls per token at most) -/
def parseFuel (ts : List Tk) : Nat := 2 * ts.length + 2

/-- native depth (frames of `parse`, `parse_list`, `parse_vector`, `parse_improper_list_tail`) of
    `parse(text, cur)` on the cursor `ts`; `none`: out of fuel (does not happen, see the closed
    forms in `Proofs/C19`) -/
def parseDepth (ts : List Tk) : Option Nat := (parseD (parseFuel ts) 1 ts).map (·.1)

/-! ## Datum shapes -/

/-- values `maybe_put` leaves immediate (not behind a `Ptr`) -/
def immediate : Datum → Bool
  | .num _ | .bool _ | .char _ | .nil | .void | .undefined => true
  | _ => false

/-- `car.is_quote() && cdr.is_pair() && cdr.cdr().is_nil()` of `Display for Cell` -/
def quoteSugar : Datum → Option Datum
  | .pair (.sym s) (.pair x .nil) => if s = "quote".toList then some x else none
  | _ => none

/-! ## `Heap::put_cell` / `maybe_put_cell` (cluster `put`) -/

mutual
/-- `maybe_put_cell(d)`: recursion on car **and** cdr (through `put_cell`), and on vector elements -/
def maybePutDepth : Datum → Nat
  | .pair a d => 1 + max (1 + maybePutDepth a) (1 + maybePutDepth d)
  | .vec es => 1 + maybePutElems es
  | _ => 1
/-- the `for it in vector` loop: the deepest `maybe_put_cell(it)` -/
def maybePutElems : Datum → Nat
  | .pair e rest => max (maybePutDepth e) (maybePutElems rest)
  | _ => 0
end

/-- `put_cell(d)` = one frame around `maybe_put_cell(d)` -/
def putCellDepth (d : Datum) : Nat := 1 + maybePutDepth d

/-! ## `Heap::get_as_cell` (cluster `get`): loops along the cdr spine, recurses into every car
(two frames: the `Ptr` and the cell behind it), into the improper tail and into vector elements -/

mutual
/-- `get_as_cell(v)` on the heap cell holding `d` -/
def getValDepth : Datum → Nat
  | .pair a d => 1 + max (1 + getValDepth a) (getSpine d)
  | .vec es => 1 + getElems es
  | _ => 1
/-- the rest of the `loop` of the `Pair` arm, relative to the frame running the loop -/
def getSpine : Datum → Nat
  | .pair a d => max (1 + getValDepth a) (getSpine d)
  | .nil => 0
  | .vec es => 1 + getElems es          -- improper tail: `self.get_as_cell(cell)`
  | _ => 1
/-- the `for idx in 0..vector.len()` loop -/
def getElems : Datum → Nat
  | .pair e rest =>
    max (if immediate e then 1 else 1 + getValDepth e) (getElems rest)
  | _ => 0
end

/-- `get_as_cell(&VCell::Ptr(p))` with `p` the cell of `d` -/
def getAsCellDepth (d : Datum) : Nat := 1 + getValDepth d

/-! ## `Heap::mark` (cluster `mark`): loops along cdr and `Ptr`, recurses into car and, through
`mark_vcell`, into vector elements -/

mutual
/-- frames below the frame of `mark` that is looking at the cell of `d` -/
def markIn : Datum → Nat
  | .pair a d => max (1 + markIn a) (markIn d)
  | .vec es => markElems es
  | _ => 0
/-- the `for idx` loop of the `Vector` arm: `mark_vcell(elem)` and, for a `Ptr`, `mark` below it -/
def markElems : Datum → Nat
  | .pair e rest => max (if immediate e then 1 else 2 + markIn e) (markElems rest)
  | _ => 0
end

/-- `mark(p)` with `p` the cell of `d` -/
def markDepth (d : Datum) : Nat := 1 + markIn d

/-! ## `Vm::equal` (cluster `equal`) on two separately allocated copies of `d`: `compare_pair`
loops along cdr, recurses into every car and into the final cdr; `compare_vector` recurses into
every element. Atoms are settled by `eqv` in the first frame. -/

mutual
/-- `equal(l, r)` where `l`, `r` are distinct copies of `d` -/
def equalDepth : Datum → Nat
  | .pair a d => 2 + max (equalDepth a) (equalSpine d)
  | .vec es => 2 + equalElems es
  | _ => 1
/-- the rest of the `loop` of `compare_pair`, relative to the frame of `compare_pair` -/
def equalSpine : Datum → Nat
  | .pair a d => max (equalDepth a) (equalSpine d)
  | .vec es => 2 + equalElems es         -- `return self.equal(&left, &right)` on the tails
  | _ => 1
/-- the `for idx` loop of `compare_vector` -/
def equalElems : Datum → Nat
  | .pair e rest => max (equalDepth e) (equalElems rest)
  | _ => 0
end

/-! ## `Display for Cell` (cluster `fmt`): loops along cdr, recurses into every car, into the
improper tail, into vector elements and into the datum of `(quote x)` -/

mutual
def displayDepth : Datum → Nat
  | .pair a d =>
    match quoteSugar (.pair a d) with
    | some _ =>
      -- `'x`: `fmt(cdr.car())`
      (match d with
        | .pair x _ => 1 + displayDepth x
        | _ => 1)
    | none => 1 + max (displayDepth a) (displaySpine d)
  | .vec es => 1 + displayElems es
  | _ => 1
/-- the `loop` of the `Pair` arm -/
def displaySpine : Datum → Nat
  | .pair a d => max (displayDepth a) (displaySpine d)
  | .nil => 0
  | .vec es => 1 + displayElems es
  | _ => 1
def displayElems : Datum → Nat
  | .pair e rest => max (displayDepth e) (displayElems rest)
  | _ => 0
end

/-! ## Drop glue of `Cell` (derived, cannot be instrumented): `drop_in_place::<Cell>` recurses into
car **and** cdr (`Box<Cell>`) and into vector elements -/

mutual
def dropDepth : Datum → Nat
  | .pair a d => 1 + max (dropDepth a) (dropDepth d)
  | .vec es => 1 + dropElems es
  | _ => 1
def dropElems : Datum → Nat
  | .pair e rest => max (dropDepth e) (dropElems rest)
  | _ => 0
end

/-! ## Compiler (cluster `compile`), core forms only

`Vm::compile` = `transform` (macro expansion pass) then `compile_expression`. Modelled: atoms,
`quote`, `if`, `lambda`, procedure application — on expressions that use no macro keyword
(`none` = not modelled: `define`, `set!`, `define-syntax`, `quasiquote`, macro uses). -/

def symIs (s : String) : Datum → Bool
  | .sym t => t == s.toList
  | _ => false

/-- operators whose arm of `compile_procedure_application` is not modelled -/
def otherHead (d : Datum) : Bool :=
  symIs "define" d || symIs "define-syntax" d || symIs "set!" d || symIs "quasiquote" d

mutual
/-- `transform(e)`: `transform` → `transform_procedure_application` → `transform(arg)` …;
    a `quote` form is returned as it is -/
def transformDepth : Datum → Nat
  | .pair a d =>
    if symIs "quote" a || symIs "define-syntax" a then 2
    else 2 + max (transformDepth a) (transformArgs d)
  | _ => 1
/-- the `while rest.is_pair()` loop and the improper tail of `transform_procedure_application` -/
def transformArgs : Datum → Nat
  | .pair a d => max (transformDepth a) (transformArgs d)
  | .nil => 0
  | _ => 1
end

mutual
/-- `compile_expression(e)`: `compile_expression` → `compile_procedure_application` →
    `compile_runtime_procedure_application | compile_if | compile_lambda` → `compile_expression`.
    For the operators of `otherHead` the result is the two frames down to the unmodelled arm (a
    lower bound); when a sub-expression fails to compile the real depth can be smaller (the
    remaining sub-expressions are not visited). -/
def compileExprDepth : Datum → Nat
  | .pair a d =>
    if symIs "quote" a || otherHead a then 2
    else if symIs "if" a then
      (match d with
        | .pair t (.pair c .nil) => 3 + max (compileExprDepth t) (compileExprDepth c)
        | .pair t (.pair c (.pair e .nil)) =>
          3 + max (compileExprDepth t) (max (compileExprDepth c) (compileExprDepth e))
        | _ => 3)
    else if symIs "lambda" a || symIs "λ" a then
      (match d with
        | .pair _ body => 3 + compileArgs body
        | _ => 3)
    else 3 + max (compileExprDepth a) (compileArgs d)
  | _ => 1
/-- the loops over argument / body expressions -/
def compileArgs : Datum → Nat
  | .pair a d => max (compileExprDepth a) (compileArgs d)
  | _ => 0
end

/-- frames of the cluster `compile` during `Vm::compile(e)`: the two passes run one after the
    other, so the highest number of live frames is the larger of the two -/
def compileDepth (e : Datum) : Nat := max (transformDepth e) (compileExprDepth e)

/-! ## Input families (defined once; the harness builds the same data, `harness/src/bin/depth.rs`) -/

/-- the direction in which a family nests -/
inductive Dir
  | car | cdr | vec | quote
  /-- a flat list whose elements are shallow aggregates (pairs and small vectors) -/
  | cdrPairs
  /-- a flat list whose last cdr is an atom instead of `()` -/
  | cdrDotted
deriving DecidableEq, Repr

def one : Datum := .num (.fix 1)
def two : Datum := .num (.fix 2)

/-- element `i` (counted from the end of the list) of the `cdrPairs` family: `(1 . 2)` for even `i`,
    `#(1 2)` for odd `i` — separately allocated in every copy of the list -/
def pairsElem (i : Nat) : Datum :=
  if i % 2 = 0 then .pair one two else .vec (.pair one (.pair two .nil))
def zero : Datum := .num (.fix 0)
def sym (s : String) : Datum := .sym s.toList

/-- `nest dir n`: `()` wrapped `n` times in a one-element list / `n` ones / `#()` wrapped `n`
    times in a one-element vector / `x` quoted `n` times / a list of `n` elements `(1 . 2)`, `#(1 2)`
    alternating / `(1 … 1 . 2)` with `n` ones -/
def nest : Dir → Nat → Datum
  | .car, 0 => .nil
  | .car, n+1 => .pair (nest .car n) .nil
  | .cdr, 0 => .nil
  | .cdr, n+1 => .pair one (nest .cdr n)
  | .vec, 0 => .vec .nil
  | .vec, n+1 => .vec (.pair (nest .vec n) .nil)
  | .quote, 0 => sym "x"
  | .quote, n+1 => .pair (sym "quote") (.pair (nest .quote n) .nil)
  | .cdrPairs, 0 => .nil
  | .cdrPairs, n+1 => .pair (pairsElem n) (nest .cdrPairs n)
  | .cdrDotted, 0 => two
  | .cdrDotted, n+1 => .pair one (nest .cdrDotted n)

/-- `(+ 1 (+ 1 … 0))` -/
def nestApp : Nat → Datum
  | 0 => zero
  | n+1 => Datum.ofList [sym "+", one, nestApp n]

/-- `((lambda () ((lambda () … 0))))` -/
def nestLambda : Nat → Datum
  | 0 => zero
  | n+1 => Datum.ofList [Datum.ofList [sym "lambda", .nil, nestLambda n]]

/-! ### token families (continuation style: `… n rest` is the text of the family followed by `rest`) -/

/-- `(`ⁿ `()` `)`ⁿ -/
def carToks : Nat → List Tk → List Tk
  | 0, rest => .lp :: .rp :: rest
  | n+1, rest => .lp :: carToks n (.rp :: rest)

/-- `#(`ⁿ `#()` `)`ⁿ -/
def vecToks : Nat → List Tk → List Tk
  | 0, rest => .hp :: .rp :: rest
  | n+1, rest => .hp :: vecToks n (.rp :: rest)

/-- `'`ⁿ `x` -/
def quoteToks : Nat → List Tk → List Tk
  | 0, rest => .atom :: rest
  | n+1, rest => .wrap :: quoteToks n rest

/-- `1`ⁿ -/
def atoms : Nat → List Tk → List Tk
  | 0, rest => rest
  | n+1, rest => .atom :: atoms n rest

/-- `(1 . `ⁿ `()` `)`ⁿ : the cdr direction written with dots -/
def dotToks : Nat → List Tk → List Tk
  | 0, rest => .lp :: .rp :: rest
  | n+1, rest => .lp :: .atom :: .dot :: dotToks n (.rp :: rest)

/-- the text of `pairsElem i`: `(1 . 2)` or `#(1 2)` -/
def pairsElemToks (i : Nat) (rest : List Tk) : List Tk :=
  if i % 2 = 0 then .lp :: .atom :: .dot :: .atom :: .rp :: rest
  else .hp :: .atom :: .atom :: .rp :: rest

/-- the elements `n-1`, …, `0` of the `cdrPairs` family -/
def pairsToks : Nat → List Tk → List Tk
  | 0, rest => rest
  | n+1, rest => pairsElemToks n (pairsToks n rest)

/-- `(1 … 1 . 2)`; for `n = 0` the datum is the atom `2` -/
def dottedToks (n : Nat) : List Tk :=
  if n = 0 then [.atom] else .lp :: atoms n [.dot, .atom, .rp]

/-- `(+ 1 `ⁿ `0` `)`ⁿ -/
def appToks : Nat → List Tk → List Tk
  | 0, rest => .atom :: rest
  | n+1, rest => .lp :: .atom :: .atom :: appToks n (.rp :: rest)

/-- the tokens of the text of `nest dir n` as the harness writes it -/
def nestToks : Dir → Nat → List Tk
  | .car, n => carToks n []
  | .cdr, n => .lp :: atoms n [.rp]
  | .vec, n => vecToks n []
  | .quote, n => quoteToks n []
  | .cdrPairs, n => .lp :: pairsToks n [.rp]
  | .cdrDotted, n => dottedToks n

/-! ## The instrumented functions on the families, and their closed forms

`modelDepth f dir n` runs the model of `f` on the family; `closedForm f dir n` is the formula the
driver answers with at depths where running the model natively would itself need a deep stack.
`Proofs/C19.closedForm_eq_model` proves them equal for every `n`. -/

inductive Fn
  | parse | put | get | mark | equal | fmt | drop
deriving DecidableEq, Repr

def modelDepth : Fn → Dir → Nat → Option Nat
  | .parse, dir, n => parseDepth (nestToks dir n)
  | .put, dir, n => some (putCellDepth (nest dir n))
  | .get, dir, n => some (getAsCellDepth (nest dir n))
  | .mark, dir, n => some (markDepth (nest dir n))
  | .equal, dir, n => some (equalDepth (nest dir n))
  | .fmt, dir, n => some (displayDepth (nest dir n))
  | .drop, dir, n => some (dropDepth (nest dir n))

def closedForm : Fn → Dir → Nat → Nat
  | .parse, .car, n => 2 * n + 2
  | .parse, .cdr, n => if n = 0 then 2 else 3
  | .parse, .vec, n => 2 * n + 2
  | .parse, .quote, n => n + 1
  | .put, .car, n => 2 * n + 2
  | .put, .cdr, n => 2 * n + 2
  | .put, .vec, n => n + 2
  | .put, .quote, n => 4 * n + 2
  | .get, .car, n => 2 * n + 2
  | .get, .cdr, n => if n = 0 then 2 else 4
  | .get, .vec, n => 2 * n + 2
  | .get, .quote, n => 2 * n + 2
  | .mark, .car, n => n + 1
  | .mark, .cdr, n => if n = 0 then 1 else 2
  | .mark, .vec, n => 2 * n + 1
  | .mark, .quote, n => n + 1
  | .equal, .car, n => 2 * n + 1
  | .equal, .cdr, n => if n = 0 then 1 else 3
  | .equal, .vec, n => 2 * n + 2
  | .equal, .quote, n => 2 * n + 1
  | .fmt, .car, n => n + 1
  | .fmt, .cdr, n => if n = 0 then 1 else 2
  | .fmt, .vec, n => n + 1
  | .fmt, .quote, n => n + 1
  | .drop, .car, n => n + 1
  | .drop, .cdr, n => n + 1
  | .drop, .vec, n => n + 1
  | .drop, .quote, n => 2 * n + 1
  | .parse, .cdrPairs, n => if n = 0 then 2 else 6
  | .put, .cdrPairs, n => if n = 0 then 2 else 2 * n + 4
  | .get, .cdrPairs, n => if n = 0 then 2 else 6
  | .mark, .cdrPairs, n => if n = 0 then 1 else 3
  | .equal, .cdrPairs, n => if n = 0 then 1 else 5
  | .fmt, .cdrPairs, n => if n = 0 then 1 else 3
  | .drop, .cdrPairs, n => if n = 0 then 1 else n + 2
  | .parse, .cdrDotted, n => if n = 0 then 1 else 4
  | .put, .cdrDotted, n => 2 * n + 2
  | .get, .cdrDotted, n => if n = 0 then 2 else 4
  | .mark, .cdrDotted, n => if n = 0 then 1 else 2
  | .equal, .cdrDotted, n => if n = 0 then 1 else 3
  | .fmt, .cdrDotted, n => if n = 0 then 1 else 2
  | .drop, .cdrDotted, n => n + 1

/-- is the recursion of `f` bounded in direction `dir` (the loop direction of `f`)? The three flat
    directions — a list of atoms, a list of shallow aggregates, a dotted list — are loops of the
    reader, `get_as_cell`, the marker, `equal?` and the printer. -/
def bounded : Fn → Dir → Bool
  | .parse, .cdr | .get, .cdr | .mark, .cdr | .equal, .cdr | .fmt, .cdr => true
  | .parse, .cdrPairs | .get, .cdrPairs | .mark, .cdrPairs | .equal, .cdrPairs
  | .fmt, .cdrPairs => true
  | .parse, .cdrDotted | .get, .cdrDotted | .mark, .cdrDotted | .equal, .cdrDotted
  | .fmt, .cdrDotted => true
  | _, _ => false

/-- the largest number of frames a bounded (function, direction) pair ever holds -/
def loopBound : Nat := 6


/-! ## The marker on heap GRAPHS (cluster `mark`): closures, environments, continuations, code

`markIn` above reads a `Datum` as a tree-shaped heap graph. Closures, lexical environments, continuations and code
objects are not data; the marker's recursion on them is modelled on the C03 heap model itself (`Heap/Cell.lean`,
`Heap/Heap.lean`), following `heap.rs` frame by frame:

* `Heap::mark(ptr)` is ONE frame that loops along `Pair` cdr and `Ptr` (`ptr = cdr`); it calls itself for the car
  of a pair, for the code and the environment of a closure, for an `EnvironmentPointer`; it calls `mark_vcell` for
  every slot of a `LexicalEnv` and every element of a `Vector`, `mark_lambda` for a code object,
  `mark_continuation` for a continuation. A cell that is already marked, or an address outside the heap, ends the
  frame.
* `mark_vcell(v)` is one frame; it calls `mark` for every address `v` mentions (`Ptr`, `LexicalEnvPtr`,
  `InstructionPointer`, `EnvironmentPointer`, both components of an inline `Pair` / `Closure`), itself for the
  elements of an inline vector, `mark_lambda` / `mark_continuation` for inline code / continuations.
* `mark_lambda` is one frame calling `mark_vcell` for every bytecode cell except jump operands (the repaired
  marker), every formal and every environment-map symbol; `mark_continuation` is one frame calling `mark_vcell` for
  every saved stack cell, then `mark(ip.0)`, `mark(ep)`.

Every function returns the highest frame number reached and the marked addresses (most recent first). `fuel` bounds
the number of calls. -/

section graph
open Marwood.Heap (VCell)

mutual
/-- `Heap::mark(p)` running as frame `d` -/
def markAt (h : Heap.Heap) : Nat → List Nat → Nat → Nat → Nat × List Nat
  | 0, ms, d, _ => (d, ms)
  | f+1, ms, d, p =>
    match h.cells[p]? with
    | none => (d, ms)
    | some c =>
      if ms.contains p then (d, ms) else
      match c with
      | .pair a b =>
        let r1 := markAt h f (p :: ms) (d + 1) a
        let r2 := markAt h f r1.2 d b
        (max r1.1 r2.1, r2.2)
      | .ptr q => markAt h f (p :: ms) d q
      | .cont stk l e => markContAt h f (p :: ms) (d + 1) stk l e
      | .lambda bc args em => markLamAt h f (p :: ms) (d + 1) bc args em
      | .closure l e =>
        let r1 := markAt h f (p :: ms) (d + 1) l
        let r2 := markAt h f r1.2 (d + 1) e
        (max r1.1 r2.1, r2.2)
      | .lexEnv ss => markVs h f (p :: ms) d ss
      | .vector es => markVs h f (p :: ms) d es
      | .envPtr q => markAt h f (p :: ms) (d + 1) q
      | _ => (d, p :: ms)
/-- `mark_vcell(v)` running as frame `d` -/
def markV (h : Heap.Heap) : Nat → List Nat → Nat → VCell → Nat × List Nat
  | 0, ms, d, _ => (d, ms)
  | f+1, ms, d, v =>
    match v with
    | .ip l _ => markAt h f ms (d + 1) l
    | .cont stk l e => markContAt h f ms (d + 1) stk l e
    | .lambda bc args em => markLamAt h f ms (d + 1) bc args em
    | .closure l e =>
      let r1 := markAt h f ms (d + 1) l
      let r2 := markAt h f r1.2 (d + 1) e
      (max r1.1 r2.1, r2.2)
    | .pair a b =>
      let r1 := markAt h f ms (d + 1) a
      let r2 := markAt h f r1.2 (d + 1) b
      (max r1.1 r2.1, r2.2)
    | .ptr q => markAt h f ms (d + 1) q
    | .lexEnvPtr q _ => markAt h f ms (d + 1) q
    | .vector es => markVs h f ms d es
    | .envPtr q => markAt h f ms (d + 1) q
    | _ => (d, ms)
/-- a `for` loop running in frame `d` that calls `mark_vcell` (frame `d + 1`) for every cell of the list -/
def markVs (h : Heap.Heap) : Nat → List Nat → Nat → List VCell → Nat × List Nat
  | 0, ms, d, _ => (d, ms)
  | _+1, ms, d, [] => (d, ms)
  | f+1, ms, d, v :: vs =>
    let r1 := markV h f ms (d + 1) v
    let r2 := markVs h f r1.2 d vs
    (max r1.1 r2.1, r2.2)
/-- the bytecode loop of `mark_lambda` (frame `d`): the operand of `JMP` / `JNT` is skipped -/
def markBc (h : Heap.Heap) : Nat → List Nat → Nat → Bool → List VCell → Nat × List Nat
  | 0, ms, d, _, _ => (d, ms)
  | _+1, ms, d, _, [] => (d, ms)
  | f+1, ms, d, skip, v :: vs =>
    if skip then markBc h f ms d false vs
    else if v.isJumpOp then markBc h f ms d true vs
    else
      let r1 := markV h f ms (d + 1) v
      let r2 := markBc h f r1.2 d false vs
      (max r1.1 r2.1, r2.2)
/-- `mark_lambda` running as frame `d` -/
def markLamAt (h : Heap.Heap) : Nat → List Nat → Nat → List VCell → List VCell → List VCell → Nat × List Nat
  | 0, ms, d, _, _, _ => (d, ms)
  | f+1, ms, d, bc, args, em =>
    let r1 := markBc h f ms d false bc
    let r2 := markVs h f r1.2 d args
    let r3 := markVs h f r2.2 d em
    (max r1.1 (max r2.1 r3.1), r3.2)
/-- `mark_continuation` running as frame `d` -/
def markContAt (h : Heap.Heap) : Nat → List Nat → Nat → List VCell → Nat → Nat → Nat × List Nat
  | 0, ms, d, _, _, _ => (d, ms)
  | f+1, ms, d, stk, l, e =>
    let r1 := markVs h f ms d stk
    let r2 := markAt h f r1.2 (d + 1) l
    let r3 := markAt h f r2.2 (d + 1) e
    (max r1.1 (max r2.1 r3.1), r3.2)
end

/-- `mark(r)` for every root in turn (each call is frame 1; marks persist between the calls) -/
def markRoots (h : Heap.Heap) (fuel : Nat) : List Nat → List Nat → Nat → Nat
  | [], _, m => m
  | r :: rs, ms, m =>
    let x := markAt h fuel ms 1 r
    markRoots h fuel rs x.2 (max m x.1)

/-- inline cells of a heap cell (a bound on the calls one visit makes) -/
def cellWidth : VCell → Nat
  | .lexEnv ss => ss.length
  | .vector es => es.length
  | .lambda bc args em => bc.length + args.length + em.length
  | .cont stk _ _ => stk.length
  | _ => 0

/-- fuel that suffices for heaps whose inline cells are flat (every cell visited once, a bounded number of calls per
    cell and per inline cell) -/
def markGraphFuel (h : Heap.Heap) : Nat :=
  8 * h.cells.size + 4 * (h.cells.toList.map cellWidth).sum + 8

/-- **native depth of the marker on a heap graph**: the highest number of live frames of the cluster `mark`
    (`mark`, `mark_vcell`, `mark_lambda`, `mark_continuation`) while the roots are marked in order -/
def markDepthHeap (h : Heap.Heap) (roots : List Nat) : Nat := markRoots h (markGraphFuel h) roots [] 0

/-! ### the two chain families, built through the heap API -/

/-- `put` of a cell that is not a `Ptr`: the new heap and the address (`(h, 0)` if `put` fails) -/
def putAt (h : Heap.Heap) (c : VCell) : Heap.Heap × Nat :=
  match h.put c with
  | .ok (h', .ptr p) => (h', p)
  | _ => (h, 0)

/-- a heap of one chunk of `cap` cells holding the symbol `acc` (address 0) and the code of `(lambda () acc)`
    (address 1: no address in its bytecode, one environment-map entry) -/
def chainBase (cap : Nat) : Heap.Heap :=
  match Heap.Heap.new cap with
  | .ok h0 =>
    let r1 := putAt h0 (.symbol "acc".toList)
    (putAt r1.1 (.lambda [.opcode .enter, .opcode .mov, .atom .lexSlot, .atom .acc, .opcode .ret] [] [.ptr r1.2])).1
  | .error _ => default

/-- one more level of the closure chain around the value `prev`: the activation environment of `wrap` holding
    `prev`, the closure's environment pointing into it (`LexicalEnvPtr`), the closure -/
def closureLevel (x : Heap.Heap × VCell) : Heap.Heap × VCell :=
  let r1 := putAt x.1 (.lexEnv [x.2])
  let r2 := putAt r1.1 (.lexEnv [.lexEnvPtr r1.2 0])
  let r3 := putAt r2.1 (.closure 1 r2.2)
  (r3.1, .ptr r3.2)

def closureLevels (cap : Nat) : Nat → Heap.Heap × VCell
  | 0 => (chainBase cap, .atom .number)
  | k+1 => closureLevel (closureLevels cap k)

/-- **closure chain**: what `(define (wrap acc) (lambda () acc))` applied `n` times to `0` leaves in the heap —
    closure → environment → activation environment → closure → … -/
def closureChain (n : Nat) : Heap.Heap := (closureLevels (4 * (n + 1)) n).1

/-- the address of the outermost closure -/
def closureRoot (n : Nat) : Nat := 3 * n + 1

/-- one more level of the continuation chain: a continuation whose saved stack holds the previous one and whose
    `ip.0` is the code at address 1 (`ep`: a cell outside the chain, address 0) -/
def contLevel (x : Heap.Heap × VCell) : Heap.Heap × VCell :=
  let r := putAt x.1 (.cont [x.2] 1 0)
  (r.1, .ptr r.2)

def contLevels (cap : Nat) : Nat → Heap.Heap × VCell
  | 0 => (chainBase cap, .atom .number)
  | k+1 => contLevel (contLevels cap k)

/-- **continuation chain**: `k₁` captured while `k₀` is on the stack, … -/
def contChain (n : Nat) : Heap.Heap := (contLevels (4 * (n + 1)) n).1

def contRoot (n : Nat) : Nat := n + 1

end graph

end Marwood.Depth
