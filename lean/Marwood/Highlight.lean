import Marwood.Lex
/-!
# Model of `marwood/src/syntax.rs` (REPL bracket highlighter), after the `fix:` commit that makes
`#(` an opening bracket.
-/
namespace Marwood

def TokType.isOpen : TokType → Bool
  | .leftParen | .hashParen => true
  | _ => false

def TokType.isClose : TokType → Bool
  | .rightParen => true
  | _ => false

/-- `find_token_at_index`: first token whose span contains the byte index, with its position. -/
def findTokenAtIndexFrom (i : Nat) : Nat → List Token → Option (Nat × Token)
  | _, [] => none
  | k, t :: ts => if t.lo ≤ i && i < t.hi then some (k, t) else findTokenAtIndexFrom i (k+1) ts

def findTokenAtIndex (ts : List Token) (i : Nat) : Option (Nat × Token) :=
  findTokenAtIndexFrom i 0 ts

/-- `find_token_at_cursor` -/
def findTokenAtCursor (ts : List Token) (i : Nat) : Option (Nat × Token) :=
  match findTokenAtIndex ts i with
  | some t => some t
  | none => if i > 0 then findTokenAtIndex ts (i - 1) else none

/-- the counting loop of `find_matching_bracket`: `have_` increments, `want` matches at zero. -/
def countScan (have_ want : TokType → Bool) : Nat → List Token → Option Token
  | _, [] => none
  | n, t :: ts =>
    let n1 := if have_ t.ty then n + 1 else n
    if want t.ty then (if n1 = 0 then some t else countScan have_ want (n1 - 1) ts)
    else countScan have_ want n1 ts

/-- `find_matching_bracket` -/
def findMatchingBracket (ts : List Token) (k : Nat) (t : Token) : Option Token :=
  if t.ty.isClose then countScan TokType.isClose TokType.isOpen 0 (ts.take k).reverse
  else if t.ty.isOpen then countScan TokType.isOpen TokType.isClose 0 (ts.drop (k+1))
  else none

def escOn : Text := ['\x1b', '[', '4', 'm']
def escOff : Text := ['\x1b', '[', '0', 'm']

/-- `ReplHighlighter::highlight`. `none` models a slicing panic. -/
def highlight (cs : Text) (i : Nat) : Option Text :=
  match scan cs with
  | .error _ => some cs
  | .ok ts =>
    match findTokenAtCursor ts i with
    | none => some cs
    | some (k, t) =>
      match findMatchingBracket ts k t with
      | none => some cs
      | some b =>
        match sliceBytes b.lo b.hi cs, takeBytes b.lo cs, dropBytes b.hi cs with
        | some mid, some pre, some post => some (pre ++ escOn ++ mid ++ escOff ++ post)
        | _, _, _ => none

/-- `ReplHighlighter::highlight_check` -/
def highlightCheck (cs : Text) (i : Nat) : Bool :=
  match scan cs with
  | .error _ => false
  | .ok ts =>
    match findTokenAtCursor ts (i - 1) with
    | some (_, t) => t.ty == .leftParen || t.ty == .rightParen
    | none => false

end Marwood
