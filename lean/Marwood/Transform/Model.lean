import Marwood.Transform.Basic
/-!
# Model of `marwood/src/vm/transform.rs` (after fix ff58560)

Line-by-line port: `Pattern::try_new/build/find_expanded_variables`, `Transform::try_new`,
`check_template_syntax`, `check_pattern_support`, `check_template_support`, `transform`,
`pattern_match` (iterator state machine incl. the `pattern_iter.len() == expr_iter.len() + 2`
hand-off), `expand` and `PatternEnvironment` (per-variable cursors).

Every recursive function takes fuel as its first argument and answers `Res.fuel` when it runs out;
each loop iteration and each nested call consumes one unit, so fuel bounds *depth of the call/iteration
chain*, and a loop that never advances is representable (it answers `.fuel` for every fuel).
Core Lean only.
-/
namespace Marwood.Transform
open Marwood

/-! ## Pattern -/

structure Pattern where
  expr : Datum
  variables : List Datum
  expanded : List Datum
  ellipsis : Datum
  literals : List Datum
deriving Repr, Inhabited, DecidableEq

namespace Pattern
def isEllipsis (p : Pattern) (c : Datum) : Bool := cellEq c p.ellipsis
def isLiteral (p : Pattern) (c : Datum) : Bool := p.literals.any fun it => cellEq it c
def isVariable (p : Pattern) (c : Datum) : Bool := p.variables.any fun it => cellEq it c
def isExpandedVariable (p : Pattern) (c : Datum) : Bool := p.expanded.any fun it => cellEq it c
def isVariableCandidate (p : Pattern) (c : Datum) : Bool :=
  isSymbol c && !p.isLiteral c && !p.isEllipsis c && !cellEq c underscore
end Pattern

/-- `Pattern::find_expanded_variables` -/
def findExpanded : Nat → Datum → Pattern → Res Pattern
  | 0, _, _ => .fuel
  | _+1, .sym s, p =>
    if p.isVariableCandidate (.sym s) && !(p.expanded.any fun it => cellEq it (.sym s)) then
      .ok { p with expanded := p.expanded ++ [.sym s] }
    else .ok p
  | f+1, .pair a d, p =>
    (iterList (.pair a d)).foldlM (fun p it => findExpanded f it p) p
  | _+1, _, p => .ok p

/-- the `while let` loop of `Pattern::build`; `items` is the rest of the enumerated iterator -/
def buildLoop : Nat → Bool → Nat → Nat → List Datum → Nat → Pattern → Res Pattern
  | 0, _, _, _, _, _, _ => .fuel
  | _+1, _, _, _, [], _, p => .ok p
  | f+1, improper, len, idx, it :: rest, ct, p =>
    let ellNext := peekIs p.ellipsis rest
    match it with
    | .sym _ =>
      if p.isEllipsis it then
        if idx == 0 then .err .syntax
        -- `len - 1`: usize subtraction (debug build panics below zero)
        else if len == 0 then .panic "build: len - 1"
        else if idx == len - 1 && improper then .err .syntax
        else if ct + 1 > 1 then .err .syntax
        else buildLoop f improper len (idx + 1) rest (ct + 1) p
      else
        let step : Res Pattern :=
          if p.isVariableCandidate it then
            if p.isVariable it then .err .syntax
            else .ok { p with variables := p.variables ++ [it] }
          else if ellNext then .err .syntax
          else .ok p
        match step with
        | .ok p =>
          if ellNext then
            match findExpanded f it p with
            | .ok p => buildLoop f improper len (idx + 1) rest ct p
            | .err e => .err e
            | .panic s => .panic s
            | .fuel => .fuel
          else buildLoop f improper len (idx + 1) rest ct p
        | .err e => .err e
        | .panic s => .panic s
        | .fuel => .fuel
    | .pair _ _ =>
      let p1 : Res Pattern := if ellNext then findExpanded f it p else .ok p
      match p1 with
      | .ok p =>
        match buildLoop f (isImproperList it) (Marwood.Transform.len it) 0 (iterList it) 0 p with
        | .ok p => buildLoop f improper len (idx + 1) rest ct p
        | .err e => .err e
        | .panic s => .panic s
        | .fuel => .fuel
      | .err e => .err e
      | .panic s => .panic s
      | .fuel => .fuel
    | _ => buildLoop f improper len (idx + 1) rest ct p

/-- `Pattern::build` -/
def build (fuel : Nat) (expr : Datum) (p : Pattern) : Res Pattern :=
  buildLoop fuel (isImproperList expr) (len expr) 0 (iterList expr) 0 p

/-- `Pattern::try_new` -/
def Pattern.tryNew (fuel : Nat) (expr ellipsis : Datum) (literals : List Datum) : Res Pattern :=
  if !expr.isPair then .err .syntax
  else
    let p : Pattern := { expr := expr, variables := [], expanded := [], ellipsis := ellipsis,
                         literals := literals }
    match cdrE expr with
    | .ok d => build fuel d p
    | .err e => .err e
    | .panic s => .panic s
    | .fuel => .fuel

/-! ## Definition-time checks -/

/-- the `while let` loop of `check_template_syntax` -/
def ctsLoop (p : Pattern) (ell : Datum) : Nat → Bool → Bool → List Datum → Res Unit
  | 0, _, _, _ => .fuel
  | _+1, _, _, [] => .ok ()
  | f+1, improper, seenEll, t :: rest =>
    match t with
    | .pair a d =>
      -- recursive `check_template_syntax(template, ..)` on a pair: head test, then its own loop
      if cellEq a ell then .err .syntax
      else
        match ctsLoop p ell f (isImproperList (.pair a d)) false (iterList (.pair a d)) with
        | .ok () => ctsLoop p ell f improper seenEll rest
        | .err e => .err e
        | .panic s => .panic s
        | .fuel => .fuel
    | .sym _ =>
      if !p.isVariable t && peekIs ell rest then .err .syntax
      else if cellEq t ell then
        if seenEll || (improper && rest.isEmpty) then .err .syntax
        else ctsLoop p ell f improper true rest
      else ctsLoop p ell f improper seenEll rest
    | _ => ctsLoop p ell f improper seenEll rest

/-- `Transform::check_template_syntax` -/
def checkTemplateSyntax (fuel : Nat) (template : Datum) (p : Pattern) (ell : Datum) : Res Unit :=
  match template with
  | .pair a _ =>
    if cellEq a ell then .err .syntax
    else ctsLoop p ell fuel (isImproperList template) false (iterList template)
  | _ => ctsLoop p ell fuel (isImproperList template) false (iterList template)

/-- `Transform::check_pattern_support` (fix ff58560); the list argument is the `while let` loop -/
def cpsLoop (ell : Datum) : Nat → Bool → List Datum → Res Unit
  | 0, _, _ => .fuel
  | _+1, _, [] => .ok ()
  | f+1, inEll, it :: rest =>
    let ellNext := peekIs ell rest
    if ellNext && inEll then .err .syntax
    else
      let sub : Res Unit :=
        match it with
        | .vec _ => .err .syntax
        | .pair a d =>
          if isImproperList (.pair a d) then .err .syntax
          else cpsLoop ell f (inEll || ellNext) (iterList (.pair a d))
        | _ => .ok ()
      match sub with
      | .ok () => cpsLoop ell f inEll rest
      | .err e => .err e
      | .panic s => .panic s
      | .fuel => .fuel

def checkPatternSupport (fuel : Nat) (pattern ell : Datum) (inEll : Bool) : Res Unit :=
  match pattern with
  | .vec _ => .err .syntax
  | .pair a d =>
    if isImproperList (.pair a d) then .err .syntax
    else cpsLoop ell fuel inEll (iterList (.pair a d))
  | _ => .ok ()

/-- `Transform::check_template_support` (fix ff58560). Returns the updated `seen`. -/
def ctsupLoop (p : Pattern) (ell : Datum) : Nat → Bool → List Datum → List Datum → Res (List Datum)
  | 0, _, _, _ => .fuel
  | _+1, _, [], seen => .ok seen
  | f+1, inEll, it :: rest, seen =>
    -- one call of check_template_support on `it` with the given flag and `seen`
    let one (inEll : Bool) (seen : List Datum) : Res (List Datum) :=
      match it with
      | .vec _ => .err .syntax
      | .sym _ =>
        if cellEq it ell then .err .syntax
        else if p.isExpandedVariable it then
          if !inEll then .err .syntax
          else if seen.any (fun s => cellEq s it) then .err .syntax
          else .ok (seen ++ [it])
        else .ok seen
      | .pair a d =>
        if isImproperList (.pair a d) then .err .syntax
        else ctsupLoop p ell f inEll (iterList (.pair a d)) seen
      | _ => .ok seen
    if cellEq it ell then ctsupLoop p ell f inEll rest seen
    else if peekIs ell rest then
      if inEll then .err .syntax
      else
        match one true [] with
        | .ok seen' => if seen'.isEmpty then .err .syntax else ctsupLoop p ell f inEll rest seen
        | .err e => .err e
        | .panic s => .panic s
        | .fuel => .fuel
    else
      match one inEll seen with
      | .ok seen' => ctsupLoop p ell f inEll rest seen'
      | .err e => .err e
      | .panic s => .panic s
      | .fuel => .fuel

def checkTemplateSupport (fuel : Nat) (template : Datum) (p : Pattern) (ell : Datum) (inEll : Bool)
    (seen : List Datum) : Res (List Datum) :=
  match template with
  | .vec _ => .err .syntax
  | .sym _ =>
    if cellEq template ell then .err .syntax
    else if p.isExpandedVariable template then
      if !inEll then .err .syntax
      else if seen.any (fun s => cellEq s template) then .err .syntax
      else .ok (seen ++ [template])
    else .ok seen
  | .pair a d =>
    if isImproperList (.pair a d) then .err .syntax
    else ctsupLoop p ell fuel inEll (iterList (.pair a d)) seen
  | _ => .ok seen

/-! ## Transform -/

structure Transform where
  keyword : Datum
  ellipsis : Datum
  rules : List (Pattern × Datum)
  literals : List Datum
deriving Repr, Inhabited, DecidableEq

/-- the `for it in syntax_rules` loop of `Transform::try_new` -/
def rulesLoop (fuel : Nat) (ell : Datum) (lits : List Datum) :
    List Datum → List (Pattern × Datum) → Res (List (Pattern × Datum))
  | [], acc => .ok acc
  | it :: rest, acc => do
    let pattern ← carE it
    let template ← (cdrE it >>= carE)
    checkPatternSupport fuel pattern ell false
    let pat ← Pattern.tryNew fuel pattern ell lits
    checkTemplateSyntax fuel template pat ell
    let _ ← checkTemplateSupport fuel template pat ell false []
    rulesLoop fuel ell lits rest (acc ++ [(pat, template)])

/-- `Transform::try_new` -/
def Transform.tryNew (fuel : Nat) (expr : Datum) : Res Transform :=
  match iterList expr with
  | [_, keyword, sr] =>
    if !isSymbol keyword then .err .syntax
    else do
      let h ← carE sr
      if !cellEq h syntaxRulesSym then .err .syntax
      else
        let sr ← cdrE sr
        let h ← carE sr
        let (ellipsis, sr) ← (match h with
          | .sym _ => (cdrE sr).bind fun d => .ok (h, d)
          | _ => Res.ok (defaultEllipsis, sr))
        let lh ← carE sr
        let literals := iterList lh
        if literals.any (fun it => !isSymbol it) then .err .syntax
        else if literals.any (fun it => cellEq it ellipsis) then .err .syntax
        else
          let sr ← cdrE sr
          let rules ← rulesLoop fuel ellipsis literals (iterList sr) []
          .ok { keyword := keyword, ellipsis := ellipsis, rules := rules, literals := literals }
  | _ => .err .syntax

namespace Transform
def isLiteral (t : Transform) (c : Datum) : Bool := t.literals.any fun it => cellEq it c
end Transform

/-! ## Matcher -/

abbrev Bindings := List (Datum × Datum)

mutual
/-- `Transform::pattern_match`; returns the verdict and the environment's bindings (which the Rust
    code mutates in place, also on the way to a `false`) -/
def patternMatch (ell : Datum) (lits : List Datum) : Nat → Datum → Datum → Bindings → Res (Bool × Bindings)
  | 0, _, _, _ => .fuel
  | f+1, pattern, expr, env =>
    if (pattern.isPair || pattern.isNil) && !(expr.isPair || expr.isNil) then .ok (false, env)
    else if expr.isPair && pattern.isPair && (isList expr != isList pattern) then .ok (false, env)
    else matchLoop ell lits f (iterList expr) (iterList pattern) .nil false env

/-- the `loop` of `pattern_match`: remaining expressions, remaining patterns (peekable), the
    current `pattern`, `in_ellipsis`, bindings -/
def matchLoop (ell : Datum) (lits : List Datum) :
    Nat → List Datum → List Datum → Datum → Bool → Bindings → Res (Bool × Bindings)
  | 0, _, _, _, _, _ => .fuel
  | _+1, [], pats, _, inEll, env =>
    let pats := if inEll then pats.tail else pats
    match pats with
    | [] => .ok (true, env)
    | _ :: pats' =>
      if peekIs ell pats' then .ok (pats'.tail.isEmpty, env) else .ok (false, env)
  | f+1, e :: exprs, pats, cur, inEll, env =>
    -- select the next pattern: `none` = early return with the given verdict
    let sel : Sum Bool (Datum × List Datum) :=
      if inEll then
        if pats.length == exprs.length + 2 then
          match pats.tail with
          | p :: pats' => .inr (p, pats')
          | [] => .inl exprs.isEmpty
        else .inr (cur, pats)
      else
        match pats with
        | p :: pats' => .inr (p, pats')
        | [] => .inl false
    match sel with
    | .inl b => .ok (b, env)
    | .inr (cur, pats) =>
      let inEll := peekIs ell pats
      match cur with
      | .sym _ =>
        if lits.any (fun it => cellEq it cur) then
          if !cellEq cur e then .ok (false, env)
          else matchLoop ell lits f exprs pats cur inEll env
        else if !cellEq cur underscore then
          matchLoop ell lits f exprs pats cur inEll (env ++ [(cur, e)])
        else matchLoop ell lits f exprs pats cur inEll env
      | .pair _ _ =>
        match patternMatch ell lits f cur e env with
        | .ok (true, env) => matchLoop ell lits f exprs pats cur inEll env
        | .ok (false, env) => .ok (false, env)
        | .err x => .err x
        | .panic s => .panic s
        | .fuel => .fuel
      | _ =>
        if !cellEq cur e then .ok (false, env)
        else matchLoop ell lits f exprs pats cur inEll env
end

/-! ## Pattern environment and expansion -/

structure PEnv where
  bindings : Bindings
  iters : List (Datum × Option Nat)
deriving Repr, Inhabited, DecidableEq

/-- `PatternEnvironment::new` (bindings are added by the matcher) -/
def PEnv.new (p : Pattern) (bindings : Bindings) : PEnv :=
  { bindings := bindings, iters := p.expanded.map fun it => (it, none) }

/-- `.iter().enumerate().find(|it| it.1.0 == symbol)` over a slice -/
def findKey (sym : Datum) : Bindings → Nat → Option (Nat × Datum)
  | [], _ => none
  | (k, v) :: rest, i => if cellEq k sym then some (i, v) else findKey sym rest (i + 1)

/-- update the first cursor whose key equals `sym` (`iters.iter_mut().find(..)` then `*iter = v`) -/
def setIter (sym : Datum) (v : Option Nat) : List (Datum × Option Nat) → List (Datum × Option Nat)
  | [] => []
  | (k, c) :: rest => if cellEq k sym then (k, v) :: rest else (k, c) :: setIter sym v rest

def findIter (sym : Datum) : List (Datum × Option Nat) → Option (Option Nat)
  | [] => none
  | (k, c) :: rest => if cellEq k sym then some c else findIter sym rest

/-- `PatternEnvironment::reset_iters` (fix ff58560) -/
def PEnv.resetIters (env : PEnv) : PEnv :=
  { env with iters := env.iters.map fun it => (it.1, none) }

/-- `PatternEnvironment::get_expanded_binding` -/
def PEnv.getExpandedBinding (env : PEnv) (sym : Datum) : Res (Option Datum × PEnv) :=
  match findIter sym env.iters with
  | none => .ok (none, env)
  | some cur =>
    let start := match cur with | some pos => pos | none => 0
    -- `self.bindings[start..self.bindings.len()]` panics when start > len
    if start > env.bindings.length then .panic "get_expanded_binding: slice"
    else
      match findKey sym (env.bindings.drop start) 0 with
      | some (i, v) => .ok (some v, { env with iters := setIter sym (some (start + i + 1)) env.iters })
      | none => .ok (none, { env with iters := setIter sym none env.iters })

/-- `PatternEnvironment::get_binding` -/
def PEnv.getBinding (p : Pattern) (env : PEnv) (sym : Datum) : Res (Option Datum × PEnv) :=
  if !p.isVariable sym then .ok (none, env)
  else if p.isExpandedVariable sym then env.getExpandedBinding sym
  else .ok ((findKey sym env.bindings 0).map (·.2), env)

mutual
/-- `Transform::expand` -/
def expand (ell : Datum) (p : Pattern) : Nat → Datum → PEnv → Res (Option Datum × PEnv)
  | 0, _, _ => .fuel
  | _+1, .sym s, env =>
    if p.isVariable (.sym s) then env.getBinding p (.sym s) else .ok (some (.sym s), env)
  | f+1, .pair a d, env =>
    -- `template_iter.next().unwrap()`: the template is a pair, so the iterator is not empty
    expandLoop ell p f a (iterList d) [] env
  | _+1, c, env => .ok (some c, env)

/-- the `loop` in the pair case of `expand`: current `template`, rest of `template_iter`, `v` -/
def expandLoop (ell : Datum) (p : Pattern) :
    Nat → Datum → List Datum → List Datum → PEnv → Res (Option Datum × PEnv)
  | 0, _, _, _, _ => .fuel
  | f+1, cur, rest, v, env =>
    let inEll := peekIs ell rest
    match expand ell p f cur env with
    | .ok (some cell, env) =>
      let v := v ++ [cell]
      if inEll then expandLoop ell p f cur rest v env
      else
        match rest with
        | t :: rest => expandLoop ell p f t rest v env
        | [] => .ok (some (Datum.ofList v), env)
    | .ok (none, env) =>
      if !inEll then .ok (none, env)
      else
        let env := env.resetIters
        match rest.tail with
        | t :: rest => expandLoop ell p f t rest v env
        | [] => .ok (some (Datum.ofList v), env)
    | .err x => .err x
    | .panic s => .panic s
    | .fuel => .fuel
end

/-- the `for rule in &self.syntax_rules` loop of `Transform::transform` -/
def transformRules (fuel : Nat) (t : Transform) (expr : Datum) : List (Pattern × Datum) → Res Datum
  | [] => .err .syntax
  | (pat, template) :: rest =>
    match cdrE pat.expr with
    | .ok pcdr =>
      match cdrE expr with
      | .ok ecdr =>
        match patternMatch t.ellipsis t.literals fuel pcdr ecdr [] with
        | .ok (true, bindings) =>
          match expand t.ellipsis pat fuel template (PEnv.new pat bindings) with
          | .ok (some c, _) => .ok c
          | .ok (none, _) => .err .syntax
          | .err x => .err x
          | .panic s => .panic s
          | .fuel => .fuel
        | .ok (false, _) => transformRules fuel t expr rest
        | .err x => .err x
        | .panic s => .panic s
        | .fuel => .fuel
      | .err e => .err e
      | .panic s => .panic s
      | .fuel => .fuel
    | .err e => .err e
    | .panic s => .panic s
    | .fuel => .fuel

/-- `Transform::transform` -/
def Transform.transform (fuel : Nat) (t : Transform) (expr : Datum) : Res Datum :=
  if !expr.isPair then .err .syntax else transformRules fuel t expr t.rules

/-! ## Fuel the driver runs with (shown sufficient in `Marwood.Proofs.C17`) -/

/-- fuel for `Transform.tryNew` on a definition -/
def defFuel (d : Datum) : Nat := dsize d + 2

/-- fuel for `Transform.transform` of a use, for a transformer read from definition `d` -/
def useFuel (d use : Datum) : Nat := 2 * (dsize d + 2) * (dsize use + 2)

end Marwood.Transform
