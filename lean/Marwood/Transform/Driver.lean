import Marwood.Transform.Model
/-!
# Model of the expansion driver: `Vm::transform` in `marwood/src/vm/compile.rs` (lines 78–165)

`Vm::transform` / `transform_procedure_application` / `transform_quasiquote`, line by line.

What the Rust code does with a form before compiling it:

* a non-pair (symbol, number, string, vector, `()`, …) is returned as it is (`transform`);
* a pair `(hd . rest)` goes to `transform_procedure_application`:
  1. `hd` is the symbol `quote` or `define-syntax`: the form is returned as it is, whatever follows;
  2. `hd` is the symbol `quasiquote` and `rest` is a pair `(tpl . r)`: only `tpl` is walked, by
     `transform_quasiquote tpl 0`; `r` is kept;
  3. `hd` is a symbol bound to a macro in the *global* environment (the driver knows nothing about
     lexical scope): the transformer is applied to the form **as written** (`transform.transform(expr)?`,
     an error leaves with `?`), and the expansion is transformed again (`self.transform(&expansion)`);
  4. otherwise every element is transformed, left to right: `hd` itself, then the cars along the
     spine of `rest`; a non-pair, non-nil final cdr goes through `transform` too (which returns it).
     **Every** element: the formals of a `lambda`, the target of a `define`, the variable of a `set!`
     are walked like operands (finding `C17-driver-keyword-in-binding-position`).
* `transform_quasiquote expr depth`: a vector is walked element-wise; a non-pair is returned; a pair
  whose car is the symbol `unquote` is, at depth 0, `(unquote e . rest)` ↦ `(unquote <transform e> . rest)`
  (returned unchanged if its cdr is not a pair), and at depth > 0 lowers the depth by one; a pair whose
  car is the symbol `quasiquote` raises the depth; then the cars along the spine (the head symbol
  included) are walked at the new depth and the final cdr is kept.

The only unbounded recursion is step 3 (an expansion is transformed again); everything else is
structural recursion on the form. The model is therefore structurally recursive on the datum
(`walk`, `walkList`, `walkQQ`, …) with the re-transformation of an expansion passed in as `re`, and
`expandForm` ties the knot with fuel = number of *nested* expansions still allowed: `expandForm M 0`
answers `.fuel` as soon as an expansion would have to be transformed again.

The macro table `M : List (Text × Transform)` stands for the global environment restricted to the
slots that hold a `VCell::Macro` (first entry for a name wins: a later `define-syntax` is prepended).
`Transform.transform` is run with `useFuelT`, which `Marwood.Proofs.C17` shows sufficient for every
transformer `Transform::try_new` accepts — so `.fuel` can only come from the chain of expansions.

Top-level effect of `define-syntax` (`compile_define_syntax` + running the emitted code): `expandSession`.
Not modelled: a `define-syntax` that is not the top-level form itself (the emitted store runs whenever
the enclosing code runs), and a macro keyword being rebound by `define` / `set!` at run time.
Core Lean only (the driver executable links this file).
-/
namespace Marwood.Transform
open Marwood

abbrev MacroTable := List (Text × Transform)

def quoteN : Text := ['q','u','o','t','e']
def defineSyntaxN : Text := ['d','e','f','i','n','e','-','s','y','n','t','a','x']
def quasiquoteN : Text := ['q','u','a','s','i','q','u','o','t','e']
def unquoteN : Text := ['u','n','q','u','o','t','e']

/-- `self.heap.get_sym_ref(proc)` + `self.globenv.get(..)` + `if let Some(VCell::Macro(t))` -/
def macroOf (M : MacroTable) : Datum → Option Transform
  | .sym s => M.lookup s
  | _ => none

/-- what the first tests of `transform_procedure_application` decide from the head -/
inductive HeadKind
  | asIs      -- `quote`, `define-syntax`
  | quasi     -- `quasiquote`
  | other
deriving DecidableEq, Repr

def headKind : Datum → HeadKind
  | .sym s => if s = quoteN ∨ s = defineSyntaxN then .asIs else if s = quasiquoteN then .quasi else .other
  | _ => .other

/-- `Cell::is_unquote` -/
def isUnquote : Datum → Bool
  | .sym s => s = unquoteN
  | _ => false

/-- `Cell::is_quasiquote` -/
def isQuasiquote : Datum → Bool
  | .sym s => s = quasiquoteN
  | _ => false

/-- fuel `Transform.transform` is run with by the driver model: enough for the matcher
    (`3·|u| + 1`) and for `expand` on every rule (`2·(|u|+1)·|template|`), see
    `Marwood.Proofs.C17.useFuelT_sufficient` -/
def useFuelT (t : Transform) (u : Datum) : Nat :=
  3 * dsize u + 1 + (t.rules.map fun r => 2 * (dsize u + 1) * dsize r.2).sum

/-- step 3: the transformer sees the use as written (`transform.transform(expr)?`); its expansion is
    handed to `re` (`self.transform(&expansion)`) -/
def expandUse (re : Datum → Res Datum) (t : Transform) (u : Datum) : Res Datum :=
  (t.transform (useFuelT t u) u).bind re

/-- `transform_procedure_application` on `(hd . rest)`, given (lazily) what the recursive calls answer:
    `wh` = `self.transform(proc)`, `wl` = the loop over `rest`, `wq` = `transform_quasiquote(rest.car, 0)`
    re-wrapped with `rest.cdr` (present iff `rest` is a pair) -/
def walkPair (M : MacroTable) (re : Datum → Res Datum) (hd rest : Datum)
    (wh wl : Unit → Res Datum) (wq : Option (Unit → Res Datum)) : Res Datum :=
  -- steps 3 and 4
  let generic : Unit → Res Datum := fun _ =>
    match macroOf M hd with
    | some t => expandUse re t (.pair hd rest)
    | none => (wh ()).bind fun h => (wl ()).bind fun r => .ok (.pair h r)
  match headKind hd with
  | .asIs => .ok (.pair hd rest)
  | .quasi =>
    match wq with
    | some q => (q ()).bind fun r' => .ok (.pair hd r')
    | none => generic ()
  | .other => generic ()

/-- the pair case of `transform_quasiquote` on `(a . d)` at `depth`, given what the recursive calls
    answer: `wa dp` = `transform_quasiquote(a, dp)`, `ws dp` = the loop over `d` at depth `dp`,
    `wu` = `(<transform unquoted> . rest)` for `d = (unquoted . rest)` (present iff `d` is a pair) -/
def walkQQPair (a d : Datum) (depth : Nat) (wa ws : Nat → Res Datum) (wu : Option (Unit → Res Datum)) :
    Res Datum :=
  if isUnquote a then
    match depth with
    | 0 =>
      match wu with
      | some u => (u ()).bind fun d' => .ok (.pair a d')
      | none => .ok (.pair a d)
    | dp + 1 =>
      -- `depth -= 1`; the car is `unquote`, so not `quasiquote`; then the loop over the whole spine
      (wa dp).bind fun a' => (ws dp).bind fun d' => .ok (.pair a' d')
  else
    let depth' := if isQuasiquote a then depth + 1 else depth
    (wa depth').bind fun a' => (ws depth').bind fun d' => .ok (.pair a' d')

mutual
/-- `Vm::transform` (pair case: `transform_procedure_application`, see `walkPair`) -/
def walk (M : MacroTable) (re : Datum → Res Datum) : Datum → Res Datum
  | .pair hd rest =>
    walkPair M re hd rest (fun _ => walk M re hd) (fun _ => walkList M re rest) (walkQQHead M re rest)
  | d => .ok d

/-- the `while rest.is_pair()` loop of `transform_procedure_application` and what follows it:
    `new_list(v)` for a `Nil` end, `new_improper_list(v, self.transform(rest)?)` otherwise
    (`rest` is then not a pair, so `transform` returns it) -/
def walkList (M : MacroTable) (re : Datum → Res Datum) : Datum → Res Datum
  | .pair x r => (walk M re x).bind fun x' => (walkList M re r).bind fun r' => .ok (.pair x' r')
  | d => .ok d

/-- `rest` of `(quasiquote . rest)`: `(transform_quasiquote(rest.car, 0) . rest.cdr)` if it is a pair -/
def walkQQHead (M : MacroTable) (re : Datum → Res Datum) : Datum → Option (Unit → Res Datum)
  | .pair tpl r => some fun _ => (walkQQ M re 0 tpl).bind fun t' => .ok (.pair t' r)
  | _ => none

/-- `transform_quasiquote` (pair case: see `walkQQPair`) -/
def walkQQ (M : MacroTable) (re : Datum → Res Datum) : Nat → Datum → Res Datum
  | depth, .vec elems => (walkQQSpine M re depth elems).bind fun e => .ok (.vec e)
  | depth, .pair a d =>
    walkQQPair a d depth (fun dp => walkQQ M re dp a) (fun dp => walkQQSpine M re dp d) (walkUnq M re d)
  | _, d => .ok d

/-- `d` of `(unquote . d)` at depth 0: `(self.transform(unquoted) . rest)` if `d = (unquoted . rest)` -/
def walkUnq (M : MacroTable) (re : Datum → Res Datum) : Datum → Option (Unit → Res Datum)
  | .pair unq rest => some fun _ => (walk M re unq).bind fun u' => .ok (.pair u' rest)
  | _ => none

/-- the `while rest.is_pair()` loop of `transform_quasiquote` (`new_improper_list(v, rest.clone())`),
    also the element-wise map over a vector -/
def walkQQSpine (M : MacroTable) (re : Datum → Res Datum) : Nat → Datum → Res Datum
  | depth, .pair x r =>
    (walkQQ M re depth x).bind fun x' => (walkQQSpine M re depth r).bind fun r' => .ok (.pair x' r')
  | _, d => .ok d
end

/-- **the expansion driver**: `Vm::transform` with at most `fuel` nested re-transformations of an
    expansion (`.fuel` when one more would be needed) -/
def expandForm (M : MacroTable) : Nat → Datum → Res Datum
  | 0 => walk M (fun _ => .fuel)
  | f + 1 => walk M (expandForm M f)

/-! ## The macro table across top-level forms -/

/-- running the code `compile_define_syntax` emits for a top-level `(define-syntax kw (syntax-rules …))`:
    the transformer is stored in the global slot of its keyword -/
def installMacro (M : MacroTable) (form : Datum) : MacroTable :=
  match form with
  | .pair hd _ =>
    if hd = .sym defineSyntaxN then
      match Transform.tryNew (defFuel form) form with
      | .ok t =>
        match t.keyword with
        | .sym k => (k, t) :: M
        | _ => M
      | _ => M
    else M
  | _ => M

/-- a session: every form is transformed with the table the earlier forms left behind; a top-level
    `define-syntax` that `try_new` accepts adds its macro for the LATER forms -/
def expandSession (M : MacroTable) (fuel : Nat) : List Datum → List (Res Datum)
  | [] => []
  | d :: ds =>
    let r := expandForm M fuel d
    r :: expandSession (match r with | .ok e => installMacro M e | _ => M) fuel ds

/-- the table a list of `define-syntax` forms leaves behind (rejected definitions leave nothing) -/
def tableOf (defs : List Datum) : MacroTable :=
  defs.foldl installMacro []

end Marwood.Transform
