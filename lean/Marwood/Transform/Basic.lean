import Marwood.Datum
/-!
# Transform area — common definitions

Outcomes, the `Cell` helpers `transform.rs` uses (`iter`, `len`, `is_list`, `is_improper_list`,
`car!`, `cdr!`) and `Cell`'s `PartialEq` (derived, except that `Number` compares numerically).
Core Lean only (the driver links this file).

Modelling notes
* `Cell::iter()` (`cell.rs` `IntoIter`) yields the cars along the spine and then, if the final cdr is
  not `Nil`, that final cdr as a last element; a non-pair, non-nil cell yields itself once.
  `Peekable<IntoIter>` is therefore modelled as the `List Datum` of the elements still to come
  (`peek` = head, `next` = head + tail, `len()` = length — `ExactSizeIterator` over `size_hint`,
  which counts the peeked element).
* Outcomes are `ok | err | panic | fuel`; `fuel` is what a fuel-indexed loop answers when the fuel
  runs out, so non-termination is representable (`∀ fuel, f fuel x = .fuel`).
-/
namespace Marwood.Transform
open Marwood

/-- error classes that can leave `transform.rs` (`Error::InvalidSyntax`, `Error::ExpectedPairButFound`) -/
inductive TErr
  | syntax
  | pair
deriving DecidableEq, Repr, Inhabited

inductive Res (α : Type) where
  | ok (a : α)
  | err (e : TErr)
  | panic (site : String)
  | fuel
deriving Repr, Inhabited, DecidableEq

namespace Res
@[inline] def bind {α β : Type} (x : Res α) (f : α → Res β) : Res β :=
  match x with
  | ok a => f a
  | err e => err e
  | panic s => panic s
  | fuel => fuel

instance : Monad Res where
  pure := ok
  bind := bind

@[simp] theorem pure_eq {α} (a : α) : (pure a : Res α) = ok a := rfl
@[simp] theorem bind_ok {α β} (a : α) (f : α → Res β) : (ok a >>= f) = f a := rfl
@[simp] theorem bind_err {α β} (e : TErr) (f : α → Res β) : (err e >>= f) = err e := rfl
@[simp] theorem bind_panic {α β} (m : String) (f : α → Res β) : (panic m >>= f) = panic m := rfl
@[simp] theorem bind_fuel {α β} (f : α → Res β) : (fuel >>= f) = fuel := rfl

def isFuel {α} : Res α → Bool
  | fuel => true
  | _ => false
end Res

/-! ## `Cell` helpers -/

/-- `cell.iter()` collected -/
def iterList : Datum → List Datum
  | .pair a d => a :: iterList d
  | .nil => []
  | d => [d]

/-- `Cell::len` = `self.iter().count()` -/
def len (d : Datum) : Nat := (iterList d).length

def isSymbol : Datum → Bool
  | .sym _ => true
  | _ => false

/-- the loop of `is_list` / `is_improper_list`: is the final cdr `Nil`? -/
def endsInNil : Datum → Bool
  | .pair _ d => endsInNil d
  | .nil => true
  | _ => false

/-- `Cell::is_list` (false for a non-pair, including `Nil`) -/
def isList : Datum → Bool
  | .pair _ d => endsInNil d
  | _ => false

/-- `Cell::is_improper_list` (false for a non-pair) -/
def isImproperList : Datum → Bool
  | .pair _ d => !endsInNil d
  | _ => false

/-- `car!` -/
def carE : Datum → Res Datum
  | .pair a _ => .ok a
  | _ => .err .pair

/-- `cdr!` -/
def cdrE : Datum → Res Datum
  | .pair _ d => .ok d
  | _ => .err .pair

/-! ## Equality of cells

`Cell` derives `PartialEq`; `Number` implements it by hand (number.rs:334) as numeric equality
across representations. Modelled exactly for exact×exact and float×float and integer×float;
rational×float (`Ratio::to_f64` then `==`) is answered `false` (modelling gap, named in the plugin
note; the generators never produce that pair). -/

/-- value of an `i64`/`BigInt` after `as f64` / `to_f64()`, for finite results: round to 53
    significant bits, ties to even -/
def roundTo53 (n : Nat) : Nat :=
  let bits := Nat.log2 n + 1
  if bits ≤ 53 then n else
    let sh := bits - 53
    let q := n >>> sh
    let r := n % (2 ^ sh)
    let half := 2 ^ (sh - 1)
    let q' := if r > half || (r == half && q % 2 == 1) then q + 1 else q
    q' <<< sh

/-- decode a finite binary64 with an integral value: `some v`; non-integral, infinite, NaN: `none` -/
def f64IntValue (f : F64) : Option Int :=
  let b := f.bits
  let neg := (b >>> 63) % 2 == 1
  let e := (b >>> 52) % 2048
  let m := b % (2 ^ 52)
  if e == 2047 then none
  else
    let (mant, ex) : Nat × Int := if e == 0 then (m, -1074) else (m + 2 ^ 52, (e : Int) - 1075)
    if mant == 0 then some 0
    else if ex ≥ 0 then
      let v : Int := (mant * 2 ^ ex.toNat : Nat)
      some (if neg then -v else v)
    else
      let k := (-ex).toNat
      if mant % (2 ^ k) == 0 then
        let v : Int := (mant / 2 ^ k : Nat)
        some (if neg then -v else v)
      else none

def f64IsNaN (f : F64) : Bool := (f.bits >>> 52) % 2048 == 2047 && f.bits % (2 ^ 52) != 0
def f64IsZero (f : F64) : Bool := f.bits % (2 ^ 63) == 0

/-- IEEE `==` on binary64 -/
def f64Eq (a b : F64) : Bool :=
  if f64IsNaN a || f64IsNaN b then false
  else if f64IsZero a && f64IsZero b then true
  else a.bits == b.bits

/-- `(n as f64) == f` for an integer `n` whose conversion stays finite (|n| < 2^1024) -/
def intEqF64 (n : Int) (f : F64) : Bool :=
  match f64IntValue f with
  | some v => (if n < 0 then -(roundTo53 n.natAbs : Int) else (roundTo53 n.natAbs : Int)) == v
  | none => false

/-- `Rational32::from_integer(n as i32) == r` guarded by `to_i32().is_some()` -/
def intEqRat (n : Int) (rn rd : Int) : Bool := inI32 n && n * rd == rn

/-- `impl PartialEq for Number` -/
def numEq : Num → Num → Bool
  | .fix a, .fix b => a == b
  | .fix a, .big b => a == b
  | .big a, .fix b => a == b
  | .big a, .big b => a == b
  | .fix a, .rat n d => intEqRat a n d
  | .big a, .rat n d => intEqRat a n d
  | .rat n d, .fix a => intEqRat a n d
  | .rat n d, .big a => intEqRat a n d
  | .rat n d, .rat n' d' => n * d' == n' * d
  | .flo a, .flo b => f64Eq a b
  | .fix a, .flo b => intEqF64 a b
  | .big a, .flo b => intEqF64 a b
  | .flo a, .fix b => intEqF64 b a
  | .flo a, .big b => intEqF64 b a
  | .flo _, .rat _ _ => false
  | .rat _ _, .flo _ => false

/-- `impl PartialEq for Cell` (derived; numbers through `numEq`) -/
def cellEq : Datum → Datum → Bool
  | .bool a, .bool b => a == b
  | .char a, .char b => a == b
  | .nil, .nil => true
  | .num a, .num b => numEq a b
  | .pair a d, .pair a' d' => cellEq a a' && cellEq d d'
  | .str a, .str b => a == b
  | .sym a, .sym b => a == b
  | .vec a, .vec b => cellEq a b
  | .continuation, .continuation => true
  | .macro_, .macro_ => true
  | .procedure a, .procedure b => a == b
  | .undefined, .undefined => true
  | .void, .void => true
  | _, _ => false

/-- number of nodes of a datum (the size all fuel bounds are stated in) -/
def dsize : Datum → Nat
  | .pair a d => dsize a + dsize d + 1
  | .vec e => dsize e + 1
  | _ => 1

/-- `cell!["_"]` -/
def underscore : Datum := .sym ['_']

/-- `cell!["..."]` -/
def defaultEllipsis : Datum := .sym ['.', '.', '.']

/-- `cell!["syntax-rules"]` -/
def syntaxRulesSym : Datum := .sym ['s','y','n','t','a','x','-','r','u','l','e','s']

/-- `peek() == Some(&x)` on the model of a peekable iterator -/
def peekIs (x : Datum) : List Datum → Bool
  | c :: _ => cellEq c x
  | [] => false

end Marwood.Transform
