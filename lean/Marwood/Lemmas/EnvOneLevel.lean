import Marwood.Lemmas.EnvRuntime
/-!
# T02.2: one level of indirection is an invariant of CLOSURE, ENTER and assignment
-/
namespace Marwood.Vm.Env
open Marwood.Scope

variable {α : Type}

/-- every `LexicalEnvPtr(p, q)` stored in an environment points at a slot that holds a value (or
    is still undefined), never at another pointer -/
def OneLevel (h : Envs α) : Prop :=
  ∀ (e : Nat) (a : Array (Slot α)) (i p q : Nat), h.envs[e]? = some a → a[i]? = some (.ptr p q) →
    ∃ (b : Array (Slot α)) (g : Slot α), h.envs[p]? = some b ∧ b[q]? = some g ∧ g.isPtr = false

theorem OneLevel.empty : OneLevel ({} : Envs α) := by
  intro e a i p q ha
  simp at ha

theorem closureSlots_inv (h : Envs α) (ep : Nat) (args : List α) (em : Envmap) (ss : List (Slot α))
    (hs : closureSlots h ep args em = .ok ss) (i : Nat) (v : Slot α) (hv : ss[i]? = some v) :
    ∃ x src, em[i]? = some (x, src) ∧ closureSlot h ep args src = .ok v := by
  induction em generalizing i ss with
  | nil =>
    simp only [closureSlots, Except.ok.injEq] at hs
    subst hs
    simp at hv
  | cons p em ih =>
    obtain ⟨y, s0⟩ := p
    simp only [closureSlots, bind, Except.bind] at hs
    cases h1 : closureSlot h ep args s0 with
    | error e => simp [h1] at hs
    | ok v0 =>
      cases h2 : closureSlots h ep args em with
      | error e => simp [h1, h2] at hs
      | ok ss' =>
        simp only [h1, h2, pure, Except.pure] at hs
        cases hs
        cases i with
        | zero =>
          simp at hv
          subst hv
          exact ⟨y, s0, by simp, h1⟩
        | succ j =>
          simp at hv
          obtain ⟨x, src, he, hc⟩ := ih ss' h2 j hv
          exact ⟨x, src, by simpa using he, hc⟩

theorem closureSlot_ptr_valid (h : Envs α) (hone : OneLevel h) (ep : Nat) (args : List α) (src : Source)
    (p q : Nat) (hc : closureSlot h ep args src = .ok (.ptr p q)) :
    ∃ (b : Array (Slot α)) (g : Slot α), h.envs[p]? = some b ∧ b[q]? = some g ∧ g.isPtr = false := by
  cases src with
  | argument n => simp [closureSlot] at hc
  | internal => simp [closureSlot] at hc
  | iofArg n =>
    simp only [closureSlot] at hc
    split at hc <;> simp at hc
  | iofEnv k =>
    simp only [closureSlot, Envs.getEnv, getSlot, bind, Except.bind] at hc
    cases ha : h.envs[ep]? with
    | none => simp [ha] at hc
    | some a =>
      cases hg : a[k]? with
      | none => simp [ha, hg] at hc
      | some g =>
        simp only [ha, hg] at hc
        cases g with
        | ptr e s =>
          simp only [pure, Except.pure, Except.ok.injEq, Slot.ptr.injEq] at hc
          obtain ⟨rfl, rfl⟩ := hc
          exact hone ep a k _ _ ha hg
        | undef =>
          simp only [pure, Except.pure, Except.ok.injEq, Slot.ptr.injEq] at hc
          obtain ⟨rfl, rfl⟩ := hc
          exact ⟨a, .undef, ha, hg, rfl⟩
        | val v =>
          simp only [pure, Except.pure, Except.ok.injEq, Slot.ptr.injEq] at hc
          obtain ⟨rfl, rfl⟩ := hc
          exact ⟨a, .val v, ha, hg, rfl⟩

/-- pushing an environment whose pointers are valid in the old heap keeps the invariant -/
theorem OneLevel.push (h : Envs α) (hone : OneLevel h) (arr : Array (Slot α))
    (hnew : ∀ (i p q : Nat), arr[i]? = some (Slot.ptr p q) →
      ∃ (b : Array (Slot α)) (g : Slot α), h.envs[p]? = some b ∧ b[q]? = some g ∧ g.isPtr = false) :
    OneLevel (h.push arr).1 := by
  intro e a i p q ha hg
  have key : ∃ (b : Array (Slot α)) (g : Slot α), h.envs[p]? = some b ∧ b[q]? = some g ∧ g.isPtr = false := by
    by_cases he : e = h.envs.size
    · subst he
      have : (h.push arr).1.envs[h.envs.size]? = some arr := push_get_new h arr
      rw [this] at ha
      cases ha
      exact hnew i p q hg
    · have hlt : e < h.envs.size := by
        rcases Nat.lt_or_ge e (h.envs.size + 1) with h1 | h1
        · omega
        · have : (h.push arr).1.envs.size = h.envs.size + 1 := by simp [Envs.push]
          simp [Array.getElem?_eq_none (by omega : (h.push arr).1.envs.size ≤ e)] at ha
      have : h.envs[e]? = some a := by
        simpa [Envs.push, Array.getElem?_push, he] using ha
      exact hone e a i p q this hg
  obtain ⟨b, g, hb, hg', hnp⟩ := key
  exact ⟨b, g, push_get_old h arr b p hb, hg', hnp⟩

/-- **T02.2, CLOSURE.** -/
theorem buildClosureEnvironment_oneLevel (h h1 : Envs α) (hone : OneLevel h) (ep c : Nat) (args : List α)
    (em : Envmap) (hb : buildClosureEnvironment h ep args em = .ok (h1, c)) : OneLevel h1 := by
  simp only [buildClosureEnvironment, bind, Except.bind] at hb
  cases hs : closureSlots h ep args em with
  | error e => simp [hs] at hb
  | ok ss =>
    simp only [hs, pure, Except.pure, Except.ok.injEq, Prod.mk.injEq] at hb
    obtain ⟨rfl, rfl⟩ := hb
    apply OneLevel.push h hone
    intro i p q hg
    obtain ⟨x, src, _, hc⟩ := closureSlots_inv h ep args em ss hs i _ (by simpa using hg)
    exact closureSlot_ptr_valid h hone ep args src p q hc

theorem activationSlots_inv (cenv : Nat) (args : List α) (i0 : Nat) (olds : List (Slot α)) (em : Envmap)
    (ss : List (Slot α)) (hs : activationSlots cenv args i0 olds em = .ok ss) (i : Nat) (v : Slot α)
    (hv : ss[i]? = some v) :
    ∃ old, olds[i]? = some old ∧ (v = old ∨ ∃ src, activationSlot cenv args (i0 + i) old src = .ok v) := by
  induction em generalizing i i0 olds ss with
  | nil =>
    cases olds with
    | nil => simp only [activationSlots, Except.ok.injEq] at hs; subst hs; simp at hv
    | cons o olds' =>
      simp only [activationSlots, Except.ok.injEq] at hs
      subst hs
      exact ⟨v, hv, Or.inl rfl⟩
  | cons p em ih =>
    obtain ⟨y, s0⟩ := p
    cases olds with
    | nil => simp [activationSlots] at hs
    | cons o olds' =>
      simp only [activationSlots, bind, Except.bind] at hs
      cases h1 : activationSlot cenv args i0 o s0 with
      | error e => simp [h1] at hs
      | ok v0 =>
        cases h2 : activationSlots cenv args (i0 + 1) olds' em with
        | error e => simp [h1, h2] at hs
        | ok ss' =>
          simp only [h1, h2, pure, Except.pure] at hs
          cases hs
          cases i with
          | zero =>
            simp at hv
            subst hv
            exact ⟨o, by simp, Or.inr ⟨s0, by simpa using h1⟩⟩
          | succ j =>
            simp at hv
            obtain ⟨old, ho, hcase⟩ := ih (i0 + 1) olds' ss' h2 j hv
            refine ⟨old, by simpa using ho, ?_⟩
            rcases hcase with h | ⟨src, h⟩
            · exact Or.inl h
            · exact Or.inr ⟨src, by rw [← h]; congr 1; omega⟩

/-- **T02.2, ENTER.** -/
theorem buildLexicalEnvironment_oneLevel (h h1 : Envs α) (hone : OneLevel h) (cenv a : Nat) (args : List α)
    (em : Envmap) (hb : buildLexicalEnvironment h cenv args em = .ok (h1, a)) : OneLevel h1 := by
  simp only [buildLexicalEnvironment, Envs.getEnv, bind, Except.bind] at hb
  cases hc : h.envs[cenv]? with
  | none => simp [hc] at hb
  | some c =>
    cases hs : activationSlots cenv args 0 c.toList em with
    | error e => simp [hc, hs] at hb
    | ok ss =>
      simp only [hc, hs, pure, Except.pure, Except.ok.injEq, Prod.mk.injEq] at hb
      obtain ⟨rfl, rfl⟩ := hb
      apply OneLevel.push h hone
      intro i p q hg
      obtain ⟨old, ho, hcase⟩ := activationSlots_inv cenv args 0 c.toList em ss hs i _ (by simpa using hg)
      have ho' : c[i]? = some old := by simpa using ho
      rcases hcase with h | ⟨src, h⟩
      · subst h
        exact hone cenv c i p q hc ho'
      · simp only [Nat.zero_add] at h
        cases src with
        | argument n =>
          simp only [activationSlot] at h
          split at h <;> simp at h
        | internal =>
          simp only [activationSlot, Except.ok.injEq] at h
          subst h
          exact hone cenv c i p q hc ho'
        | iofArg n =>
          cases old with
          | ptr e s =>
            simp only [activationSlot, Except.ok.injEq, Slot.ptr.injEq] at h
            obtain ⟨rfl, rfl⟩ := h
            exact hone cenv c i _ _ hc ho'
          | undef =>
            simp only [activationSlot, Except.ok.injEq, Slot.ptr.injEq] at h
            obtain ⟨rfl, rfl⟩ := h
            exact ⟨c, .undef, hc, ho', rfl⟩
          | val v =>
            simp only [activationSlot, Except.ok.injEq, Slot.ptr.injEq] at h
            obtain ⟨rfl, rfl⟩ := h
            exact ⟨c, .val v, hc, ho', rfl⟩
        | iofEnv k =>
          cases old with
          | ptr e s =>
            simp only [activationSlot, Except.ok.injEq, Slot.ptr.injEq] at h
            obtain ⟨rfl, rfl⟩ := h
            exact hone cenv c i _ _ hc ho'
          | undef =>
            simp only [activationSlot, Except.ok.injEq, Slot.ptr.injEq] at h
            obtain ⟨rfl, rfl⟩ := h
            exact ⟨c, .undef, hc, ho', rfl⟩
          | val v =>
            simp only [activationSlot, Except.ok.injEq, Slot.ptr.injEq] at h
            obtain ⟨rfl, rfl⟩ := h
            exact ⟨c, .val v, hc, ho', rfl⟩

/-- under the invariant the slot an operand denotes holds a value -/
theorem target_not_ptr (h : Envs α) (hone : OneLevel h) (ep s e t : Nat) (ht : target h ep s = .ok (e, t)) :
    ∀ (a : Array (Slot α)) (g : Slot α), h.envs[e]? = some a → a[t]? = some g → g.isPtr = false := by
  intro a g ha hg
  obtain ⟨a0, g0, ha0, hg0, hr⟩ := target_ok_inv h ep s (e, t) ht
  cases g0 with
  | ptr p q =>
    simp only [Prod.mk.injEq] at hr
    obtain ⟨rfl, rfl⟩ := hr
    obtain ⟨b, g', hb, hg', hnp⟩ := hone ep a0 s _ _ ha0 hg0
    rw [ha] at hb; cases hb
    rw [hg] at hg'; cases hg'
    exact hnp
  | undef =>
    simp only [Prod.mk.injEq] at hr
    obtain ⟨rfl, rfl⟩ := hr
    rw [ha] at ha0; cases ha0
    rw [hg] at hg0; cases hg0
    rfl
  | val v =>
    simp only [Prod.mk.injEq] at hr
    obtain ⟨rfl, rfl⟩ := hr
    rw [ha] at ha0; cases ha0
    rw [hg] at hg0; cases hg0
    rfl

/-- an assignment in a heap satisfying the invariant changes no slot's kind -/
theorem store_evolves_of_oneLevel (h h' : Envs α) (hone : OneLevel h) (ep s : Nat) (v : α)
    (hs : store h ep s v = .ok h') : Evolves h h' := by
  cases ht : target h ep s with
  | error e => simp [store, ht, bind, Except.bind] at hs
  | ok r =>
    obtain ⟨e, t⟩ := r
    exact store_evolves h h' ep s v hs e t ht (target_not_ptr h hone ep s e t ht)

/-- **T02.2, assignment.** -/
theorem store_oneLevel (h h' : Envs α) (hone : OneLevel h) (ep s : Nat) (v : α)
    (hs : store h ep s v = .ok h') : OneLevel h' := by
  have hev := store_evolves_of_oneLevel h h' hone ep s v hs
  -- every environment of h' comes from one of h with the same pointers (sizes are equal)
  have hsize : h'.envs.size = h.envs.size := by
    simp only [store, bind, Except.bind] at hs
    cases ht : target h ep s with
    | error e => simp [ht] at hs
    | ok r =>
      simp only [ht] at hs
      cases ha : h.getEnv r.1 with
      | error e => simp [ha] at hs
      | ok a =>
        simp only [ha] at hs
        cases hp : putSlot a r.2 (Slot.val v) with
        | error e => simp [hp] at hs
        | ok a' =>
          simp only [hp, pure, Except.pure, Except.ok.injEq] at hs
          subst hs
          simp
  intro e a' i p q ha' hg'
  have hlt : e < h.envs.size := by
    rcases Nat.lt_or_ge e h'.envs.size with h1 | h1
    · omega
    · simp [Array.getElem?_eq_none h1] at ha'
  obtain ⟨a, ha⟩ : ∃ a, h.envs[e]? = some a := ⟨h.envs[e], by simp [hlt]⟩
  obtain ⟨a'', ha'', _, hslots⟩ := hev.2 e a ha
  rw [ha'] at ha''
  cases ha''
  -- slot i of a: a pointer stays, a value stays a value — so it was the same pointer before
  have hsz : i < a.size := by
    rcases Nat.lt_or_ge i a'.size with h1 | h1
    · omega
    · simp [Array.getElem?_eq_none h1] at hg'
  obtain ⟨g, hg⟩ : ∃ g, a[i]? = some g := ⟨a[i], by simp [hsz]⟩
  obtain ⟨g2, hg2, hm⟩ := hslots i g hg
  rw [hg'] at hg2
  cases hg2
  cases g with
  | ptr p0 q0 =>
    simp only [Slot.ptr.injEq] at hm
    obtain ⟨rfl, rfl⟩ := hm
    obtain ⟨b, gb, hb, hgb, hnp⟩ := hone e a i _ _ ha hg
    obtain ⟨b', hb', _, hbs⟩ := hev.2 _ b hb
    obtain ⟨gb', hgb', hmb⟩ := hbs _ gb hgb
    refine ⟨b', gb', hb', hgb', ?_⟩
    cases gb <;> simp_all [Slot.isPtr]
  | undef => simp [Slot.isPtr] at hm
  | val w => simp [Slot.isPtr] at hm

/-! ### one shared mutable location -/

theorem store_result (h h' : Envs α) (ep s : Nat) (v : α) (hs : store h ep s v = .ok h')
    (e t : Nat) (ht : target h ep s = .ok (e, t)) :
    ∃ a : Array (Slot α), h.envs[e]? = some a ∧ t < a.size ∧
      h' = ⟨h.envs.setIfInBounds e (a.setIfInBounds t (.val v))⟩ := by
  simp only [store, bind, Except.bind, ht] at hs
  cases ha : h.getEnv e with
  | error err => simp [ha] at hs
  | ok a =>
    simp only [ha, putSlot] at hs
    by_cases hlt : t < a.size
    · simp only [hlt, if_true, pure, Except.pure, Except.ok.injEq] at hs
      refine ⟨a, ?_, hlt, hs.symm⟩
      simp only [Envs.getEnv] at ha
      cases hh : h.envs[e]? with
      | none => simp [hh] at ha
      | some b => simp [hh] at ha; rw [ha]
    · simp [hlt] at hs

/-- **One shared mutable location.** After an assignment through one slot operand, a load through
    any slot operand that denotes the same location — in the same activation, in the creator, or
    in another closure's activation — yields the assigned value. -/
theorem load_after_store (h h' : Envs α) (ep s : Nat) (v : α) (hs : store h ep s v = .ok h')
    (e t : Nat) (ht : target h ep s = .ok (e, t))
    (hone : ∀ (a : Array (Slot α)) (g : Slot α), h.envs[e]? = some a → a[t]? = some g → g.isPtr = false)
    (ep2 s2 : Nat) (ht2 : target h ep2 s2 = .ok (e, t)) :
    load h' ep2 s2 = .ok (.val v) := by
  obtain ⟨a, ha, hlt, rfl⟩ := store_result h h' ep s v hs e t ht
  have helt : e < h.envs.size := by
    rcases Nat.lt_or_ge e h.envs.size with h1 | h1
    · exact h1
    · simp [Array.getElem?_eq_none h1] at ha
  have hnew : (h.envs.setIfInBounds e (a.setIfInBounds t (Slot.val v)))[e]? = some (a.setIfInBounds t (.val v)) := by
    simp [Array.getElem?_setIfInBounds, helt]
  have hslot : (a.setIfInBounds t (Slot.val v))[t]? = some (.val v) := by
    simp [Array.getElem?_setIfInBounds, hlt]
  obtain ⟨a2, g2, ha2, hg2, hr⟩ := target_ok_inv h ep2 s2 (e, t) ht2
  cases g2 with
  | ptr p q =>
    simp only [Prod.mk.injEq] at hr
    obtain ⟨rfl, rfl⟩ := hr
    -- the pointing slot itself is not the written slot
    have hne : ¬ (ep2 = e ∧ s2 = t) := by
      rintro ⟨rfl, rfl⟩
      rw [ha] at ha2; cases ha2
      have := hone a _ ha hg2
      simp [Slot.isPtr] at this
    have hsame : ∃ a2' : Array (Slot α), (h.envs.setIfInBounds e (a.setIfInBounds t (Slot.val v)))[ep2]? = some a2' ∧
        a2'[s2]? = some (.ptr e t) := by
      by_cases hep : e = ep2
      · subst hep
        rw [ha] at ha2; cases ha2
        refine ⟨_, hnew, ?_⟩
        have : t ≠ s2 := fun hh => hne ⟨rfl, hh.symm⟩
        simp [Array.getElem?_setIfInBounds, this, hg2]
      · exact ⟨a2, by simp [Array.getElem?_setIfInBounds, hep, ha2], hg2⟩
    obtain ⟨a2', h1, h2⟩ := hsame
    simp only [load, Envs.getEnv, h1, getSlot, h2, hnew, hslot, bind, Except.bind]
  | undef =>
    simp only [Prod.mk.injEq] at hr
    obtain ⟨rfl, rfl⟩ := hr
    simp only [load, Envs.getEnv, hnew, getSlot, hslot, bind, Except.bind]
    rfl
  | val w =>
    simp only [Prod.mk.injEq] at hr
    obtain ⟨rfl, rfl⟩ := hr
    simp only [load, Envs.getEnv, hnew, getSlot, hslot, bind, Except.bind]
    rfl

/-- the same, with the invariant instead of the explicit side condition -/
theorem load_after_store_of_oneLevel (h h' : Envs α) (hone : OneLevel h) (ep s : Nat) (v : α)
    (hs : store h ep s v = .ok h') (e t : Nat) (ht : target h ep s = .ok (e, t))
    (ep2 s2 : Nat) (ht2 : target h ep2 s2 = .ok (e, t)) : load h' ep2 s2 = .ok (.val v) :=
  load_after_store h h' ep s v hs e t ht (target_not_ptr h hone ep s e t ht) ep2 s2 ht2

end Marwood.Vm.Env
