import Marwood.Lemmas.TransformTermShape
/-!
# `expand` terminates on every template of the accepted shape (`okT`), with explicit fuel

The per-variable cursors of `PatternEnvironment` are the measure. Inside a group `T' ...` there is no
inner group (`ng`), so one round of the group visits every leaf of `T'` once, never resets a cursor,
and — because `T'` mentions an expanded variable `x` (`hasExp`) and expanded variables are variables
(`hsub`) — a successful round moves `x`'s cursor strictly forward. Cursors never exceed the number
of bindings (`InvAll`), so a group makes at most `n` successful rounds and one failing round.
-/
namespace Marwood.Transform.Term
open Marwood

/-! ## Unfolding lemmas -/

theorem expand_zero (ell : Datum) (p : Pattern) (T : Datum) (env : PEnv) :
    expand ell p 0 T env = .fuel := by
  unfold expand; rfl

theorem expandLoop_zero (ell : Datum) (p : Pattern) (cur : Datum) (rest v : List Datum) (env : PEnv) :
    expandLoop ell p 0 cur rest v env = .fuel := by
  unfold expandLoop; rfl

theorem expand_pair (ell : Datum) (p : Pattern) (f : Nat) (a d : Datum) (env : PEnv) :
    expand ell p (f + 1) (.pair a d) env = expandLoop ell p f a (iterList d) [] env := by
  unfold expand; rfl

theorem expand_sym (ell : Datum) (p : Pattern) (f : Nat) (s : Text) (env : PEnv) :
    expand ell p (f + 1) (.sym s) env =
      if p.isVariable (.sym s) then env.getBinding p (.sym s) else .ok (some (.sym s), env) := by
  unfold expand; rfl

theorem expand_atom (ell : Datum) (p : Pattern) (f : Nat) (T : Datum) (env : PEnv)
    (h1 : T.isPair = false) (h2 : isSymbol T = false) :
    expand ell p (f + 1) T env = .ok (some T, env) := by
  cases T <;> first | (simp [Datum.isPair] at h1; done) | (simp [isSymbol] at h2; done) | (unfold expand; rfl)

theorem expandLoop_succ (ell : Datum) (p : Pattern) (f : Nat) (cur : Datum) (rest v : List Datum)
    (env : PEnv) :
    expandLoop ell p (f + 1) cur rest v env =
      match expand ell p f cur env with
      | .ok (some cell, env) =>
        if peekIs ell rest then expandLoop ell p f cur rest (v ++ [cell]) env
        else
          match rest with
          | t :: rest => expandLoop ell p f t rest (v ++ [cell]) env
          | [] => .ok (some (Datum.ofList (v ++ [cell])), env)
      | .ok (none, env) =>
        if !peekIs ell rest then .ok (none, env)
        else
          match rest.tail with
          | t :: rest => expandLoop ell p f t rest v env.resetIters
          | [] => .ok (some (Datum.ofList v), env.resetIters)
      | .err x => .err x
      | .panic s => .panic s
      | .fuel => .fuel := by
  rw [expandLoop]
  rfl

/-! ## Sizes -/

/-- total size of a list of items -/
def wsum : List Datum → Nat
  | [] => 0
  | x :: xs => dsize x + wsum xs

theorem dsize_pos (d : Datum) : 1 ≤ dsize d := by
  cases d <;> simp [dsize]

theorem wsum_iterList_le (d : Datum) : wsum (iterList d) ≤ dsize d := by
  induction d with
  | pair a d _ ihd => simp only [iterList, wsum, dsize]; omega
  | nil => simp [iterList, wsum]
  | _ => simp [iterList, wsum, dsize]

theorem wsum_tail_le (l : List Datum) : wsum l.tail ≤ wsum l := by
  cases l with
  | nil => exact Nat.le_refl _
  | cons x xs => simp only [List.tail, wsum]; omega

/-! ## Cursors -/

/-- the position `get_expanded_binding` starts searching from for `x` -/
def cursor (x : Datum) (env : PEnv) : Nat :=
  match findIter x env.iters with
  | some (some pos) => pos
  | _ => 0

/-- the environment belongs to `n` bindings and no cursor points beyond them -/
def InvAll (n : Nat) (env : PEnv) : Prop :=
  env.bindings.length = n ∧ ∀ k c, (k, some c) ∈ env.iters → c ≤ n

theorem findIter_mem (x : Datum) : ∀ (l : List (Datum × Option Nat)) (c : Nat),
    findIter x l = some (some c) → ∃ k, (k, some c) ∈ l := by
  intro l
  induction l with
  | nil => intro c h; simp [findIter] at h
  | cons kc rest ih =>
    intro c h
    obtain ⟨k, c0⟩ := kc
    simp only [findIter] at h
    split at h
    · cases h; exact ⟨k, by simp⟩
    · obtain ⟨k', hk'⟩ := ih c h
      exact ⟨k', List.mem_cons_of_mem _ hk'⟩

theorem cursor_le {n : Nat} {env : PEnv} (h : InvAll n env) (x : Datum) : cursor x env ≤ n := by
  unfold cursor
  split
  · rename_i pos hf
    obtain ⟨k, hk⟩ := findIter_mem x _ _ hf
    exact h.2 k pos hk
  · exact Nat.zero_le _

theorem mem_setIter (y : Datum) (v : Option Nat) : ∀ (l : List (Datum × Option Nat)) (k : Datum) (c : Nat),
    (k, some c) ∈ setIter y v l → (k, some c) ∈ l ∨ v = some c := by
  intro l
  induction l with
  | nil => intro k c h; simp [setIter] at h
  | cons kc rest ih =>
    intro k c h
    obtain ⟨k0, c0⟩ := kc
    simp only [setIter] at h
    split at h
    · simp only [List.mem_cons, Prod.mk.injEq] at h
      rcases h with h | h
      · exact Or.inr h.2.symm
      · exact Or.inl (List.mem_cons_of_mem _ h)
    · simp only [List.mem_cons] at h
      rcases h with h | h
      · exact Or.inl (by rw [h]; simp)
      · rcases ih k c h with h | h
        · exact Or.inl (List.mem_cons_of_mem _ h)
        · exact Or.inr h

theorem InvAll_setIter {n : Nat} {env : PEnv} (h : InvAll n env) (y : Datum) (v : Option Nat)
    (hv : ∀ c, v = some c → c ≤ n) : InvAll n { env with iters := setIter y v env.iters } := by
  refine ⟨h.1, fun k c hm => ?_⟩
  rcases mem_setIter y v _ k c hm with hm | hm
  · exact h.2 k c hm
  · exact hv c hm

theorem InvAll_reset {n : Nat} {env : PEnv} (h : InvAll n env) : InvAll n env.resetIters := by
  refine ⟨h.1, fun k c hm => ?_⟩
  simp [PEnv.resetIters] at hm

theorem InvAll_new (p : Pattern) (B : Bindings) : InvAll B.length (PEnv.new p B) := by
  refine ⟨rfl, fun k c hm => ?_⟩
  simp [PEnv.new] at hm

theorem findKey_bound (sym : Datum) : ∀ (l : Bindings) (k i : Nat) (v : Datum),
    findKey sym l k = some (i, v) → i < k + l.length := by
  intro l
  induction l with
  | nil => intro k i v h; simp [findKey] at h
  | cons kv rest ih =>
    intro k i v h
    obtain ⟨k0, v0⟩ := kv
    simp only [findKey] at h
    split at h
    · cases h; simp
    · have := ih _ _ _ h
      simp only [List.length_cons]; omega

theorem findIter_setIter_same (s : Text) (v : Option Nat) : ∀ (l : List (Datum × Option Nat)) (c0 : Option Nat),
    findIter (.sym s) l = some c0 → findIter (.sym s) (setIter (.sym s) v l) = some v := by
  intro l
  induction l with
  | nil => intro c0 h; simp [findIter] at h
  | cons kc rest ih =>
    intro c0 h
    obtain ⟨k, c⟩ := kc
    simp only [findIter] at h
    simp only [setIter]
    split
    · rename_i hk; simp only [findIter, hk, if_true]
    · rename_i hk
      simp only [hk] at h
      simp only [findIter, hk]
      exact ih c0 h

theorem findIter_setIter_ne (s s' : Text) (hne : s ≠ s') (v : Option Nat) :
    ∀ (l : List (Datum × Option Nat)),
    findIter (.sym s) (setIter (.sym s') v l) = findIter (.sym s) l := by
  intro l
  induction l with
  | nil => rfl
  | cons kc rest ih =>
    obtain ⟨k, c⟩ := kc
    simp only [setIter]
    split
    · rename_i hk
      have hk' : k = .sym s' := by simpa using hk
      subst hk'
      have : cellEq (Datum.sym s') (Datum.sym s) = false := by
        simp only [cellEq_sym_right, decide_eq_false_iff_not, Datum.sym.injEq]
        exact fun e => hne e.symm
      simp only [findIter, this, Bool.false_eq_true, if_false]
    · simp only [findIter, ih]

/-! ## `get_binding` -/

/-- what an `ok` answer of `get_expanded_binding` looks like -/
theorem getExpandedBinding_ok {env env' : PEnv} {y : Datum} {o : Option Datum}
    (h : env.getExpandedBinding y = .ok (o, env')) :
    (o = none ∧ env' = env) ∨
    (∃ cur, findIter y env.iters = some cur ∧
      ((o = none ∧ env' = { env with iters := setIter y none env.iters }) ∨
       (∃ i v, findKey y (env.bindings.drop (cur.getD 0)) 0 = some (i, v) ∧
          o = some v ∧ env' = { env with iters := setIter y (some (cur.getD 0 + i + 1)) env.iters }))) := by
  unfold PEnv.getExpandedBinding at h
  cases hfi : findIter y env.iters with
  | none => rw [hfi] at h; simp only at h; cases h; exact Or.inl ⟨rfl, rfl⟩
  | some cur =>
    rw [hfi] at h
    refine Or.inr ⟨cur, rfl, ?_⟩
    cases cur with
    | none =>
      simp only [Option.getD] at h ⊢
      split at h
      · cases h
      · split at h
        · rename_i i v hfk
          cases h
          exact Or.inr ⟨i, v, hfk, rfl, rfl⟩
        · cases h; exact Or.inl ⟨rfl, rfl⟩
    | some pos =>
      simp only [Option.getD] at h ⊢
      split at h
      · cases h
      · split at h
        · rename_i i v hfk
          cases h
          exact Or.inr ⟨i, v, hfk, rfl, rfl⟩
        · cases h; exact Or.inl ⟨rfl, rfl⟩

theorem getExpandedBinding_ne_fuel (env : PEnv) (y : Datum) : env.getExpandedBinding y ≠ .fuel := by
  unfold PEnv.getExpandedBinding
  cases findIter y env.iters with
  | none => simp
  | some cur =>
    cases cur with
    | none =>
      simp only
      repeat' split
      all_goals simp
    | some pos =>
      simp only
      repeat' split
      all_goals simp

theorem getExpandedBinding_ne_err (env : PEnv) (y : Datum) (e : TErr) :
    env.getExpandedBinding y ≠ .err e := by
  unfold PEnv.getExpandedBinding
  cases findIter y env.iters with
  | none => simp
  | some cur =>
    cases cur with
    | none =>
      simp only
      repeat' split
      all_goals simp
    | some pos =>
      simp only
      repeat' split
      all_goals simp

theorem getBinding_ne_fuel (p : Pattern) (env : PEnv) (y : Datum) : env.getBinding p y ≠ .fuel := by
  unfold PEnv.getBinding
  split
  · simp
  · split
    · exact getExpandedBinding_ne_fuel env y
    · simp

theorem cursor_eq {env : PEnv} {y : Datum} {cur : Option Nat} (h : findIter y env.iters = some cur) :
    cursor y env = cur.getD 0 := by
  unfold cursor
  rw [h]
  cases cur <;> rfl

theorem getExpandedBinding_inv {n : Nat} {env env' : PEnv} {y : Datum} {o : Option Datum}
    (hinv : InvAll n env) (h : env.getExpandedBinding y = .ok (o, env')) : InvAll n env' := by
  rcases getExpandedBinding_ok h with ⟨_, rfl⟩ | ⟨cur, hcur, ⟨_, rfl⟩ | ⟨i, v, hfk, _, rfl⟩⟩
  · exact hinv
  · exact InvAll_setIter hinv y none (fun c hc => by cases hc)
  · refine InvAll_setIter hinv y _ (fun c hc => ?_)
    cases hc
    have hb := findKey_bound y _ _ _ _ hfk
    simp only [List.length_drop, Nat.zero_add] at hb
    have := hinv.1
    omega

theorem getBinding_inv {n : Nat} {p : Pattern} {env env' : PEnv} {y : Datum} {o : Option Datum}
    (hinv : InvAll n env) (h : env.getBinding p y = .ok (o, env')) : InvAll n env' := by
  unfold PEnv.getBinding at h
  split at h
  · cases h; exact hinv
  · split at h
    · exact getExpandedBinding_inv hinv h
    · cases h; exact hinv

theorem getExpandedBinding_other {env env' : PEnv} {s s' : Text} {o : Option Datum} (hne : s ≠ s')
    (h : env.getExpandedBinding (.sym s') = .ok (o, env')) :
    cursor (.sym s) env' = cursor (.sym s) env := by
  rcases getExpandedBinding_ok h with ⟨_, rfl⟩ | ⟨cur, hcur, ⟨_, rfl⟩ | ⟨i, v, hfk, _, rfl⟩⟩
  · rfl
  · simp only [cursor, findIter_setIter_ne s s' hne]
  · simp only [cursor, findIter_setIter_ne s s' hne]

theorem getBinding_other {p : Pattern} {env env' : PEnv} {s s' : Text} {o : Option Datum} (hne : s ≠ s')
    (h : env.getBinding p (.sym s') = .ok (o, env')) :
    cursor (.sym s) env' = cursor (.sym s) env := by
  unfold PEnv.getBinding at h
  split at h
  · cases h; rfl
  · split at h
    · exact getExpandedBinding_other hne h
    · cases h; rfl

theorem getExpandedBinding_self {env env' : PEnv} {s : Text} {c : Datum}
    (h : env.getExpandedBinding (.sym s) = .ok (some c, env')) :
    cursor (.sym s) env < cursor (.sym s) env' := by
  rcases getExpandedBinding_ok h with ⟨ho, _⟩ | ⟨cur, hcur, ⟨ho, _⟩ | ⟨i, v, hfk, _, rfl⟩⟩
  · cases ho
  · cases ho
  · rw [cursor_eq hcur]
    have : findIter (.sym s) (setIter (.sym s) (some (cur.getD 0 + i + 1)) env.iters)
        = some (some (cur.getD 0 + i + 1)) := findIter_setIter_same s _ _ _ hcur
    rw [cursor_eq (env := { env with iters := _ }) this]
    simp only [Option.getD]
    omega

theorem getBinding_self {p : Pattern} {env env' : PEnv} {s : Text} {c : Datum}
    (hexp : p.isExpandedVariable (.sym s) = true)
    (h : env.getBinding p (.sym s) = .ok (some c, env')) :
    cursor (.sym s) env < cursor (.sym s) env' := by
  unfold PEnv.getBinding at h
  split at h
  · cases h
  · exact getExpandedBinding_self h

/-! ## Occurrence of a symbol -/

def occ (s : Text) : Datum → Bool
  | .pair a d => occ s a || occ s d
  | .sym x => decide (x = s)
  | _ => false

def occL (s : Text) : List Datum → Bool
  | [] => false
  | it :: rest => occ s it || occL s rest

theorem occL_iterList (s : Text) (d : Datum) : occL s (iterList d) = occ s d := by
  induction d with
  | pair a d _ ihd => simp only [iterList, occL, occ, ihd]
  | nil => rfl
  | _ => simp [iterList, occL, occ]

theorem hasExp_occ (p : Pattern) : ∀ T : Datum, hasExp p T = true →
    ∃ s, p.isExpandedVariable (.sym s) = true ∧ occ s T = true := by
  intro T
  induction T with
  | pair a d iha ihd =>
    intro h
    simp only [hasExp, Bool.or_eq_true] at h
    rcases h with h | h
    · obtain ⟨s, h1, h2⟩ := iha h; exact ⟨s, h1, by simp [occ, h2]⟩
    · obtain ⟨s, h1, h2⟩ := ihd h; exact ⟨s, h1, by simp [occ, h2]⟩
  | sym x => intro h; exact ⟨x, by simpa [hasExp] using h, by simp [occ]⟩
  | _ => intro h; simp [hasExp] at h

/-! ## The invariant is kept by every run of `expand` -/

theorem expand_inv (ell : Datum) (p : Pattern) (n : Nat) : ∀ f : Nat,
    (∀ T env o env', InvAll n env → expand ell p f T env = .ok (o, env') → InvAll n env') ∧
    (∀ cur rest v env o env', InvAll n env → expandLoop ell p f cur rest v env = .ok (o, env') →
      InvAll n env') := by
  intro f
  induction f with
  | zero =>
    constructor
    · intro T env o env' _ h; rw [expand_zero] at h; cases h
    · intro cur rest v env o env' _ h; rw [expandLoop_zero] at h; cases h
  | succ f ih =>
    obtain ⟨ih1, ih2⟩ := ih
    constructor
    · intro T env o env' hinv h
      cases hT : T with
      | pair a d => rw [hT, expand_pair] at h; exact ih2 _ _ _ _ _ _ hinv h
      | sym s =>
        rw [hT, expand_sym] at h
        split at h
        · exact getBinding_inv hinv h
        · cases h; exact hinv
      | _ =>
        rw [hT, expand_atom _ _ _ _ _ rfl rfl] at h
        cases h; exact hinv
    · intro cur rest v env o env' hinv h
      rw [expandLoop_succ] at h
      cases hc : expand ell p f cur env with
      | ok r =>
        obtain ⟨o1, env1⟩ := r
        have hinv1 := ih1 _ _ _ _ hinv hc
        rw [hc] at h
        cases o1 with
        | some cell =>
          simp only at h
          split at h
          · exact ih2 _ _ _ _ _ _ hinv1 h
          · split at h
            · exact ih2 _ _ _ _ _ _ hinv1 h
            · cases h; exact hinv1
        | none =>
          simp only at h
          split at h
          · cases h; exact hinv1
          · split at h
            · exact ih2 _ _ _ _ _ _ (InvAll_reset hinv1) h
            · cases h; exact InvAll_reset hinv1
      | err x => rw [hc] at h; cases h
      | panic m => rw [hc] at h; cases h
      | fuel => rw [hc] at h; cases h

/-! ## Inside a group: cursors only move forward, and `x`'s moves strictly -/

theorem ngL_cons {ell cur : Datum} {rest : List Datum} (h : ngL ell (cur :: rest) = true) :
    ng ell cur = true ∧ peekIs ell rest = false ∧ ngL ell rest = true := by
  simp only [ngL, Bool.and_eq_true, Bool.not_eq_true'] at h
  exact ⟨h.1.1, h.1.2, h.2⟩

theorem ngL_of_pair {ell a d : Datum} (h : ng ell (.pair a d) = true) :
    ngL ell (a :: iterList d) = true := by
  simpa only [ngL, ng, ngL_iterList] using h

theorem expand_cursor_mono (ell : Datum) (p : Pattern)
    (hsub : ∀ c, p.isExpandedVariable c = true → p.isVariable c = true)
    (s : Text) (hexp : p.isExpandedVariable (.sym s) = true) : ∀ f : Nat,
    (∀ T env c env', ng ell T = true → expand ell p f T env = .ok (some c, env') →
      cursor (.sym s) env ≤ cursor (.sym s) env' ∧
        (occ s T = true → cursor (.sym s) env < cursor (.sym s) env')) ∧
    (∀ cur rest v env c env', ngL ell (cur :: rest) = true →
      expandLoop ell p f cur rest v env = .ok (some c, env') →
      cursor (.sym s) env ≤ cursor (.sym s) env' ∧
        (occL s (cur :: rest) = true → cursor (.sym s) env < cursor (.sym s) env')) := by
  intro f
  induction f with
  | zero =>
    constructor
    · intro T env c env' _ h; rw [expand_zero] at h; cases h
    · intro cur rest v env c env' _ h; rw [expandLoop_zero] at h; cases h
  | succ f ih =>
    obtain ⟨ih1, ih2⟩ := ih
    constructor
    · intro T env c env' hng h
      cases hT : T with
      | pair a d =>
        rw [hT] at h hng
        rw [expand_pair] at h
        have := ih2 _ _ _ _ _ _ (ngL_of_pair hng) h
        simpa only [occL, occ, occL_iterList] using this
      | sym y =>
        rw [hT, expand_sym] at h
        by_cases hv : p.isVariable (.sym y) = true
        · simp only [hv, if_true] at h
          by_cases hys : y = s
          · subst hys
            have := getBinding_self hexp h
            exact ⟨Nat.le_of_lt this, fun _ => this⟩
          · have := getBinding_other (s := s) (s' := y) (fun e => hys e.symm) h
            refine ⟨Nat.le_of_eq this.symm, fun ho => ?_⟩
            simp [occ, hys] at ho
        · simp only [hv, Bool.false_eq_true, if_false] at h
          cases h
          refine ⟨Nat.le_refl _, fun ho => ?_⟩
          exfalso
          have hys : y = s := by simpa [occ] using ho
          subst hys
          exact hv (hsub _ hexp)
      | _ =>
        rw [hT, expand_atom _ _ _ _ _ rfl rfl] at h
        cases h
        exact ⟨Nat.le_refl _, fun ho => by simp [occ] at ho⟩
    · intro cur rest v env c env' hng h
      obtain ⟨hngc, hpk, hngr⟩ := ngL_cons hng
      rw [expandLoop_succ] at h
      cases hc : expand ell p f cur env with
      | ok r =>
        obtain ⟨o1, env1⟩ := r
        rw [hc] at h
        cases o1 with
        | none => simp only [hpk, Bool.not_false, if_true] at h; cases h
        | some cell =>
          have h1 := ih1 _ _ _ _ hngc hc
          simp only [hpk, Bool.false_eq_true, if_false] at h
          cases rest with
          | nil =>
            simp only at h
            cases h
            refine ⟨h1.1, fun ho => h1.2 ?_⟩
            simpa [occL] using ho
          | cons t rest' =>
            simp only at h
            have h2 := ih2 _ _ _ _ _ _ hngr h
            refine ⟨Nat.le_trans h1.1 h2.1, fun ho => ?_⟩
            simp only [occL, Bool.or_eq_true] at ho h2
            rcases ho with ho | ho
            · exact Nat.lt_of_lt_of_le (h1.2 ho) h2.1
            · exact Nat.lt_of_le_of_lt h1.1 (h2.2 ho)
      | err x => rw [hc] at h; cases h
      | panic m => rw [hc] at h; cases h
      | fuel => rw [hc] at h; cases h

/-! ## Fuel inside a group -/

theorem expand_ng_fuel (ell : Datum) (p : Pattern) : ∀ f : Nat,
    (∀ T env, ng ell T = true → 2 * dsize T ≤ f + 1 → expand ell p f T env ≠ .fuel) ∧
    (∀ cur rest v env, ngL ell (cur :: rest) = true → 2 * wsum (cur :: rest) ≤ f →
      expandLoop ell p f cur rest v env ≠ .fuel) := by
  intro f
  induction f with
  | zero =>
    constructor
    · intro T env _ h; have := dsize_pos T; omega
    · intro cur rest v env _ h; have := dsize_pos cur; simp only [wsum] at h; omega
  | succ f ih =>
    obtain ⟨ih1, ih2⟩ := ih
    constructor
    · intro T env hng hf
      cases hT : T with
      | pair a d =>
        rw [hT] at hng hf
        rw [expand_pair]
        refine ih2 _ _ _ _ (ngL_of_pair hng) ?_
        have := wsum_iterList_le d
        simp only [dsize] at hf
        simp only [wsum]
        omega
      | sym y =>
        rw [expand_sym]
        split
        · exact getBinding_ne_fuel _ _ _
        · simp
      | _ => rw [expand_atom _ _ _ _ _ rfl rfl]; simp
    · intro cur rest v env hng hf
      obtain ⟨hngc, hpk, hngr⟩ := ngL_cons hng
      simp only [wsum] at hf
      have hpos := dsize_pos cur
      have h1 := ih1 cur env hngc (by omega)
      rw [expandLoop_succ]
      cases hc : expand ell p f cur env with
      | ok r =>
        obtain ⟨o1, env1⟩ := r
        cases o1 with
        | none => simp [hpk]
        | some cell =>
          simp only [hpk, Bool.false_eq_true, if_false]
          cases rest with
          | nil => simp
          | cons t rest' =>
            simp only
            exact ih2 _ _ _ _ hngr (by omega)
      | err x => simp
      | panic m => simp
      | fuel => exact absurd hc h1

end Marwood.Transform.Term
