import Marwood.Lemmas.PreludeInterp
/-!
# `any?`, `map1`, `map`, `for-each` are the images of the regenerated definitions

The procedure argument is a procedure *value* `VCell.builtin gname`; the table `P` resolves the name to
the callee `g` the models are parametric in (`hP : P gname = some g`).
-/
namespace Marwood.Store.Prelude
open Marwood Marwood.Store Marwood.Store.Outcome

open Expr in
def anyDef : Def := ⟨"any?", ["proc", "list"], none,
  and2 (call1 "pair?" (var "list"))
    (or2 (call1 "proc" (call1 "car" (var "list"))) (call2 "any?" (var "proc") (call1 "cdr" (var "list"))))⟩

open Expr in
def map1Def : Def := ⟨"map1", ["f", "xs"], none,
  ite (call1 "null?" (var "xs")) (const .nil)
    (call2 "cons" (call1 "f" (call1 "car" (var "xs"))) (call2 "map1" (var "f") (call1 "cdr" (var "xs"))))⟩

theorem find_any : defs.find? (·.name == "any?") = some anyDef := by decide +kernel
theorem find_map1 : defs.find? (·.name == "map1") = some map1Def := by decide +kernel

section
variable {efuel : Nat} {user : String → Option Callee}

/-- `(any? null? l)` is `anyNull` -/
theorem interp_anyNull : ∀ (f : Nat) (s : Store) (l : VCell),
    interp (prims efuel user) defs f "any?" s [.builtin "null?", l] = (do let b ← anyNull f s l; .ok (s, .bool b))
  | 0, s, l => by rw [interp_zero find_any]; rfl
  | f+1, s, l => by
    rw [interp_succ find_any]
    have hg1 := global_prim (P := prims efuel user) f (n := "pair?") (by simp)
    have hg2 := global_prim (P := prims efuel user) f (n := "cdr") (by simp)
    have hg3 := global_prim (P := prims efuel user) f (n := "car") (by simp)
    have hgl : (handlers (prims efuel user) defs f).global "any?" = some (interp (prims efuel user) defs f "any?") := by
      rw [global_eq, find_any]; rfl
    simp only [anyDef, bindArgs, List.length_cons, List.length_nil, List.zip_cons_cons, List.zip_nil_right,
      if_true, bind_ok, evalE, callNamed, applyVal, List.lookup, List.find?, hg1, hg2, hg3, hgl, prims]
    simp
    rw [anyNull]
    cases hg : s.get l with
    | ok c =>
      cases c <;> simp [isPairB, isNullB, pairP, nullP, hg, cdr, cdrV, car, carV, VCell.isPair, interp_anyNull f]
      rename_i a d
      cases hga : s.get (.ptr a) with
      | ok c2 =>
        cases c2 <;> simp [VCell.isNil, hg]
        all_goals (cases anyNull f s (.ptr d) <;> (try simp))
      | err e => simp
      | panic m => simp
      | diverge => simp
    | err e => simp [isPairB, pairP, hg]
    | panic m => simp [isPairB, pairP, hg]
    | diverge => simp [isPairB, pairP, hg]

/-- `(map1 g xs)` is `map1 g` -/
theorem interp_map1 {gname : String} {g : Callee} (hP : prims efuel user gname = some g) :
    ∀ (f : Nat) (s : Store) (xs : VCell),
    interp (prims efuel user) defs f "map1" s [.builtin gname, xs] = map1 g f s xs
  | 0, s, xs => by rw [interp_zero find_map1]; rfl
  | f+1, s, xs => by
    rw [interp_succ find_map1]
    have hg1 := global_prim (P := prims efuel user) f (n := "null?") (by simp)
    have hg2 := global_prim (P := prims efuel user) f (n := "cdr") (by simp)
    have hg3 := global_prim (P := prims efuel user) f (n := "car") (by simp)
    have hg4 := global_prim (P := prims efuel user) f (n := "cons") (by simp)
    have hgl : (handlers (prims efuel user) defs f).global "map1" = some (interp (prims efuel user) defs f "map1") := by
      rw [global_eq, find_map1]; rfl
    have hcons : prims efuel user "cons" = some cons := by simp [prims]
    have hnull : prims efuel user "null?" = some isNullB := by simp [prims]
    have hcar : prims efuel user "car" = some car := by simp [prims]
    have hcdr : prims efuel user "cdr" = some cdr := by simp [prims]
    simp only [map1Def, bindArgs, List.length_cons, List.length_nil, List.zip_cons_cons, List.zip_nil_right,
      if_true, bind_ok, evalE, callNamed, applyVal, List.lookup, List.find?, hg1, hg2, hg3, hg4, hgl,
      hcons, hnull, hcar, hcdr]
    simp
    rw [map1]
    cases hg : s.get xs with
    | ok c =>
      cases c <;> simp [isNullB, nullP, hg, car, carV, VCell.isNil, hP]
      rename_i a d
      cases hgy : g s [.ptr a] with
      | ok r =>
        obtain ⟨s1, y⟩ := r
        simp only [bind_ok]
        cases hg1 : s1.get xs with
        | ok c1 =>
          cases c1 <;> simp [cdr, cdrV, hg1, interp_map1 hP f]
        | err e => simp [cdr, cdrV, hg1]
        | panic m => simp [cdr, cdrV, hg1]
        | diverge => simp [cdr, cdrV, hg1]
      | err e => simp
      | panic m => simp
      | diverge => simp
    | err e => simp [isNullB, nullP, hg]
    | panic m => simp [isNullB, nullP, hg]
    | diverge => simp [isNullB, nullP, hg]
end

/-! ### `map`, `for-each` -/

open Expr in
/-- the body of `map-all` -/
def mapAllBody : Expr :=
  ite (call2 "any?" (var "null?") (var "xss")) (const .nil)
    (call2 "cons" (apply (var "f") (call2 "map1" (var "car") (var "xss")))
      (call1 "map-all" (call2 "map1" (var "cdr") (var "xss"))))

open Expr in
def mapDef : Def := ⟨"map", ["f", "xs"], some "xss",
  letrec1 "map-all" ["xss"] mapAllBody (call1 "map-all" (call2 "cons" (var "xs") (var "xss")))⟩

open Expr in
/-- the body of `for-each-all` -/
def forEachAllBody : Expr :=
  ite (call2 "any?" (var "null?") (var "xss")) (var "void")
    (seq (apply (var "f") (call2 "map1" (var "car") (var "xss")))
      (seq (call1 "for-each-all" (call2 "map1" (var "cdr") (var "xss"))) (var "void")))

open Expr in
def forEachDef : Def := ⟨"for-each", ["f", "xs"], some "xss",
  letrec1 "for-each-all" ["xss"] forEachAllBody (call1 "for-each-all" (call2 "cons" (var "xs") (var "xss")))⟩

theorem find_map : defs.find? (·.name == "map") = some mapDef := by decide +kernel
theorem find_forEach : defs.find? (·.name == "for-each") = some forEachDef := by decide +kernel

section
variable {efuel : Nat} {user : String → Option Callee}

/-- the `letrec`-bound `map-all`, whatever list the enclosing `map` was called with -/
theorem localFn_mapAll {gname : String} {g : Callee} (hP : prims efuel user gname = some g) (l0 x0 : VCell) :
    ∀ (f : Nat) (s : Store) (xss : VCell),
    (handlers (prims efuel user) defs f).localFn
        ⟨"map-all", ["xss"], mapAllBody, [("xss", l0), ("f", .builtin gname), ("xs", x0)]⟩ s [xss] = mapAll g f s xss
  | 0, s, xss => rfl
  | f+1, s, xss => by
    have hg4 := global_prim (P := prims efuel user) f (n := "cons") (by simp)
    have hga : (handlers (prims efuel user) defs f).global "any?" = some (interp (prims efuel user) defs f "any?") := by
      rw [global_eq, find_any]; rfl
    have hgm : (handlers (prims efuel user) defs f).global "map1" = some (interp (prims efuel user) defs f "map1") := by
      rw [global_eq, find_map1]; rfl
    have hcons : prims efuel user "cons" = some cons := by simp [prims]
    have hnull : prims efuel user "null?" = some isNullB := by simp [prims]
    have hcar : prims efuel user "car" = some car := by simp [prims]
    have hcdr : prims efuel user "cdr" = some cdr := by simp [prims]
    have ih := localFn_mapAll hP l0 x0 f
    simp only [handlers, mapAllBody, List.length_cons, List.length_nil, if_true, List.zip_cons_cons,
      List.zip_nil_right, List.cons_append, List.nil_append, evalE, callNamed, applyVal, List.lookup, List.find?, hg4, hga, hgm,
      hcons, hnull, hcar, hcdr, hP, Option.isSome_some, if_true, bind_ok]
    simp [interp_anyNull, interp_map1 hcar, interp_map1 hcdr, hP]
    rw [mapAll]
    cases anyNull f s xss with
    | ok b =>
      cases b <;> simp
      cases map1 car f s xss with
      | ok r1 =>
        obtain ⟨s1, cars⟩ := r1
        simp only [bind_ok]
        cases listElems f s1 cars with
        | ok args =>
          simp only [bind_ok]
          cases g s1 args with
          | ok r2 =>
            obtain ⟨s2, y⟩ := r2
            simp only [bind_ok]
            cases map1 cdr f s2 xss with
            | ok r3 =>
              obtain ⟨s3, cdrs⟩ := r3
              simp only [bind_ok]
              have := ih s3 cdrs
              simp only [mapAllBody] at this
              rw [this]
            | _ => simp
          | _ => simp
        | _ => simp
      | _ => simp
    | _ => simp

/-- **`map`**: one more unit of fuel than the model (the call of `map` itself; the model starts at
    `map-all`); without a list argument both are the arity error -/
theorem interp_map {gname : String} {g : Callee} (hP : prims efuel user gname = some g) (fuel : Nat) (s : Store)
    (lists : List VCell) :
    interp (prims efuel user) defs (fuel+1) "map" s (.builtin gname :: lists) = map g fuel s lists := by
  rw [interp_succ find_map]
  cases lists with
  | nil => rfl
  | cons x rest =>
    have hg4 := global_prim (P := prims efuel user) fuel (n := "cons") (by simp)
    have hcons : prims efuel user "cons" = some cons := by simp [prims]
    simp only [mapDef, bindArgs, List.length_cons, List.length_nil, List.drop_succ_cons, List.drop_zero,
      List.take_succ_cons, List.take_zero, List.zip_cons_cons, List.zip_nil_right]
    have hlt : ¬ (rest.length + 1 + 1 < 0 + 1 + 1) := by omega
    simp only [hlt, if_false, map]
    cases list s rest with
    | ok r =>
      obtain ⟨s1, l⟩ := r
      simp only [bind_ok, evalE, callNamed, List.lookup, List.find?, hg4, hcons]
      simp
      cases cons s1 [x, l] with
      | ok r2 =>
        obtain ⟨s2, xss⟩ := r2
        simp only [bind_ok]
        have := localFn_mapAll hP l x fuel s2 xss
        simp only [mapAllBody] at this
        exact this
      | _ => simp
    | _ => simp
theorem localFn_forEachAll {gname : String} {g : Callee} (hP : prims efuel user gname = some g) (l0 x0 : VCell) :
    ∀ (f : Nat) (s : Store) (xss : VCell),
    (handlers (prims efuel user) defs f).localFn
        ⟨"for-each-all", ["xss"], forEachAllBody, [("xss", l0), ("f", .builtin gname), ("xs", x0)]⟩ s [xss] =
      forEachAll g f s xss
  | 0, s, xss => rfl
  | f+1, s, xss => by
    have hga : (handlers (prims efuel user) defs f).global "any?" = some (interp (prims efuel user) defs f "any?") := by
      rw [global_eq, find_any]; rfl
    have hgm : (handlers (prims efuel user) defs f).global "map1" = some (interp (prims efuel user) defs f "map1") := by
      rw [global_eq, find_map1]; rfl
    have hnull : prims efuel user "null?" = some isNullB := by simp [prims]
    have hcar : prims efuel user "car" = some car := by simp [prims]
    have hcdr : prims efuel user "cdr" = some cdr := by simp [prims]
    have ih := localFn_forEachAll hP l0 x0 f
    simp only [handlers, forEachAllBody, List.length_cons, List.length_nil, if_true, List.zip_cons_cons,
      List.zip_nil_right, List.cons_append, List.nil_append, evalE, callNamed, applyVal, List.lookup, List.find?, hga, hgm,
      hnull, hcar, hcdr, Option.isSome_some, if_true]
    simp [interp_anyNull, interp_map1 hcar, interp_map1 hcdr, hP]
    rw [forEachAll]
    cases anyNull f s xss with
    | ok b =>
      cases b <;> simp
      cases map1 car f s xss with
      | ok r1 =>
        obtain ⟨s1, cars⟩ := r1
        simp only [bind_ok]
        cases listElems f s1 cars with
        | ok args =>
          simp only [bind_ok]
          cases g s1 args with
          | ok r2 =>
            obtain ⟨s2, y⟩ := r2
            simp only [bind_ok]
            cases map1 cdr f s2 xss with
            | ok r3 =>
              obtain ⟨s3, cdrs⟩ := r3
              simp only [bind_ok]
              have := ih s3 cdrs
              simp only [forEachAllBody] at this
              rw [this]
            | _ => simp
          | _ => simp
        | _ => simp
      | _ => simp
    | _ => simp

/-- **`for-each`** -/
theorem interp_forEach {gname : String} {g : Callee} (hP : prims efuel user gname = some g) (fuel : Nat) (s : Store)
    (lists : List VCell) :
    interp (prims efuel user) defs (fuel+1) "for-each" s (.builtin gname :: lists) = forEach g fuel s lists := by
  rw [interp_succ find_forEach]
  cases lists with
  | nil => rfl
  | cons x rest =>
    have hg4 := global_prim (P := prims efuel user) fuel (n := "cons") (by simp)
    have hcons : prims efuel user "cons" = some cons := by simp [prims]
    simp only [forEachDef, bindArgs, List.length_cons, List.length_nil, List.drop_succ_cons, List.drop_zero,
      List.take_succ_cons, List.take_zero, List.zip_cons_cons, List.zip_nil_right]
    have hlt : ¬ (rest.length + 1 + 1 < 0 + 1 + 1) := by omega
    simp only [hlt, if_false, forEach]
    cases list s rest with
    | ok r =>
      obtain ⟨s1, l⟩ := r
      simp only [bind_ok, evalE, callNamed, List.lookup, List.find?, hg4, hcons]
      simp
      cases cons s1 [x, l] with
      | ok r2 =>
        obtain ⟨s2, xss⟩ := r2
        simp only [bind_ok]
        have := localFn_forEachAll hP l x fuel s2 xss
        simp only [forEachAllBody] at this
        exact this
      | _ => simp
    | _ => simp
end

/-! ### `caar`, `list` -/

open Expr in
def caarDef : Def := ⟨"caar", ["obj"], none, call1 "car" (call1 "car" (var "obj"))⟩
open Expr in
def listDef : Def := ⟨"list", [], some "l", var "l"⟩

theorem find_caar : defs.find? (·.name == "caar") = some caarDef := by decide +kernel
theorem find_list : defs.find? (·.name == "list") = some listDef := by decide +kernel

section
variable {efuel : Nat} {user : String → Option Callee}

/-- the prelude's `caar` is `car ∘ car` — which is how `parseExpr` reads `(caar x)` inside `assq`,
    `assv`, `assoc` (and how `Store.ass` transcribes it) -/
theorem interp_caar (f : Nat) (s : Store) (x : VCell) :
    interp (prims efuel user) defs (f+1) "caar" s [x] = (do let (s, v) ← car s [x]; car s [v]) := by
  rw [interp_succ find_caar]
  have hg3 := global_prim (P := prims efuel user) f (n := "car") (by simp)
  have hcar : prims efuel user "car" = some car := by simp [prims]
  simp only [caarDef, bindArgs, List.length_cons, List.length_nil, List.zip_cons_cons, List.zip_nil_right,
    if_true, bind_ok, evalE, callNamed, List.lookup, List.find?, hg3, hcar]
  simp

/-- `(define (list . l) l)` is the `VARARG` list builder `ListOps.list` -/
theorem interp_list (f : Nat) (s : Store) (args : List VCell) :
    interp (prims efuel user) defs (f+1) "list" s args = list s args := by
  rw [interp_succ find_list]
  simp only [listDef, bindArgs, List.length_nil, Nat.not_lt_zero, if_false, List.drop_zero]
  cases list s args with
  | ok r => obtain ⟨s1, l⟩ := r; simp [evalE, List.lookup]
  | _ => simp
end

end Marwood.Store.Prelude
