import Marwood.Lemmas.VerifyBlkDefs
/-!
# Everything the compiler model emits is structured code (`Blk`), by induction on the fuel
-/
namespace Marwood.Vm
open Marwood Marwood.Vm.Verify

theorem Blk.cast_base {b b' : Nat} {c : List BC} {p q : List ACell} (h : b = b') :
    Blk b c p q → Blk b' c p q := by subst h; exact id

theorem Blk.seq' {b b2 : Nat} {c1 c2 : List BC} {p q r : List ACell} (h1 : Blk b c1 p q)
    (hb : b2 = b + c1.length) (h2 : Blk b2 c2 q r) : Blk b (c1 ++ c2) p r := by
  subst hb; exact Blk.seq h1 h2

theorem Blk.frame0 {b : Nat} {c : List BC} {q : List ACell} (r : List ACell) (h : Blk b c [] q) :
    Blk b c r (q ++ r) := Blk.frame r h

theorem emitLoc_locB {c : Ctx} (hc : CtxOK c) (s : Text) : locB (emitLoc c s) = true := by
  unfold emitLoc Ctx.bindingLocation
  by_cases h : c.envmap.any (·.1 == s) = true
  · simp [h, locB]
  · simp only [h]
    cases hf : c.args.findIdx? (· == s) with
    | none => simp [locB]
    | some n =>
      exfalso
      rw [List.findIdx?_eq_some_iff_getElem] at hf
      obtain ⟨hn, hs, _⟩ := hf
      have hs' : c.args[n] = s := by simpa using hs
      have hm : s ∈ c.args := hs' ▸ List.getElem_mem hn
      exact h (hc s hm)

theorem storeCode_blk {c : Ctx} (hc : CtxOK c) (b : Nat) (s : Text) : Blk b (storeCode c s) [] [] := by
  show Blk b ([.op .mov, .acc, emitLoc c s] ++ [.op .movImm, .void, .acc]) [] []
  exact Blk.seq (Blk.mov b _ _ rfl (emitLoc_locB hc s)) (Blk.movImm _ _ _ rfl rfl)

theorem newEnvmap_any {formals internal free : List Text} {iof : LambdaM} {a : Text} (ha : a ∈ formals) :
    (newEnvmap formals internal free iof).any (·.1 == a) = true := by
  unfold newEnvmap
  rw [List.any_append, List.any_append, List.any_map]
  obtain ⟨i, hi, rfl⟩ := List.getElem_of_mem ha
  have : (formals[i], i) ∈ formals.zipIdx := by
    rw [List.mk_mem_zipIdx_iff_getElem?]; simp [hi]
  have h2 : formals.zipIdx.any ((fun x : Text × Source => x.1 == formals[i]) ∘ fun x : Text × Nat => (x.1, Source.argument x.2)) = true := by
    rw [List.any_eq_true]; exact ⟨_, this, by simp⟩
  simp [h2]

theorem newEnvmap_noIof {formals internal free : List Text} {iof : LambdaM}
    (hc : ∀ a ∈ iof.args, iof.envmap.any (·.1 == a) = true) :
    NoIofArg (newEnvmap formals internal free iof) := by
  intro x hx n hn
  unfold newEnvmap at hx
  simp only [List.mem_append, List.mem_map, List.mem_filterMap] at hx
  rcases hx with (⟨a, _, rfl⟩ | ⟨a, _, rfl⟩) | ⟨s, _, hs⟩
  · cases hn
  · cases hn
  · by_cases h : iof.envmap.any (·.1 == s) = true
    · simp only [h, if_true] at hs; cases hs; cases hn
    · simp only [h] at hs
      cases hf : iof.args.findIdx? (· == s) with
      | none => simp [hf] at hs
      | some k =>
        rw [List.findIdx?_eq_some_iff_getElem] at hf
        obtain ⟨hk, hs', _⟩ := hf
        have hs'' : iof.args[k] = s := by simpa using hs'
        have hm : s ∈ iof.args := hs'' ▸ List.getElem_mem hk
        exact h (hc s hm)

theorem lambdaParts_ctx {fuel : Nat} {iof : Ctx} {e : Datum} {isDefine : Bool} {p : LambdaParts}
    (hiof : CtxOK iof) (h : lambdaParts fuel iof e isDefine = .ok p) :
    CtxOK p.ctx ∧ p.prologue = (if p.isVararg then [BC.op .varArg] else []) ++ [BC.op .enter] ∧
      NoIofArg p.ctx.envmap := by
  unfold lambdaParts at h
  repeat' (split at h <;> try (cases h; done))
  all_goals (simp only [] at h; repeat' (split at h <;> try (cases h; done)))
  all_goals (cases h; exact ⟨fun a ha => newEnvmap_any ha, by simp [*], newEnvmap_noIof hiof⟩)

theorem finishLambda_ok {st : CState} {p : LambdaParts} {code : List BC} (b : Nat) (hs : LamsOK st)
    (hpro : p.prologue = (if p.isVararg then [BC.op .varArg] else []) ++ [BC.op .enter])
    (hb : Blk p.prologue.length code [] []) (hni : NoIofArg p.ctx.envmap) :
    LamsOK (finishLambda st p code).1 ∧ Blk b (finishLambda st p code).2 [] [] := by
  constructor
  · intro l hl
    simp only [finishLambda, List.mem_append, List.mem_singleton] at hl
    rcases hl with hl | rfl
    · exact hs l hl
    · refine ⟨code, ?_, ?_⟩
      · simp only [hpro]
      · have : p.prologue.length = if p.isVararg then 2 else 1 := by
          rw [hpro]; cases p.isVararg <;> rfl
        exact ⟨this ▸ hb, hni⟩
  · show Blk b ([.op .movImm, .lambda st.lambdas.length, .acc] ++ [.op .closureAcc]) [] []
    exact Blk.seq (Blk.movImm _ _ _ rfl rfl) (Blk.closure _)

/-- `consChain (n+1)`, by recursion -/
def ccRec : Nat → List BC
  | 0 => [.op .cons]
  | n+1 => [.op .cons, .op .pushAcc] ++ ccRec n

theorem flatMap_const_ccRec : ∀ (l : List Nat) (n : Nat), l.length = n →
    l.flatMap (fun _ => [BC.op .cons, BC.op .pushAcc]) ++ [BC.op .cons] = ccRec n
  | [], n, h => by subst h; rfl
  | _ :: l, n, h => by
    subst h
    simp only [List.flatMap_cons, List.length_cons, ccRec, List.append_assoc]
    rw [flatMap_const_ccRec l l.length rfl]

theorem consChain_succ (n : Nat) : consChain (n + 1) = ccRec n := by
  unfold consChain
  rw [List.range_succ, List.flatMap_append]
  have h1 : (List.range n).flatMap (fun i => if i < n + 1 - 1 then [BC.op .cons, BC.op .pushAcc] else [BC.op .cons])
      = (List.range n).flatMap (fun _ => [BC.op .cons, BC.op .pushAcc]) := by
    rw [List.flatMap_def, List.flatMap_def]
    congr 1
    apply List.map_congr_left
    intro i hi
    rw [List.mem_range] at hi
    simp [hi]
  rw [h1]
  simp only [List.flatMap_singleton, Nat.add_sub_cancel, Nat.lt_irrefl, if_false]
  exact flatMap_const_ccRec _ _ (List.length_range)

theorem ccRec_blk : ∀ (n b : Nat), Blk b (ccRec n) (List.replicate (n + 2) .val) []
  | 0, b => Blk.cons b .val .val rfl rfl
  | m+1, b => by
    show Blk b ([BC.op .cons] ++ ([BC.op .pushAcc] ++ ccRec m)) ([ACell.val, .val] ++ List.replicate (m + 1) .val) []
    refine Blk.seq (Blk.frame _ (Blk.cons b .val .val rfl rfl)) ?_
    refine Blk.seq (q := List.replicate (m + 2) .val) ?_ (ccRec_blk m _)
    exact Blk.frame0 (List.replicate (m + 1) .val) (Blk.pushAcc _)

/-- the tail of a quasiquoted list: push the tail datum, then `count` CONSes -/
theorem consTail_blk (b n : Nat) (t : Datum) :
    Blk b ([BC.op .pushImm, BC.datum t] ++ consChain (n + 1)) (List.replicate (n + 1) .val) [] := by
  rw [consChain_succ]
  exact Blk.seq (q := List.replicate (n + 2) .val) (Blk.frame0 (List.replicate (n + 1) .val) (Blk.pushDatum b t))
    (ccRec_blk n _)

theorem app_blk {base n : Nat} {code pcode : List BC} (tail : Bool)
    (h1 : Blk base code [] (List.replicate n .val)) (h2 : Blk (base + code.length + 2) pcode [] []) :
    Blk base (code ++ [.op .pushImm, .argc n] ++ pcode ++ [.op (if tail then .tcallAcc else .callAcc)]) [] [] := by
  have hcall := Blk.call (base + (code ++ [BC.op .pushImm, BC.argc n] ++ pcode).length) tail
    (List.replicate n ACell.val) (by simp [ACell.isV])
  rw [List.length_replicate] at hcall
  refine Blk.seq (Blk.seq' (Blk.seq h1 (Blk.frame0 (List.replicate n .val) (Blk.pushArgc _ n))) ?_
    (Blk.frame (ACell.argc n :: List.replicate n .val) h2)) hcall
  simp only [List.length_append, List.length_cons, List.length_nil]; omega

theorem args_blk {base n : Nat} {code code2 : List BC} (h1 : Blk base code [] [])
    (h2 : Blk (base + code.length + 1) code2 [] (List.replicate n .val)) :
    Blk base (code ++ [.op .pushAcc] ++ code2) [] (List.replicate (n + 1) .val) := by
  rw [List.replicate_succ']
  refine Blk.seq' (Blk.seq h1 (Blk.pushAcc _)) ?_ (Blk.frame [ACell.val] h2)
  simp only [List.length_append, List.length_cons, List.length_nil]; omega

theorem qvec_blk {base : Nat} {code code2 : List BC} (h1 : Blk (base + 1) code [] [])
    (h2 : Blk (base + 1 + code.length + 1) code2 [] []) :
    Blk base ([.op .pushAcc] ++ code ++ [.op .vpushAcc] ++ code2) [] [] := by
  refine Blk.seq' (Blk.seq (Blk.seq' (Blk.pushAcc base) rfl (Blk.frame0 [ACell.val] h1)) (Blk.vpush _ .val)) ?_ h2
  simp only [List.length_append, List.length_cons, List.length_nil]; omega

theorem qvecHead_blk {base : Nat} {code : List BC} (g : Text) (h : Blk (base + 6) code [] []) :
    Blk base ([.op .pushImm, .argc 0, .op .mov, .global g, .acc, .op .callAcc] ++ code) [] [] := by
  show Blk base (([BC.op .pushImm, BC.argc 0] ++ [BC.op .mov, BC.global g, BC.acc] ++ [BC.op .callAcc]) ++ code) [] []
  refine Blk.seq' (Blk.seq (Blk.seq (Blk.pushArgc base 0) (Blk.frame0 [ACell.argc 0] (Blk.mov _ _ _ rfl rfl)))
    (Blk.call _ false [] rfl)) rfl h

/-- the six statements proved together by induction on the fuel -/
structure BlkOK (fuel : Nat) : Prop where
  expr : ∀ st c base tail e st' code, CtxOK c → LamsOK st →
    compileExpr fuel st c base tail e = .ok (st', code) → LamsOK st' ∧ Blk base code [] []
  args : ∀ st c base rest st' code n, CtxOK c → LamsOK st →
    compileArgs fuel st c base rest = .ok (st', code, n) → LamsOK st' ∧ Blk base code [] (List.replicate n .val)
  body : ∀ st c base b st' code, CtxOK c → LamsOK st →
    compileBody fuel st c base b = .ok (st', code) → LamsOK st' ∧ Blk base code [] []
  quasi : ∀ st c base e depth st' code, CtxOK c → LamsOK st →
    compileQuasi fuel st c base e depth = .ok (st', code) → LamsOK st' ∧ Blk base code [] []
  qvec : ∀ st c base elems depth st' code, CtxOK c → LamsOK st →
    quasiVec fuel st c base elems depth = .ok (st', code) → LamsOK st' ∧ Blk base code [] []
  qlist : ∀ st c base rest depth st' code count t, CtxOK c → LamsOK st →
    quasiList fuel st c base rest depth = .ok (st', code, count, t) →
    LamsOK st' ∧ Blk base code [] (List.replicate count .val) ∧ (∀ a d, rest = .pair a d → 1 ≤ count)

theorem blkOK_zero : BlkOK 0 where
  expr := by intro _ _ _ _ _ _ _ _ _ h; simp [compileExpr] at h
  args := by intro _ _ _ _ _ _ _ _ _ h; simp [compileArgs] at h
  body := by intro _ _ _ _ _ _ _ _ h; simp [compileBody] at h
  quasi := by intro _ _ _ _ _ _ _ _ _ h; simp [compileQuasi] at h
  qvec := by intro _ _ _ _ _ _ _ _ _ h; simp [quasiVec] at h
  qlist := by intro _ _ _ _ _ _ _ _ _ _ _ h; simp [quasiList] at h

theorem blkOK_succ (fuel : Nat) (ih : BlkOK fuel) : BlkOK (fuel + 1) where
  args := by
    intro st c base rest st' code n hc hs h
    cases rest with
    | pair a d =>
      simp only [compileArgs] at h
      cases h1 : compileExpr fuel st c base false a with
      | error e => simp [h1] at h
      | ok r1 =>
        obtain ⟨st1, code1⟩ := r1
        simp only [h1] at h
        cases h2 : compileArgs fuel st1 c (base + code1.length + 1) d with
        | error e => simp [h2] at h
        | ok r2 =>
          obtain ⟨st2, code2, n2⟩ := r2
          simp only [h2] at h
          cases h
          obtain ⟨hs1, b1⟩ := ih.expr _ _ _ _ _ _ _ hc hs h1
          obtain ⟨hs2, b2⟩ := ih.args _ _ _ _ _ _ _ hc hs1 h2
          exact ⟨hs2, args_blk b1 b2⟩
    | _ => simp only [compileArgs] at h; cases h; exact ⟨hs, Blk.nil _⟩
  body := by
    intro st c base b st' code hc hs h
    cases b with
    | pair x rest =>
      simp only [compileBody] at h
      cases h1 : compileExpr fuel st c base rest.isNil x with
      | error e => simp [h1] at h
      | ok r1 =>
        obtain ⟨st1, code1⟩ := r1
        simp only [h1] at h
        cases h2 : compileBody fuel st1 c (base + code1.length) rest with
        | error e => simp [h2] at h
        | ok r2 =>
          obtain ⟨st2, code2⟩ := r2
          simp only [h2] at h
          cases h
          obtain ⟨hs1, b1⟩ := ih.expr _ _ _ _ _ _ _ hc hs h1
          obtain ⟨hs2, b2⟩ := ih.body _ _ _ _ _ _ hc hs1 h2
          exact ⟨hs2, Blk.seq b1 b2⟩
    | _ => simp only [compileBody] at h; cases h; exact ⟨hs, Blk.nil _⟩
  qvec := by
    intro st c base elems depth st' code hc hs h
    cases elems with
    | pair x rest =>
      simp only [quasiVec] at h
      cases h1 : compileQuasi fuel st c (base + 1) x depth with
      | error e => simp [h1] at h
      | ok r1 =>
        obtain ⟨st1, code1⟩ := r1
        simp only [h1] at h
        cases h2 : quasiVec fuel st1 c (base + 1 + code1.length + 1) rest depth with
        | error e => simp [h2] at h
        | ok r2 =>
          obtain ⟨st2, code2⟩ := r2
          simp only [h2] at h
          cases h
          obtain ⟨hs1, b1⟩ := ih.quasi _ _ _ _ _ _ _ hc hs h1
          obtain ⟨hs2, b2⟩ := ih.qvec _ _ _ _ _ _ _ hc hs1 h2
          exact ⟨hs2, qvec_blk b1 b2⟩
    | _ => simp only [quasiVec] at h; cases h; exact ⟨hs, Blk.nil _⟩
  qlist := by
    intro st c base rest depth st' code count t hc hs h
    cases rest with
    | pair x d =>
      simp only [quasiList] at h
      cases h1 : compileQuasi fuel st c base x depth with
      | error e => simp [h1] at h
      | ok r1 =>
        obtain ⟨st1, code1⟩ := r1
        simp only [h1] at h
        cases h2 : quasiList fuel st1 c (base + code1.length + 1) d depth with
        | error e => simp [h2] at h
        | ok r2 =>
          obtain ⟨st2, code2, n2, t2⟩ := r2
          simp only [h2] at h
          cases h
          obtain ⟨hs1, b1⟩ := ih.quasi _ _ _ _ _ _ _ hc hs h1
          obtain ⟨hs2, b2, _⟩ := ih.qlist _ _ _ _ _ _ _ _ _ hc hs1 h2
          exact ⟨hs2, args_blk b1 b2, fun _ _ _ => Nat.succ_le_succ (Nat.zero_le _)⟩
    | _ =>
      simp only [quasiList] at h; cases h
      exact ⟨hs, Blk.nil _, by intro _ _ hh; cases hh⟩
  quasi := by
    intro st c base e depth st' code hc hs h
    cases e with
    | vec elems =>
      simp only [compileQuasi] at h
      cases h1 : quasiVec fuel st c (base + 6) elems depth with
      | error e => simp [h1] at h
      | ok r1 =>
        obtain ⟨st1, code1⟩ := r1
        simp only [h1] at h
        cases h
        obtain ⟨hs1, b1⟩ := ih.qvec _ _ _ _ _ _ _ hc hs h1
        exact ⟨hs1, qvecHead_blk _ b1⟩
    | pair car d =>
      simp only [compileQuasi] at h
      split at h
      · cases d with
        | pair x d2 =>
          simp only at h
          exact ih.expr _ _ _ _ _ _ _ hc hs h
        | _ => simp at h
      · cases h1 : quasiList fuel st c base (.pair car d)
            (if car.isSymStr ['q', 'u', 'a', 's', 'i', 'q', 'u', 'o', 't', 'e'] = true then (if car.isSymStr ['u', 'n', 'q', 'u', 'o', 't', 'e'] = true then depth - 1 else depth) + 1
             else if car.isSymStr ['u', 'n', 'q', 'u', 'o', 't', 'e'] = true then depth - 1 else depth) with
        | error e => simp [h1] at h
        | ok r1 =>
          obtain ⟨st1, code1, cnt, t⟩ := r1
          simp only [h1] at h
          cases h
          obtain ⟨hs1, b1, hcnt⟩ := ih.qlist _ _ _ _ _ _ _ _ _ hc hs h1
          have h1c := hcnt car d rfl
          obtain ⟨m, rfl⟩ : ∃ m, cnt = m + 1 := ⟨cnt - 1, by omega⟩
          rw [List.append_assoc]
          exact ⟨hs1, Blk.seq b1 (consTail_blk _ m t)⟩
    | _ => simp only [compileQuasi] at h; cases h; exact ⟨hs, Blk.movImm _ _ _ rfl rfl⟩
  expr := by
    intro st c base tail e st' code hc hs h
    cases e with
    | pair proc rest =>
      unfold compileExpr at h
      by_cases hd : proc.isSymStr ['d', 'e', 'f', 'i', 'n', 'e'] = true
      · simp only [hd, if_true] at h
        cases rest with
        | pair target rest2 =>
          simp only at h
          split at h
          · cases h
          · cases rest2 with
            | pair value rest3 =>
              simp only at h
              cases target with
              | sym s =>
                simp only at h
                split at h
                · cases h
                · cases h1 : compileExpr fuel st c base false value with
                  | error e => simp [h1] at h
                  | ok r1 =>
                    obtain ⟨st1, code1⟩ := r1
                    simp only [h1] at h
                    split at h
                    · cases h
                    · cases h
                      obtain ⟨hs1, b1⟩ := ih.expr _ _ _ _ _ _ _ hc hs h1
                      exact ⟨hs1, Blk.seq b1 (storeCode_blk hc _ s)⟩
              | pair name d =>
                simp only at h
                cases hp : lambdaParts fuel c (Datum.pair proc (Datum.pair (Datum.pair name d) (Datum.pair value rest3))) true with
                | error e => simp [hp] at h
                | ok p =>
                  simp only [hp] at h
                  cases hb : compileBody fuel st p.ctx p.prologue.length p.body with
                  | error e => simp [hb] at h
                  | ok r =>
                    obtain ⟨st1, bcode⟩ := r
                    simp only [hb] at h
                    cases name with
                    | sym s =>
                      simp only at h
                      split at h
                      · cases h
                      · cases h
                        obtain ⟨hpc, hpro, hni⟩ := lambdaParts_ctx hc hp
                        obtain ⟨hs1, b1⟩ := ih.body _ _ _ _ _ _ hpc hs hb
                        obtain ⟨hs2, b2⟩ := finishLambda_ok base hs1 hpro b1 hni
                        exact ⟨hs2, Blk.seq b2 (storeCode_blk hc _ s)⟩
                    | _ => simp at h
              | _ => simp at h
            | _ => simp at h
        | _ => simp at h
      · simp only [hd, if_false, Bool.false_eq_true] at h
        by_cases hds : proc.isSymStr ['d', 'e', 'f', 'i', 'n', 'e', '-', 's', 'y', 'n', 't', 'a', 'x'] = true
        · simp [hds] at h
        · simp only [hds, if_false, Bool.false_eq_true] at h
          by_cases hl : (proc.isSymStr ['l', 'a', 'm', 'b', 'd', 'a'] || proc.isSymStr ['λ']) = true
          · simp only [hl, if_true] at h
            cases hp : lambdaParts fuel c (Datum.pair proc rest) false with
            | error e => simp [hp] at h
            | ok p =>
              simp only [hp] at h
              cases hb : compileBody fuel st p.ctx p.prologue.length p.body with
              | error e => simp [hb] at h
              | ok r =>
                obtain ⟨st1, bcode⟩ := r
                simp only [hb] at h
                cases h
                obtain ⟨hpc, hpro, hni⟩ := lambdaParts_ctx hc hp
                obtain ⟨hs1, b1⟩ := ih.body _ _ _ _ _ _ hpc hs hb
                exact finishLambda_ok base hs1 hpro b1 hni
          · simp only [hl, if_false, Bool.false_eq_true] at h
            by_cases hq : proc.isSymStr ['q', 'u', 'a', 's', 'i', 'q', 'u', 'o', 't', 'e'] = true
            · simp only [hq, if_true] at h
              cases rest with
              | pair x d => simp only at h; exact ih.quasi _ _ _ _ _ _ _ hc hs h
              | _ => simp at h
            · simp only [hq, if_false, Bool.false_eq_true] at h
              by_cases hqq : proc.isSymStr ['q', 'u', 'o', 't', 'e'] = true
              · simp only [hqq, if_true] at h
                cases rest with
                | pair x d => simp only at h; cases h; exact ⟨hs, Blk.movImm _ _ _ rfl rfl⟩
                | _ => simp at h
              · simp only [hqq, if_false, Bool.false_eq_true] at h
                by_cases hif : proc.isSymStr ['i', 'f'] = true
                · simp only [hif, if_true] at h
                  split at h
                  · cases h
                  · split at h
                    · rename_i test conseq hit
                      cases h1 : compileExpr fuel st c base false test with
                      | error e => simp [h1] at h
                      | ok r1 =>
                        obtain ⟨st1, tcode⟩ := r1
                        simp only [h1] at h
                        cases h2 : compileExpr fuel st1 c (base + tcode.length + 2) tail conseq with
                        | error e => simp [h2] at h
                        | ok r2 =>
                          obtain ⟨st2, ccode⟩ := r2
                          simp only [h2] at h
                          cases h
                          obtain ⟨hs1, b1⟩ := ih.expr _ _ _ _ _ _ _ hc hs h1
                          obtain ⟨hs2, b2⟩ := ih.expr _ _ _ _ _ _ _ hc hs1 h2
                          exact ⟨hs2, Blk.ite _ _ b1 b2 (Blk.movImm _ _ _ rfl rfl) rfl rfl⟩
                    · rename_i test conseq alt hit
                      cases h1 : compileExpr fuel st c base false test with
                      | error e => simp [h1] at h
                      | ok r1 =>
                        obtain ⟨st1, tcode⟩ := r1
                        simp only [h1] at h
                        cases h2 : compileExpr fuel st1 c (base + tcode.length + 2) tail conseq with
                        | error e => simp [h2] at h
                        | ok r2 =>
                          obtain ⟨st2, ccode⟩ := r2
                          simp only [h2] at h
                          cases h3 : compileExpr fuel st2 c (base + tcode.length + 2 + ccode.length + 2) tail alt with
                          | error e => simp [h3] at h
                          | ok r3 =>
                            obtain ⟨st3, acode⟩ := r3
                            simp only [h3] at h
                            cases h
                            obtain ⟨hs1, b1⟩ := ih.expr _ _ _ _ _ _ _ hc hs h1
                            obtain ⟨hs2, b2⟩ := ih.expr _ _ _ _ _ _ _ hc hs1 h2
                            obtain ⟨hs3, b3⟩ := ih.expr _ _ _ _ _ _ _ hc hs2 h3
                            exact ⟨hs3, Blk.ite _ _ b1 b2 b3 rfl rfl⟩
                    · cases h
                · simp only [hif, if_false, Bool.false_eq_true] at h
                  by_cases hs' : proc.isSymStr ['s', 'e', 't', '!'] = true
                  · simp only [hs', if_true] at h
                    split at h
                    · rename_i s value hit
                      split at h
                      · cases h
                      · cases h1 : compileExpr fuel st c base false value with
                        | error e => simp [h1] at h
                        | ok r1 =>
                          obtain ⟨st1, code1⟩ := r1
                          simp only [h1] at h
                          cases h
                          obtain ⟨hs1, b1⟩ := ih.expr _ _ _ _ _ _ _ hc hs h1
                          exact ⟨hs1, Blk.seq b1 (storeCode_blk hc _ s)⟩
                    · cases h
                    · cases h
                  · simp only [hs', if_false, Bool.false_eq_true] at h
                    cases h1 : compileArgs fuel st c base rest with
                    | error e => simp [h1] at h
                    | ok r1 =>
                      obtain ⟨st1, code1, n⟩ := r1
                      simp only [h1] at h
                      cases h2 : compileExpr fuel st1 c (base + code1.length + 2) false proc with
                      | error e => simp [h2] at h
                      | ok r2 =>
                        obtain ⟨st2, pcode⟩ := r2
                        simp only [h2] at h
                        cases h
                        obtain ⟨hs1, b1⟩ := ih.args _ _ _ _ _ _ _ hc hs h1
                        obtain ⟨hs2, b2⟩ := ih.expr _ _ _ _ _ _ _ hc hs1 h2
                        exact ⟨hs2, app_blk tail b1 b2⟩
    | sym s =>
      simp only [compileExpr] at h
      split at h
      · cases h
      · cases h
        exact ⟨hs, Blk.mov _ _ _ (emitLoc_locB hc s) rfl⟩
    | nil => simp [compileExpr] at h
    | procedure d => simp [compileExpr] at h
    | void => simp [compileExpr] at h
    | undefined => simp [compileExpr] at h
    | macro_ => simp [compileExpr] at h
    | continuation => simp [compileExpr] at h
    | bool b => simp only [compileExpr] at h; cases h; exact ⟨hs, Blk.movImm _ _ _ rfl rfl⟩
    | char ch => simp only [compileExpr] at h; cases h; exact ⟨hs, Blk.movImm _ _ _ rfl rfl⟩
    | num n => simp only [compileExpr] at h; cases h; exact ⟨hs, Blk.movImm _ _ _ rfl rfl⟩
    | str t => simp only [compileExpr] at h; cases h; exact ⟨hs, Blk.movImm _ _ _ rfl rfl⟩
    | vec v => simp only [compileExpr] at h; cases h; exact ⟨hs, Blk.movImm _ _ _ rfl rfl⟩

theorem blkOK_all : ∀ fuel, BlkOK fuel
  | 0 => blkOK_zero
  | n+1 => blkOK_succ n (blkOK_all n)

/-- the top-level lambda and every code object in the table are procedure code with a structured body -/
theorem compileTop_shape {e : Datum} {fuel : Nat} {st : CState} {lam : LambdaM}
    (h : compileTop e fuel = .ok (st, lam)) : ProcShape lam ∧ LamsOK st := by
  unfold compileTop at h
  cases h1 : compileExpr fuel {} ⟨[], []⟩ 1 true e with
  | error err => simp [h1] at h
  | ok r =>
    obtain ⟨st1, code⟩ := r
    simp only [h1] at h
    cases h
    have hc : CtxOK ⟨[], []⟩ := by intro a ha; cases ha
    have hs : LamsOK {} := by intro l hl; cases hl
    obtain ⟨hs1, b1⟩ := (blkOK_all fuel).expr _ _ _ _ _ _ _ hc hs h1
    exact ⟨⟨code, rfl, b1, fun x hx => by cases hx⟩, hs1⟩

end Marwood.Vm
