import Marwood.Lemmas.EvalExtraMain
import Marwood.Lemmas.EvalWFMain
/-!
# Extra-cell invariance, instantiated: cells appended to a well-formed store, one more binding

`shiftAt s k` keeps the locations below `s` and moves the others up by `k`. A well-formed state (no
dangling locations, `Lemmas/EvalWF.lean`) is related by it to the same state with `k` more cells
appended (`stRel_extend`), an environment to itself with a binding of an unmentioned name in front
(`envRel_shift_cons`). `binder_agree` is the common core of the expansions
`(let ((x t)) (if x A B))` of `or` and `cond`: evaluate `t`, allocate a variable for its value, run the
rest under the extra binding — against: evaluate `t`, run the rest.
-/
namespace Marwood.Spec.Eval.Extra
open Marwood Marwood.Spec.Eval

def shiftAt (s k : Nat) : LMap := fun l => if l < s then l else l + k

theorem shiftAt_lt {s k l : Nat} (h : l < s) : shiftAt s k l = l := by simp [shiftAt, h]

theorem shiftAt_ge {s k l : Nat} (h : s ≤ l) : shiftAt s k l = l + k := by
  have : ¬ l < s := by omega
  simp [shiftAt, this]

theorem inj_shiftAt (s k : Nat) : Inj (shiftAt s k) := by
  intro a b h
  unfold shiftAt at h
  split at h <;> split at h <;> omega

theorem inj_id : Inj (fun l => l) := fun _ _ h => h

variable {f : LMap}

/-- a map that fixes every location the value mentions relates it to itself -/
theorem lookRel_self {ρ : Env} (h : ∀ p ∈ ρ, f p.2 = p.2) (y : Text) : LookRel f (ρ.lookup y) (ρ.lookup y) := by
  induction ρ with
  | nil => exact .none
  | cons p ρ ih =>
    obtain ⟨x, l⟩ := p
    simp only [List.lookup_cons]
    split
    · have := LookRel.some (f := f) l
      rwa [h (x, l) (by simp)] at this
    · exact ih (fun p hp => h p (by simp [hp]))

theorem envRel_self {ρ : Env} (h : ∀ p ∈ ρ, f p.2 = p.2) (B : List Text) : EnvRel f B ρ ρ :=
  fun y _ => lookRel_self h y

def FixesVal (f : LMap) : Val → Prop
  | .pair l | .vec l | .promise l => f l = l
  | .closure _ _ _ ρ => ∀ p ∈ ρ, f p.2 = p.2
  | _ => True

theorem vRel_self {v : Val} (h : FixesVal f v) : VRel f v v := by
  cases v with
  | pair l => have := VRel.pair (f := f) l; rwa [show f l = l from h] at this
  | vec l => have := VRel.vec (f := f) l; rwa [show f l = l from h] at this
  | promise l => have := VRel.promise (f := f) l; rwa [show f l = l from h] at this
  | closure ps rest body ρ => exact .closure ps rest body ρ ρ [] (envRel_self h []) (fun d _ => cleanB_nil d)
  | bool b => exact .bool b
  | char c => exact .char c
  | nil => exact .nil
  | int n => exact .int n
  | str s => exact .str s
  | sym s => exact .sym s
  | prim p => exact .prim p
  | void => exact .void
  | undef => exact .undef

theorem vsRel_self {vs : List Val} (h : ∀ v ∈ vs, FixesVal f v) : VsRel f vs vs := by
  induction vs with
  | nil => exact .nil
  | cons v vs ih => exact .cons (vRel_self (h v (by simp))) (ih (fun w hw => h w (by simp [hw])))

theorem fixes_of_ok {s k : Nat} {v : Val} (h : ValOK s v) : FixesVal (shiftAt s k) v := by
  cases v <;> simp only [ValOK, FixesVal] at h ⊢ <;>
    first
      | exact shiftAt_lt h
      | (intro p hp; exact shiftAt_lt (h p hp))
      | trivial

theorem fixes_id (v : Val) : FixesVal (fun l => l) v := by
  cases v <;> simp [FixesVal]

theorem cellRel_self {c : Cell} (h : ∀ v, (match c with
    | .var w => v = w | .pair a d => v = a ∨ v = d | .vec xs => v ∈ xs | .promise _ w => v = w) → FixesVal f v) :
    CellRel f c c := by
  cases c with
  | var w => exact .var (vRel_self (h w rfl))
  | pair a d => exact .pair (vRel_self (h a (Or.inl rfl))) (vRel_self (h d (Or.inr rfl)))
  | vec xs => exact .vec (vsRel_self (fun v hv => h v hv))
  | promise b w => exact .promise b (vRel_self (h w rfl))

theorem cellRel_shift_self {s k : Nat} {c : Cell} (h : CellOK s c) : CellRel (shiftAt s k) c c := by
  apply cellRel_self
  intro v hv
  cases c with
  | var w => subst hv; exact fixes_of_ok h
  | pair a d => rcases hv with rfl | rfl; exact fixes_of_ok h.1; exact fixes_of_ok h.2
  | vec xs => exact fixes_of_ok (h v hv)
  | promise b w => subst hv; exact fixes_of_ok h

/-- every state is related to itself by the identity -/
theorem stRel_id (st : St) : StRel (fun l => l) st st := by
  refine ⟨?_, fun _ => rfl, Nat.le_refl _, rfl, ?_⟩
  · intro l c h
    refine ⟨c, h, cellRel_self (fun v _ => fixes_id v)⟩
  · intro y
    cases st.globals.lookup y with
    | none => exact .none
    | some v => exact .some (vRel_self (fixes_id v))

/-- a well-formed state is related to every state that has the same globals and output and the same
    cells plus `k` more at the end -/
theorem stRel_extend {st : St} (hst : WFSt st) (k : Nat) (σ' : Array Cell) (hsz : σ'.size = st.store.size + k)
    (hpre : ∀ l, l < st.store.size → σ'[l]? = st.store[l]?) :
    StRel (shiftAt st.store.size k) st { st with store := σ' } := by
  refine ⟨?_, ?_, by simp [hsz], rfl, ?_⟩
  · intro l c h
    have hl : l < st.store.size := by
      rcases Nat.lt_or_ge l st.store.size with h' | h'
      · exact h'
      · rw [Array.getElem?_eq_none h'] at h; cases h
    refine ⟨c, ?_, cellRel_shift_self (hst.store l c h)⟩
    rw [shiftAt_lt hl]
    show σ'[l]? = some c
    rw [hpre l hl, h]
  · intro i
    rw [shiftAt_ge (Nat.le_add_right _ _)]
    show _ = σ'.size + i
    omega
  · intro y
    cases h : st.globals.lookup y with
    | none => exact .none
    | some v => exact .some (vRel_self (fixes_of_ok (hst.globals y v h)))

theorem stRel_push {st : St} (hst : WFSt st) (c : Cell) :
    StRel (shiftAt st.store.size 1) st { st with store := st.store.push c } := by
  refine stRel_extend hst 1 _ (by simp) ?_
  intro l hl
  simp only [Array.getElem?_push]
  rw [if_neg (by omega)]

/-- an environment against itself with one more binding in front, of a name in `B` -/
theorem envRel_shift_cons {s k : Nat} {ρ : Env} (hρ : EnvOK s ρ) (x : Text) (l : Loc) :
    EnvRel (shiftAt s k) [x] ρ ((x, l) :: ρ) := by
  intro y hy
  have hne : (y == x) = false := by
    simp only [List.mem_singleton] at hy
    simpa using hy
  simp only [List.lookup_cons, hne]
  exact lookRel_self (fun p hp => shiftAt_lt (hρ p hp)) y

theorem ResRel.definite {α α' : Type} {R : α → α' → Prop} {res : Res α} {res' : Res α'} (h : ResRel f R res res')
    (hd : res ≠ .timeout) : res' ≠ .timeout := by
  cases res with
  | ok a s => obtain ⟨a', s', rfl, _⟩ := h.ok_inv; simp
  | err e s => obtain ⟨s', rfl, _⟩ := h.err_inv; simp
  | timeout => exact absurd rfl hd

/-- … and `m''`, which refines `m'`, is related as well -/
theorem ResRel.le {α α' : Type} {R : α → α' → Prop} {m : M α} {m' m'' : M α'} {st st' : St}
    (h : ResRel f R (m st) (m' st')) (hd : m st ≠ .timeout) (hle : Le m' m'') : ResRel f R (m st) (m'' st') := by
  rw [hle st' (h.definite hd)]
  exact h

/-- **The common core of the binder-introducing expansions.** `K r ρ v` is the rest of the computation
    after the test `t` has yielded `v`; it is simulated under any location map and any environments
    that agree off `x` (`hK`). `K' l v` is what the expansion runs after allocating the variable `x` at
    `l`: in the state just after that allocation it refines `K` under the extra binding (`hK'`). Then
    from a well-formed state: if "`t`, then `K`" with the guarded evaluator at fuel `n` is definite,
    "`t` (fuel `n + j`), then a fresh variable holding the value, then `K'`" has the same outcome up to
    a location map that fixes the locations of the initial store. -/
theorem binder_agree (x : Text) (t : Datum) (K : Rec → Env → Val → M Val)
    (hK : ∀ (f : LMap), Inj f → ∀ (r r' : Rec), RecSim f r r' → ∀ (ρ ρ' : Env), EnvRel f [x] ρ ρ' →
      ∀ (v v' : Val), VRel f v v' → Sim f (VRel f) (K r ρ v) (K r' ρ' v'))
    (n j : Nat) (ρ : Env) (st : St) (hst : WFSt st) (hρ : EnvOK st.store.size ρ) (K' : Loc → Val → M Val)
    (hK' : ∀ (v : Val) (s1 : St),
      K (evalN n) ((x, s1.store.size) :: ρ) v { s1 with store := s1.store.push (.var v) } ≠ .timeout →
      K' s1.store.size v { s1 with store := s1.store.push (.var v) } =
        K (evalN n) ((x, s1.store.size) :: ρ) v { s1 with store := s1.store.push (.var v) })
    (hd : ((guardN n).eval t ρ >>= fun v => K (guardN n) ρ v) st ≠ .timeout) :
    ∃ f, Inj f ∧ (∀ l, l < st.store.size → f l = l) ∧
      ResRel f (VRel f) (((guardN n).eval t ρ >>= fun v => K (guardN n) ρ v) st)
        (((evalN (n + j)).eval t ρ >>= fun v => allocCell (.var v) >>= fun l => K' l v) st) := by
  have hd' : M.bind' ((guardN n).eval t ρ) (fun v => K (guardN n) ρ v) st ≠ .timeout := hd
  show ∃ f, Inj f ∧ _ ∧ ResRel f (VRel f) (M.bind' ((guardN n).eval t ρ) (fun v => K (guardN n) ρ v) st)
    (M.bind' ((evalN (n + j)).eval t ρ) (fun v => M.bind' (allocCell (.var v)) fun l => K' l v) st)
  unfold M.bind' at hd' ⊢
  cases h : (guardN n).eval t ρ st with
  | timeout => rw [h] at hd'; exact absurd rfl hd'
  | err e s1 =>
    have h1 : (evalN n).eval t ρ st = .err e s1 := by
      rw [guardN_eval_evalN n t ρ st (by rw [h]; simp), h]
    have h2 : (evalN (n + j)).eval t ρ st = .err e s1 := by
      rw [evalN_mono (Nat.le_add_right n j) t ρ st (by rw [h1]; simp), h1]
    simp only [h2]
    exact ⟨fun l => l, inj_id, fun _ _ => rfl, rfl, stRel_id s1⟩
  | ok v s1 =>
    rw [h] at hd'
    simp only at hd'
    have h1 : (evalN n).eval t ρ st = .ok v s1 := by
      rw [guardN_eval_evalN n t ρ st (by rw [h]; simp), h]
    have h2 : (evalN (n + j)).eval t ρ st = .ok v s1 := by
      rw [evalN_mono (Nat.le_add_right n j) t ρ st (by rw [h1]; simp), h1]
    have hwf := wf_evalN n t ρ st hst hρ
    rw [h1] at hwf
    obtain ⟨hs1, hgrow, hv⟩ := hwf
    simp only [h2, allocCell]
    refine ⟨shiftAt s1.store.size 1, inj_shiftAt _ _, fun l hl => shiftAt_lt (Nat.lt_of_lt_of_le hl hgrow), ?_⟩
    have hsim := hK (shiftAt s1.store.size 1) (inj_shiftAt _ _) (guardN n) (evalN n) (recSim (inj_shiftAt _ _) n)
      ρ ((x, s1.store.size) :: ρ) (envRel_shift_cons (hρ.mono hgrow) x _) v v (vRel_self (fixes_of_ok hv))
      s1 { s1 with store := s1.store.push (.var v) } (stRel_push hs1 _)
    rw [hK' v s1 (hsim.definite hd')]
    exact hsim

end Marwood.Spec.Eval.Extra
