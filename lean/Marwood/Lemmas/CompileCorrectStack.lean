import Marwood.Lemmas.CompileCorrectDefs
/-!
# T01.3 stage 1 — the live part of the stack under `push` / `pop` / `popN`
-/
namespace Marwood.Lemmas.CompileCorrect
open Marwood Marwood.Vm

theorem LiveEq.refl (a : Stack) : LiveEq a a := ⟨rfl, fun _ _ => rfl⟩

theorem LiveEq.symm {a b : Stack} (h : LiveEq a b) : LiveEq b a :=
  ⟨h.1.symm, fun i hi => (h.2 i (h.1 ▸ hi)).symm⟩

theorem LiveEq.trans {a b c : Stack} (h1 : LiveEq a b) (h2 : LiveEq b c) : LiveEq a c :=
  ⟨h1.1.trans h2.1, fun i hi => (h1.2 i hi).trans (h2.2 i (h1.1 ▸ hi))⟩

theorem push_swf (s : Stack) (v : VCell) : SWF (s.push v) := Stack.push_sp_lt s v

/-- pushing keeps the cells up to `sp` -/
theorem push_below (s : Stack) (v : VCell) (hw : SWF s) (i : Nat) (hi : i ≤ s.sp) :
    (s.push v).cells[i]? = s.cells[i]? := by
  unfold SWF at hw
  unfold Stack.push
  split
  · simp only [List.getElem?_set]
    have : ¬ s.sp + 1 = i := by omega
    simp [this]
  · simp only [List.getElem?_set]
    have : ¬ s.sp + 1 = i := by omega
    simp only [this, if_false]
    exact List.getElem?_append_left (by omega)

/-- … and writes cell `sp + 1` -/
theorem push_top (s : Stack) (v : VCell) : (s.push v).cells[s.sp + 1]? = some v := by
  have h := Stack.push_cellAt s v (s.sp + 1)
  have hlt := Stack.push_sp_lt s v
  simp only [Stack.push_sp] at hlt
  unfold Stack.cellAt at h
  rw [List.getElem?_eq_getElem hlt] at h ⊢
  simpa using h

theorem LiveEq.push {a b : Stack} (h : LiveEq a b) (ha : SWF a) (hb : SWF b) (v : VCell) :
    LiveEq (a.push v) (b.push v) := by
  refine ⟨by simp [h.1], ?_⟩
  intro i hi
  simp only [Stack.push_sp] at hi
  by_cases hlt : i ≤ a.sp
  · rw [push_below a v ha i hlt, push_below b v hb i (h.1 ▸ hlt)]
    exact h.2 i hlt
  · have : i = a.sp + 1 := by omega
    subst this
    rw [push_top, h.1, push_top]

/-- popping what was pushed -/
theorem pop_of_push {a b : Stack} {v : VCell} (h : LiveEq (a.push v) b) (ha : SWF a) :
    b.pop = .ok (v, { b with sp := b.sp - 1 }) ∧ LiveEq a { b with sp := b.sp - 1 } := by
  have hsp : b.sp = a.sp + 1 := by rw [← h.1]; simp
  have htop : b.cells[b.sp]? = some v := by
    rw [hsp, ← h.2 (a.sp + 1) (by simp), push_top]
  refine ⟨?_, ?_⟩
  · unfold Stack.pop
    have : 0 < b.sp := by omega
    simp [this, htop]
  · refine ⟨by simp [hsp], ?_⟩
    intro i hi
    show a.cells[i]? = b.cells[i]?
    rw [← h.2 i (by simp; omega), push_below a v ha i hi]

theorem pop_swf {b : Stack} (hb : SWF b) : SWF { b with sp := b.sp - 1 } := by
  unfold SWF at *
  show b.sp - 1 < b.cells.length
  omega

theorem pushAll_nil (st : Stack) : pushAll st [] = st := rfl
theorem pushAll_cons (st : Stack) (v : VCell) (vs : List VCell) :
    pushAll st (v :: vs) = pushAll (st.push v) vs := rfl

theorem pushAll_append (st : Stack) (vs ws : List VCell) :
    pushAll st (vs ++ ws) = pushAll (pushAll st vs) ws := by
  simp [pushAll, List.foldl_append]

theorem pushAll_swf (st : Stack) (vs : List VCell) (h : SWF st) : SWF (pushAll st vs) := by
  induction vs generalizing st with
  | nil => exact h
  | cons v vs ih => exact ih _ (push_swf st v)

theorem LiveEq.pushAll {a b : Stack} (h : LiveEq a b) (ha : SWF a) (hb : SWF b) (vs : List VCell) :
    LiveEq (pushAll a vs) (pushAll b vs) := by
  induction vs generalizing a b with
  | nil => exact h
  | cons v vs ih => exact ih (h.push ha hb v) (push_swf a v) (push_swf b v)

theorem ok_bind {α β : Type} (a : α) (f : α → Outcome β) : (Outcome.ok a >>= f) = f a := rfl

/-- `popN (n+1)` pops `n` cells and then one more -/
theorem popN_succ_last (n : Nat) (st : Stack) :
    popN (n + 1) st = (do
      let (xs, st1) ← popN n st
      let (x, st2) ← st1.pop
      .ok (xs ++ [x], st2)) := by
  induction n generalizing st with
  | zero =>
    simp only [popN, ok_bind]
    cases st.pop with
    | ok r => obtain ⟨x, st2⟩ := r; rfl
    | err e => rfl
    | panic m => rfl
  | succ n ih =>
    rw [popN]
    cases hp : st.pop with
    | err e => simp only [popN, hp]; rfl
    | panic m => simp only [popN, hp]; rfl
    | ok r =>
      obtain ⟨v, st1⟩ := r
      simp only [ok_bind]
      rw [ih st1]
      conv => rhs; rw [popN]; simp only [hp, ok_bind]
      cases popN n st1 with
      | err e => rfl
      | panic m => rfl
      | ok r2 =>
        obtain ⟨xs, st2⟩ := r2
        simp only [ok_bind]
        cases st2.pop with
        | err e => rfl
        | panic m => rfl
        | ok r3 => obtain ⟨x, st3⟩ := r3; rfl

/-- popping everything that was pushed: the values come back last first, the stack is as before -/
theorem popN_pushAll (vs : List VCell) : ∀ {a b : Stack}, LiveEq (pushAll a vs) b → SWF a → SWF b →
    ∃ b', popN vs.length b = .ok (vs.reverse, b') ∧ LiveEq a b' ∧ SWF b' := by
  induction vs with
  | nil => intro a b h _ hb; exact ⟨b, rfl, h, hb⟩
  | cons v vs ih =>
    intro a b h ha hb
    rw [pushAll_cons] at h
    obtain ⟨b1, hp, hl, hw⟩ := ih h (push_swf a v) hb
    obtain ⟨hpop, hl2⟩ := pop_of_push hl ha
    refine ⟨{ b1 with sp := b1.sp - 1 }, ?_, hl2, pop_swf hw⟩
    rw [List.length_cons, popN_succ_last, hp]
    simp only [ok_bind, hpop, List.reverse_cons]

end Marwood.Lemmas.CompileCorrect
