import Marwood.Vm.PrepareCheck
import Marwood.Lemmas.PrepareDefs
/-!
# Soundness of the executable checker of `Installs` / `InstallsGarbage`

`Vm/PrepareCheck.lean` decides, on a pair of complete machine states (before / after a real `prepare_eval`), the
relation of `Lemmas/PrepareDefs.lean` by replaying the allocations. This file proves every Boolean function of the
checker sound towards the clause of the relation it stands for; the two end results are `installsB_sound` and
`garbageB_sound`.
-/
namespace Marwood.Lemmas.Good
open Marwood Marwood.Vm Marwood.Vm.Verify Marwood.Vm.Concrete Marwood.Lemmas.Sim
open Marwood.Heap (GcState crefs)

/-! ## `Enc`, `EncList`, `LoadedLam` -/

theorem isGlobSlot_sound {v : VCell} (h : isGlobSlot v = true) : ∃ g, v = .globSlot g := by
  cases v <;> first | exact ⟨_, rfl⟩ | cases h

theorem isLexSlot_sound {v : VCell} (h : isLexSlot v = true) : ∃ j, v = .lexEnvSlot j := by
  cases v <;> first | exact ⟨_, rfl⟩ | cases h

theorem isPtr_sound {v : VCell} (h : isPtr v = true) : ∃ a, v = .ptr a := by
  cases v <;> first | exact ⟨_, rfl⟩ | cases h

theorem encB_sound {b : BC} {v : VCell} (h : encB b v = true) : Enc b v := by
  cases b with
  | op o => exact of_decide_eq_true (p := v = _) h
  | acc => exact of_decide_eq_true (p := v = _) h
  | global g => exact isGlobSlot_sound h
  | envSlot j => exact isLexSlot_sound h
  | bpOffset i => exact of_decide_eq_true (p := v = _) h
  | argc n => exact of_decide_eq_true (p := v = _) h
  | target o => exact of_decide_eq_true (p := v = _) h
  | void => exact of_decide_eq_true (p := v = _) h
  | datum d => exact h
  | newVector => exact h
  | lambda l => exact isPtr_sound h

theorem encListB_sound : ∀ {bs : List BC} {vs : List VCell}, encListB bs vs = true → EncList bs vs
  | [], [], _ => trivial
  | [], _ :: _, h => by cases h
  | _ :: _, [], h => by cases h
  | b :: bs, v :: vs, h => by
    have h' : (encB b v && encListB bs vs) = true := h
    rw [Bool.and_eq_true] at h'
    exact ⟨encB_sound h'.1, encListB_sound h'.2⟩

theorem loadedB_sound {m : LambdaM} {cl : CLambda} (h : loadedB m cl = true) : LoadedLam m cl := by
  unfold loadedB at h
  rw [Bool.and_eq_true, Bool.and_eq_true, List.all_eq_true, decide_eq_true_eq] at h
  obtain ⟨⟨h1, h2⟩, h3⟩ := h
  refine ⟨encListB_sound h1, ?_, h3⟩
  intro y hy n hn
  have := h2 y hy
  unfold iofOkB at this
  rw [hn] at this
  simp only [List.any_eq_true, decide_eq_true_eq] at this
  exact this

/-! ## `ImmLoaded`, `LamEnvOk` -/

theorem iofSlotB_sound {parent : List (VCell × Concrete.Source)} {y : VCell × Concrete.Source} (h : iofSlotB parent y = true) {k : Nat}
    (hk : y.2 = Concrete.Source.iofEnv k) : ∃ z, parent[k]? = some z ∧ z.1 = y.1 := by
  unfold iofSlotB at h
  rw [hk] at h
  simp only at h
  cases hp : parent[k]? with
  | none => rw [hp] at h; cases h
  | some z => rw [hp] at h; exact ⟨z, rfl, of_decide_eq_true h⟩

theorem immLoadedB_sound {tbl : List LambdaM} {h : CHeap} {m : LambdaM} {cl : CLambda}
    (hb : immLoadedB tbl h m cl = true) : ImmLoaded tbl h m cl := by
  unfold immLoadedB at hb
  rw [List.all_eq_true] at hb
  have key : ∀ (j : Nat) (b : BC), m.bc[j]? = some b → immAtB tbl h m cl j = true := by
    intro j b hj
    exact hb j (List.mem_range.mpr (List.getElem?_eq_some_iff.mp hj).1)
  refine ⟨?_, ?_⟩
  · intro j b v hj hd hv
    have := key j b hj
    unfold immAtB at this
    rw [hj, hv] at this
    cases b <;> first | exact this | cases hd
  · intro j id a hj hv
    have := key j _ hj
    unfold immAtB at this
    rw [hj, hv] at this
    simp only at this
    cases ht : tbl[id]? with
    | none => rw [ht] at this; cases this
    | some m' =>
      cases hl : lambdaAt h a with
      | none => rw [ht, hl] at this; cases this
      | some cl' =>
        rw [ht, hl] at this
        simp only [Bool.and_eq_true, List.all_eq_true] at this
        exact ⟨m', cl', rfl, rfl, loadedB_sound this.1, fun y hy k hk => iofSlotB_sound (this.2 y hy) hk⟩

theorem envOkB_sound {h : CHeap} {cl : CLambda} (hb : envOkB h cl = true) : LamEnvOk h cl := by
  unfold envOkB at hb
  rw [Bool.and_eq_true] at hb
  exact ⟨hb.1, hb.2⟩

/-! ## `NPArgs`, `LamOk`, `CodeOk`, `LoadedQ` -/

theorem npArgsB_sound {cl : CLambda} (h : npArgsB cl = true) : NPArgs cl := by
  unfold npArgsB lamNPB at h
  simp only [Bool.and_eq_true, Bool.or_eq_true, Bool.not_eq_true', decide_eq_true_eq] at h
  obtain ⟨h1, h2⟩ := h
  refine ⟨?_, ?_⟩
  · intro hm
    rcases h1 with h1 | h1
    · have : cl.bc.contains (VCell.opcode .varArg) = true := List.contains_iff_mem.mpr hm
      rw [this] at h1; cases h1
    · exact h1
  · intro p hp a ha
    rw [List.all_eq_true] at h2
    have := h2 p hp
    rw [ha] at this
    simpa using this

theorem addrFreeB_eq (v : VCell) : addrFreeB v = addrFree v := by
  cases v <;> rfl

theorem plainGlobB_eq (v : VCell) : plainGlobB v = plainGlob v := by
  unfold plainGlobB plainGlob
  rw [addrFreeB_eq]

theorem notPtrB_eq (v : VCell) : notPtrB v = notPtr v := by
  cases v <;> rfl

theorem opndAllB_notPtr (o : Option VCell) : opndAllB notPtrB o = opndAll notPtr o := by
  cases o with
  | none => rfl
  | some v => exact notPtrB_eq v

theorem opndAllB_plainGlob (o : Option VCell) : opndAllB plainGlobB o = opndAll plainGlob o := by
  cases o with
  | none => rfl
  | some v => exact plainGlobB_eq v

theorem noIofB_sound {cl : CLambda} (h : noIofB cl = true) : ∀ x ∈ cl.envmap, ∀ n, x.2 ≠ Source.iofArg n := by
  unfold noIofB at h
  rw [List.all_eq_true] at h
  intro x hx n hn
  have := h x hx
  unfold notIofB at this
  rw [hn] at this
  cases this

theorem lamOkB_sound {cl : CLambda} (h : lamOkB cl = true) : LamOk cl := by
  unfold lamOkB at h
  rw [Bool.and_eq_true, List.all_eq_true] at h
  obtain ⟨h1, h2⟩ := h
  have key : ∀ j (v : VCell), cl.bc[j]? = some v → movOkB cl.bc j = true := by
    intro j v hj
    have hlt : j < cl.bc.length := (List.getElem?_eq_some_iff.mp hj).1
    exact h2 j (List.mem_range.mpr hlt)
  refine ⟨noIofB_sound h1, ?_, ?_⟩
  · intro j hj
    have := key j _ hj
    unfold movOkB at this
    rw [hj] at this
    simp only [Bool.and_eq_true, opndAllB_notPtr] at this
    exact this
  · intro j hj
    have := key j _ hj
    unfold movOkB at this
    rw [hj] at this
    simp only [Bool.and_eq_true, opndAllB_notPtr, opndAllB_plainGlob] at this
    exact this

theorem codeOkB_sound {cl : CLambda} (h : codeOkB cl = true) : CodeOk cl := by
  unfold codeOkB at h
  simp only [Bool.and_eq_true, decide_eq_true_eq] at h
  obtain ⟨⟨⟨⟨⟨h1, h2⟩, h3⟩, h4⟩, h5⟩, h6⟩ := h
  exact ⟨h1, noIofB_sound h2, h3, lamOkB_sound h4, npArgsB_sound h5, h6⟩

theorem codeOkHB_sound {h : CHeap} {cl : CLambda} (hb : codeOkHB h cl = true) : CodeOkH h cl := by
  unfold codeOkHB at hb
  rw [Bool.and_eq_true] at hb
  exact ⟨codeOkB_sound hb.1, envOkB_sound hb.2⟩

theorem loadedQB_sound {e : Datum} {fuel : Nat} {st : CState} {lam ent : LambdaM}
    (hc : compileRunnable e fuel = .ok (st, lam, ent)) {hp : CHeap} {cl : CLambda}
    (h : loadedQB (st.lambdas ++ [lam]) (lam :: ent :: st.lambdas) hp cl = true) : LoadedQ e fuel hp cl := by
  unfold loadedQB at h
  simp only [Bool.and_eq_true, List.any_eq_true] at h
  obtain ⟨⟨⟨m, hm, hl, hi⟩, h2⟩, h3⟩ := h
  refine ⟨⟨st, lam, ent, m, hc, ?_, loadedB_sound hl, immLoadedB_sound hi⟩, npArgsB_sound h2, h3⟩
  rcases List.mem_cons.mp hm with hm | hm
  · exact .inl hm
  · rcases List.mem_cons.mp hm with hm | hm
    · exact .inr (.inr hm)
    · exact .inr (.inl hm)

/-! ## allocator steps -/

theorem nonFreeB_iff (h : CHeap) (y : Nat) : nonFreeB h y = true ↔ (toHeap h).NonFree y := by
  unfold nonFreeB Heap.Heap.NonFree
  show _ ↔ h.gc[y]? = some GcState.allocated ∨ h.gc[y]? = some GcState.used
  cases h.gc[y]? with
  | none => simp
  | some g => cases g <;> simp

theorem nfB_sound {h : CHeap} {y : Nat} (hb : nfB h y = true) : NF h y := by
  unfold nfB at hb
  rw [Bool.or_eq_true, decide_eq_true_eq] at hb
  rcases hb with hb | hb
  · exact .inl ((nonFreeB_iff h y).mp hb)
  · exact .inr hb

theorem crefsOkB_sound {h : CHeap} {c : CCell} (hb : crefsOkB h c = true) : CRefsOk h c := by
  unfold crefsOkB at hb
  rw [List.all_eq_true] at hb
  intro y hy
  exact nfB_sound (hb y hy)

theorem newCellB_sound {Q : CLambda → Bool} {Qp : CLambda → Prop} (hQ : ∀ cl, Q cl = true → Qp cl) {c : CCell}
    (hs : ∀ v, c = .val v → symOf v = none) (h : newCellB Q c = true) : NewCellOk Qp c := by
  cases c with
  | val v =>
    have hsv : symOf v = none := hs v rfl
    by_cases hp : ∃ a d, v = .pair a d
    · obtain ⟨a, d, rfl⟩ := hp
      exact .pair a d
    · refine .atom ?_ hsv
      rw [← addrFreeB_eq]
      cases v <;>
        first
        | exact absurd ⟨_, _, rfl⟩ hp
        | (simp only [newCellB, Bool.and_eq_true] at h; exact h.1)
  | lexEnv ss => cases h
  | vector es => exact .vector es
  | lambda cl => exact .lambda (hQ cl h)
  | cont k => cases h

theorem cellStepB_sound {Q : CHeap → CLambda → Bool} {Qp : CHeap → CLambda → Prop}
    (hQ : ∀ h cl, Q h cl = true → Qp h cl) {h : CHeap}
    {c : CCell} (hs : ∀ v, c = .val v → symOf v = none) (hb : cellStepB Q h c = true) :
    InstStep Qp h (cput h c).1 := by
  unfold cellStepB at hb
  simp only [Bool.and_eq_true] at hb
  exact .cell (newCellB_sound (hQ h) hs hb.1.1.1) (crefsOkB_sound hb.1.1.2) hb.1.2 hb.2

theorem replay_sound {Q : CHeap → CLambda → Bool} {Qp : CHeap → CLambda → Prop}
    (hQ : ∀ h cl, Q h cl = true → Qp h cl) (after : CHeap) :
    ∀ (k : Nat) (h h' : CHeap), replay Q after k h = some h' → InstSteps Qp h h' := by
  intro k
  induction k with
  | zero =>
    intro h h' he
    have : some h = some h' := he
    cases this
    exact .refl _
  | succ k ih =>
    intro h h' he
    unfold replay at he
    cases hc : after.cells[(calloc h).2]? with
    | none => rw [hc] at he; cases he
    | some c =>
      rw [hc] at he
      have other : (∀ v, c = .val v → symOf v = none) →
          (if cellStepB Q h c then replay Q after k (cput h c).1 else none) = some h' → InstSteps Qp h h' := by
        intro hs he
        split at he
        · rename_i hb
          exact .step (cellStepB_sound hQ hs hb) (ih _ _ he)
        · cases he
      cases c with
      | val v =>
        simp only at he
        cases hsv : symOf v with
        | some name =>
          rw [hsv] at he
          simp only at he
          split at he
          · rename_i hl
            exact .step (.sym hsv (Option.isNone_iff_eq_none.mp hl)) (ih _ _ he)
          · cases he
        | none =>
          rw [hsv] at he
          exact other (fun w hw => by cases hw; exact hsv) he
      | lexEnv ss => exact other (fun w hw => by cases hw) he
      | vector es => exact other (fun w hw => by cases hw) he
      | lambda cl => exact other (fun w hw => by cases hw) he
      | cont kk => exact other (fun w hw => by cases hw) he

theorem globReplay_sound {Qp : CHeap → CLambda → Prop} :
    ∀ (ys : List Nat) (h h' : CHeap), globReplay ys h = some h' → InstSteps Qp h h'
  | [], h, h', he => by
    have : some h = some h' := he
    cases this
    exact .refl _
  | y :: ys, h, h', he => by
    unfold globReplay at he
    split at he
    · rename_i hb
      exact .step (.glob ((nonFreeB_iff h y).mp hb)) (globReplay_sound ys _ _ he)
    · cases he

theorem symLookup_none_of_not_mem {h : CHeap} {name : Text} (hn : name ∉ tabNames h.symtab) :
    symLookup h name = none := by
  unfold symLookup
  rw [Option.map_eq_none_iff, List.find?_eq_none]
  intro x hx hxn
  apply hn
  unfold tabNames
  exact List.mem_map.mpr ⟨x, hx, of_decide_eq_true hxn⟩

theorem resymB_sound {Qp : CHeap → CLambda → Prop} {h after : CHeap} (hb : resymB h after = true) :
    InstStep Qp h after := by
  unfold resymB at hb
  simp only [Bool.and_eq_true, decide_eq_true_eq, List.all_eq_true] at hb
  obtain ⟨⟨⟨⟨⟨⟨⟨h1, h2⟩, h3⟩, h4⟩, h5⟩, h6⟩, h7⟩, h8⟩ := hb
  have e : { h with symtab := after.symtab, globSyms := after.globSyms } = after := by
    cases h; cases after
    simp only at h1 h2 h3 h4 h5
    subst h1 h2 h3 h4 h5
    rfl
  have look : ∀ name, symLookup { h with symtab := after.symtab } name = symLookup h name := by
    intro name
    show symLookup after name = symLookup h name
    by_cases hm : name ∈ tabNames h.symtab ++ tabNames after.symtab
    · exact h6 name hm
    · rw [List.mem_append, not_or] at hm
      rw [symLookup_none_of_not_mem hm.1, symLookup_none_of_not_mem hm.2]
  have keys : ∀ y, y ∈ after.globSyms ↔ y ∈ h.globSyms := by
    intro y
    constructor
    · intro hy
      exact List.contains_iff_mem.mp (h7 y hy)
    · intro hy
      exact List.contains_iff_mem.mp (h8 y hy)
  have := InstStep.resym (Q := Qp) look keys
  rwa [e] at this

theorem stepsB_sound {Q : CHeap → CLambda → Bool} {Qp : CHeap → CLambda → Prop}
    (hQ : ∀ h cl, Q h cl = true → Qp h cl) {h h' : CHeap}
    (hb : stepsB Q h h' = true) : InstSteps Qp h h' := by
  unfold stepsB at hb
  cases hr : replay Q h' (newCount h h') h with
  | none => rw [hr] at hb; cases hb
  | some h1 =>
    rw [hr] at hb
    cases hg : globReplay (newGlobs h h') h1 with
    | none =>
      have : (some h1).bind (globReplay (newGlobs h h')) = none := hg
      rw [this] at hb; cases hb
    | some h2 =>
      have : (some h1).bind (globReplay (newGlobs h h')) = some h2 := hg
      rw [this] at hb
      exact (replay_sound hQ h' _ _ _ hr).trans
        ((globReplay_sound _ _ _ hg).trans (InstSteps.one (resymB_sound hb)))

/-! ## `Installs`, `InstallsGarbage` -/

theorem regsEqB_sound {s s' : St CHeap} (h : regsEqB s s' = true) : s' = { s with heap := s'.heap } := by
  unfold regsEqB at h
  simp only [Bool.and_eq_true, decide_eq_true_eq] at h
  obtain ⟨⟨⟨⟨⟨h1, h2⟩, h3⟩, h4⟩, h5⟩, h6⟩ := h
  cases s; cases s'
  simp only at h1 h2 h3 h4 h5 h6
  subst h1 h2 h3 h4 h5 h6
  rfl

theorem entryB_sound {ent : LambdaM} {after : CHeap} {entry : Nat} (h : entryB ent after entry = true) :
    ∃ cl, after.cells[entry]? = some (CCell.lambda cl) ∧ LoadedLam ent cl := by
  unfold entryB at h
  split at h
  · rename_i cl hc
    exact ⟨cl, hc, loadedB_sound h⟩
  · cases h

theorem installsB_sound {e : Datum} {fuel : Nat} {s s' : St CHeap} {entry : Nat}
    (hb : installsB e fuel s s' entry = true) : Installs e fuel s s' entry := by
  unfold installsB at hb
  rw [Bool.and_eq_true] at hb
  obtain ⟨hr, hb⟩ := hb
  cases hc : compileRunnable e fuel with
  | error err => rw [hc] at hb; cases hb
  | ok r =>
    obtain ⟨st, lam, ent⟩ := r
    rw [hc] at hb
    simp only [Bool.and_eq_true, Bool.not_eq_true'] at hb
    obtain ⟨⟨⟨h1, h2⟩, h3⟩, h4⟩ := hb
    obtain ⟨cl, hcl, hl⟩ := entryB_sound h2
    refine ⟨regsEqB_sound hr, stepsB_sound (fun _ cl h => loadedQB_sound hc h) h1, ⟨st, lam, ent, cl, hc, hcl, hl⟩,
      (nonFreeB_iff _ _).mp h3, ?_⟩
    intro hn
    rw [(nonFreeB_iff _ _).mpr hn] at h4
    cases h4

theorem garbageB_sound {s s' : St CHeap} (hb : garbageB s s' = true) : InstallsGarbage s s' := by
  unfold garbageB at hb
  rw [Bool.and_eq_true] at hb
  exact ⟨regsEqB_sound hb.1, stepsB_sound (fun _ cl h => codeOkHB_sound h) hb.2⟩

end Marwood.Lemmas.Good
