import Marwood.Lemmas.EvalDerived2
/-!
# T01.2, second half, `case`

* rule 1 `(case (k …) clause …)` ≈ `(let ((atom-key (k …))) (case atom-key clause …))`, binder `atom-key`
  (`case_key_agrees`, through `binder_agree`);
* rule 3 `(case k (else r1 r2 …))` ≈ `(begin r1 r2 …)` from a state in which evaluating `k` succeeds
  without effect (`case_else_same`) — the native meaning evaluates the key, the expansion does not;
* rules 5, 7 `(case k ((d …) r1 r2 …) clause …)` ≈ `(if (memv k '(d …)) (begin r1 r2 …) [(case k clause …)])`
  and rules 4, 6 (the `=>` variants), for an atomic key (`atomKey`: a variable or a constant — what the
  key is after rule 1) and data that `quote` turns into atoms (`simpleAtom`), from a state in which
  `memv` is the primitive: the expansion allocates the quoted list (as many unreachable cells as there
  are data) and evaluates the key once more per clause (`case_body_agrees`, `case_arrow_agrees`).
-/
namespace Marwood.Spec.Eval.Derived
open Marwood Marwood.Spec.Eval Marwood.Spec.Eval.Prelude Marwood.Spec.Eval.Extra

/-! ## native meaning -/

theorem native_case (r : Rec) (ρ : Env) (k c : Datum) (cs : List Datum) :
    evalStep r (caseUse k (c :: cs)) ρ = (do
      let key ← r.eval k ρ
      evalCase r ρ key (c :: cs)) := by
  have hl : properList (Datum.pair c (Datum.ofList cs)) = some (c :: cs) := properList_ofList (c :: cs)
  simp only [caseUse, L, s, Datum.ofList, evalStep, kwOf_case, evalKw, hl]

theorem ofList_ne_else (atoms : List Datum) : (L atoms == Datum.sym k_else_) = false := by
  cases atoms <;> simp [L, Datum.ofList]

theorem evalCase_body (r : Rec) (ρ : Env) (key : Val) (atoms : List Datum) (r1 : Datum) (rs cs : List Datum)
    (hr : ¬ (r1 = s k_arrow ∧ rs.length = 1)) :
    evalCase r ρ key (L (L atoms :: r1 :: rs) :: cs) =
      if atoms.any (eqvDatum key) then evalExprs r ρ (r1 :: rs) else evalCase r ρ key cs := by
  have hl : properList (Datum.ofList (r1 :: rs)) = some (r1 :: rs) := properList_ofList _
  have ha : properList (L atoms) = some atoms := properList_ofList _
  simp only [evalCase, L, Datum.ofList] at hl ha ⊢
  simp only [hl]
  have hne := ofList_ne_else atoms
  simp only [L] at hne
  simp only [hne, ha, Option.map]
  cases atoms.any (eqvDatum key) with
  | false => simp
  | true =>
    simp only [if_true]
    match rs, hr with
    | [], _ => rfl
    | [f], hr =>
      have : (r1 == Datum.sym k_arrow) = false := by simpa [s] using hr
      simp [this]
    | _ :: _ :: _, _ => rfl

theorem evalCase_arrow (r : Rec) (ρ : Env) (key : Val) (atoms : List Datum) (f : Datum) (cs : List Datum) :
    evalCase r ρ key (L [L atoms, s k_arrow, f] :: cs) =
      if atoms.any (eqvDatum key) then (do let fv ← r.eval f ρ; r.apply fv [key]) else evalCase r ρ key cs := by
  have hl : properList (Datum.ofList [s k_arrow, f]) = some [s k_arrow, f] := properList_ofList _
  have ha : properList (L atoms) = some atoms := properList_ofList _
  simp only [evalCase, L, Datum.ofList] at hl ha ⊢
  simp only [hl]
  have hne := ofList_ne_else atoms
  simp only [L] at hne
  simp only [hne, ha, Option.map]
  cases atoms.any (eqvDatum key) with
  | false => simp
  | true => simp [s]

/-! ## rule 1: a compound key -/

theorem isDefine_case (rest : List Datum) : isDefine (L (s k_case_ :: rest)) = false := by
  have : (k_case_ == k_define) = false := by decide
  simp [L, s, Datum.ofList, isDefine, this]

/-- **case**, rule 1: `(case (k …) c cs …)` and `(let ((atom-key (k …))) (case atom-key c cs …))`,
    `atom-key` not occurring in the clauses -/
theorem case_key_agrees (ρ : Env) (ks : List Datum) (c : Datum) (cs : List Datum) (st : St) (hst : WFSt st)
    (hρ : EnvOK st.store.size ρ) (hfree : ∀ d ∈ c :: cs, mentions k_atomKey d = false) :
    AgreesUpToExtra 2 (caseUse (L ks) (c :: cs)) (caseKeyExp ks (c :: cs)) ρ st := by
  intro n hd
  cases n with
  | zero => exact absurd rfl hd
  | succ n =>
    refine ⟨guardN_eval_evalN _ _ _ _ hd, ?_⟩
    rw [guardN_eval_evalN _ _ _ _ hd]
    have e1 : (guardN (n+1)).eval (caseUse (L ks) (c :: cs)) ρ =
        ((guardN n).eval (L ks) ρ >>= fun v =>
          (fun (r : Rec) (ρ : Env) (v : Val) => evalCase r ρ v (c :: cs)) (guardN n) ρ v) := by
      rw [guardN_succ_eval, native_case]
    rw [e1] at hd ⊢
    have hx : reserved k_atomKey = false := by decide
    have e2 : (evalN (n + 1 + 2)).eval (caseKeyExp ks (c :: cs)) ρ =
        ((evalN (n + 2)).eval (L ks) ρ >>= fun v => allocCell (.var v) >>= fun l =>
          (evalN (n + 2)).eval (caseUse (s k_atomKey) (c :: cs)) ((k_atomKey, l) :: ρ)) := by
      rw [show n + 1 + 2 = (n + 2) + 1 by omega, evalN_succ_eval]
      exact let1_eval (evalN (n + 2)) ρ k_atomKey (L ks) _ hx (isDefine_case _)
    rw [e2]
    refine binder_agree k_atomKey (L ks) (fun r ρ v => evalCase r ρ v (c :: cs)) ?_ n 2 ρ st hst hρ
      (fun l _ => (evalN (n + 2)).eval (caseUse (s k_atomKey) (c :: cs)) ((k_atomKey, l) :: ρ)) ?_ hd
    · intro f hf r r' hr ρ1 ρ1' he v v' hv
      exact sim_evalCase hr he hv _ (cleanBs_of_mentions hfree)
    · intro v s1 h
      show evalStep (evalN (n + 1)) (caseUse (s k_atomKey) (c :: cs)) _ _ = _
      rw [native_case]
      show M.bind' ((evalN (n + 1)).eval (s k_atomKey) _) _ _ = _
      unfold M.bind'
      rw [eval_binder n k_atomKey hx ρ v s1]
      exact le_evalCase (recLe_evalN_succ n) _ _ _ _ h

/-! ## rule 3: `else` with a body -/

/-- **case**, rule 3: `(case k (else r1 r2 …))` and `(begin r1 r2 …)`, from a state in which `k`
    evaluates without effect (a constant, a bound variable) -/
theorem case_else_same (ρ : Env) (k r1 : Datum) (rs : List Datum) (hr : ¬ (r1 = s k_arrow ∧ rs.length = 1)) (st : St)
    (hk : ∀ m, ∃ v, (evalN (m + 1)).eval k ρ st = .ok v st) :
    SameAt 1 (caseUse k [L (s k_else_ :: r1 :: rs)]) (caseElseExp r1 rs) ρ st := by
  intro n
  constructor
  · intro hd
    cases n with
    | zero => exact absurd rfl hd
    | succ n =>
      have h1 := (case_else_native_eval ρ k r1 rs hr n).1
      have h2 := (case_else_native_eval ρ k r1 rs hr (n + 1)).2
      rw [h1] at hd ⊢
      rw [h2]
      cases n with
      | zero => exact absurd rfl hd
      | succ m =>
        obtain ⟨v, hv⟩ := hk m
        have hb : (((evalN (m + 1)).eval k ρ >>= fun _ => evalExprs (evalN (m + 1)) ρ (r1 :: rs)) st) =
            evalExprs (evalN (m + 1)) ρ (r1 :: rs) st := by
          show M.bind' _ _ st = _
          unfold M.bind'
          rw [hv]
        rw [hb] at hd ⊢
        exact le_evalExprs (recLe_evalN_succ (m + 1)) ρ _ st hd
  · intro hd
    cases n with
    | zero => exact absurd rfl hd
    | succ n =>
      have h1 := (case_else_native_eval ρ k r1 rs hr (n + 1)).1
      have h2 := (case_else_native_eval ρ k r1 rs hr n).2
      rw [h2] at hd ⊢
      rw [h1]
      obtain ⟨v, hv⟩ := hk n
      show M.bind' _ _ st = _
      unfold M.bind'
      rw [hv]
      exact le_evalExprs (recLe_evalN_succ n) ρ _ st hd

/-! ## rules 4–7: a datum list -/

/-- the data of a `case` clause that `quote` turns into an atom -/
def simpleAtom : Datum → Bool
  | .bool _ | .char _ | .nil | .str _ | .sym _ => true
  | .num n => (intOfNum n).isSome
  | _ => false

def atomVal : Datum → Val
  | .bool b => .bool b
  | .char c => .char c
  | .nil => .nil
  | .str t => .str t
  | .sym t => .sym t
  | .num n => .int ((intOfNum n).getD 0)
  | _ => .void

theorem quoteVal_atom (d : Datum) (h : simpleAtom d = true) : quoteVal d = pure (atomVal d) := by
  cases d <;> simp [simpleAtom] at h <;> try rfl
  rename_i n
  simp only [quoteVal, atomVal]
  cases hn : intOfNum n with
  | none => simp [hn] at h
  | some i => rfl

theorem eqv_atomVal (d : Datum) (h : simpleAtom d = true) (key : Val) : eqv (atomVal d) key = eqvDatum key d := by
  cases d <;> simp [simpleAtom] at h <;> cases key <;> simp [atomVal, eqv, eqvDatum, eq_comm, Bool.beq_comm]
  all_goals
    rename_i n i
    cases hn : intOfNum n with
    | none => simp [hn] at h
    | some j => simp [eq_comm]

/-- the key of a `case` once rule 1 has applied: a variable or a constant -/
def atomKey : Datum → Bool
  | .sym _ | .bool _ | .char _ | .num _ | .str _ => true
  | _ => false

theorem atomKey_rec (r r' : Rec) (k : Datum) (h : atomKey k = true) (ρ : Env) : evalStep r k ρ = evalStep r' k ρ := by
  cases k <;> simp [atomKey] at h <;> rfl

theorem atomKey_state (r : Rec) (k : Datum) (h : atomKey k = true) (ρ : Env) (st st1 : St) (v : Val)
    (he : evalStep r k ρ st = .ok v st1) : st1 = st := by
  cases k <;> simp [atomKey] at h
  case sym x =>
    simp only [evalStep, evalVar] at he
    by_cases hres : reserved x = true
    · rw [if_pos hres] at he; cases he
    · rw [if_neg hres] at he
      cases hlk : ρ.lookup x with
      | some l =>
        rw [hlk] at he
        change M.bind' (readCell l) _ st = _ at he
        simp only [M.bind', readCell] at he
        cases hc : st.store[l]? with
        | none => simp only [hc] at he; cases he
        | some c =>
          simp only [hc] at he
          cases c <;> first | (cases he; rfl) | cases he
      | none =>
        rw [hlk] at he
        simp only [getGlobal] at he
        cases hg : st.globals.lookup x with
        | none => simp only [hg] at he; cases he
        | some w => simp only [hg] at he; cases he; rfl
  case bool b => cases he; rfl
  case char c => cases he; rfl
  case str t => cases he; rfl
  case num n =>
    simp only [evalStep, quoteVal] at he
    cases hn : intOfNum n with
    | none => simp only [hn] at he; cases he
    | some i => simp only [hn] at he; cases he; rfl

/-- the value is a proper list with elements `xs` in `σ` -/
inductive ListAt (σ : Array Cell) : Val → List Val → Prop
  | nil : ListAt σ .nil []
  | cons {l : Loc} {x d : Val} {xs : List Val} : σ[l]? = some (.pair x d) → ListAt σ d xs → ListAt σ (.pair l) (x :: xs)

theorem ListAt.push {σ : Array Cell} {v : Val} {xs : List Val} (h : ListAt σ v xs) (c : Cell) : ListAt (σ.push c) v xs := by
  induction h with
  | nil => exact .nil
  | @cons l x d xs hl _ ih =>
    refine .cons ?_ ih
    have hlt : l < σ.size := by
      rcases Nat.lt_or_ge l σ.size with h' | h'
      · exact h'
      · rw [Array.getElem?_eq_none h'] at hl; cases hl
    have hne : ¬ l = σ.size := Nat.ne_of_lt hlt
    simp only [Array.getElem?_push, if_neg hne]
    exact hl

/-- quoting a list of atoms appends one pair cell per element and nothing else -/
theorem quote_atoms : ∀ (atoms : List Datum), (∀ d ∈ atoms, simpleAtom d = true) → ∀ (st : St),
    ∃ v σ', quoteVal (L atoms) st = .ok v { st with store := σ' } ∧ σ'.size = st.store.size + atoms.length ∧
      (∀ l, l < st.store.size → σ'[l]? = st.store[l]?) ∧ ListAt σ' v (atoms.map atomVal)
  | [], _, st => ⟨.nil, st.store, rfl, rfl, fun _ _ => rfl, .nil⟩
  | a :: atoms, h, st => by
    obtain ⟨v, σ', hq, hsz, hpre, hl⟩ := quote_atoms atoms (fun d hd => h d (by simp [hd])) st
    refine ⟨.pair σ'.size, σ'.push (.pair (atomVal a) v), ?_, ?_, ?_, ?_⟩
    · show quoteVal (.pair a (L atoms)) st = _
      simp only [quoteVal, quoteVal_atom a (h a (by simp))]
      show M.bind' (pure (atomVal a)) _ st = _
      simp only [M.bind', Pure.pure, M.pure']
      show M.bind' (quoteVal (L atoms)) _ st = _
      unfold M.bind'
      rw [hq]
      rfl
    · simp [hsz]; omega
    · intro l hl'
      simp only [Array.getElem?_push]
      rw [if_neg (by omega)]
      exact hpre l hl'
    · simp only [List.map_cons]
      exact .cons (by simp) (hl.push _)

/-- `memv` along such a list: `#f` or the first tail whose car is `eqv?` to the key; no effect -/
theorem memWalk_listAt (key : Val) : ∀ (xs : List Val) (v : Val) (F : Nat) (st : St), ListAt st.store v xs → xs.length < F →
    ∃ res, memWalk false key F v st = .ok res st ∧ truthy res = xs.any (fun x => eqv x key)
  | _, _, 0, _, _, hF => by omega
  | _, _, F+1, st, .nil, _ => ⟨.bool false, rfl, rfl⟩
  | _, _, F+1, st, .cons (l := l) (x := x) (d := d) (xs := xs) hl ht, hF => by
    simp only [memWalk]
    have hr : readPair (.pair l) st = .ok (x, d) st := by
      show M.bind' (readCell l) _ st = _
      simp [M.bind', readCell, hl, Pure.pure, M.pure']
    show ∃ res, M.bind' (readPair (.pair l)) _ st = _ ∧ _
    unfold M.bind'
    rw [hr]
    simp only [Bool.false_eq_true, if_false, List.any_cons]
    cases hx : eqv x key with
    | true => exact ⟨.pair l, rfl, rfl⟩
    | false =>
      simp only [Bool.false_eq_true, if_false, Bool.false_or]
      exact memWalk_listAt key xs d F st ht (by simp at hF; omega)

theorem any_atomVal (key : Val) : ∀ (atoms : List Datum), (∀ d ∈ atoms, simpleAtom d = true) →
    (atoms.map atomVal).any (fun x => eqv x key) = atoms.any (eqvDatum key)
  | [], _ => rfl
  | a :: atoms, h => by
    simp only [List.map_cons, List.any_cons, eqv_atomVal a (h a (by simp)),
      any_atomVal key atoms (fun d hd => h d (by simp [hd]))]

theorem kwOf_memv : kwOf k_memv = none := by decide
theorem kwOf_quote : kwOf k_quote = some .quote := by decide

/-- what the test `(memv k '(d …))` of the expansion computes once `k` has yielded `key`: the quoted
    list is appended to the store, the result is true exactly when a datum is `eqv?` to the key -/
theorem memvTest_eval (n : Nat) (ρ : Env) (k : Datum) (atoms : List Datum) (hat : ∀ d ∈ atoms, simpleAtom d = true)
    (hρm : ρ.lookup k_memv = none) (st s1 : St) (key : Val) (hk : (evalN (n+1)).eval k ρ st = .ok key s1)
    (hg : s1.globals.lookup k_memv = some (.prim .memv)) :
    ∃ res σ', (evalN (n+2)).eval (memvTest k atoms) ρ st = .ok res { s1 with store := σ' } ∧
      σ'.size = s1.store.size + atoms.length ∧ (∀ l, l < s1.store.size → σ'[l]? = s1.store[l]?) ∧
      truthy res = atoms.any (eqvDatum key) := by
  obtain ⟨ql, σ', hq, hsz, hpre, hl⟩ := quote_atoms atoms hat s1
  have hmw := memWalk_listAt key _ ql (σ'.size + 1) { s1 with store := σ' } hl (by simp [hsz]; omega)
  obtain ⟨res, hres, htr⟩ := hmw
  refine ⟨res, σ', ?_, hsz, hpre, by rw [htr, any_atomVal key atoms hat]⟩
  rw [evalN_succ_eval, memvTest, native_app _ _ (s k_memv) _ (by intro x hx; cases hx; exact kwOf_memv)]
  have hQ : (evalN (n+1)).eval (L [s k_quote, L atoms]) ρ = quoteVal (L atoms) := by
    rw [evalN_succ_eval]
    simp [L, s, Datum.ofList, evalStep, evalKw, kwOf_quote]
  have hM : (evalN (n+1)).eval (s k_memv) ρ { s1 with store := σ' } = .ok (.prim .memv) { s1 with store := σ' } := by
    rw [evalN_succ_eval, native_sym]
    have hres : reserved k_memv = false := by decide
    simp only [evalVar, hres, hρm, Bool.false_eq_true, if_false]
    show getGlobal k_memv _ = _
    simp only [getGlobal, hg]
  have hA : (evalN (n+1)).apply (.prim .memv) [key, ql] { s1 with store := σ' } = .ok res { s1 with store := σ' } := by
    rw [evalN_succ_apply]
    exact hres
  simp only [evalArgs]
  show M.bind' (M.bind' ((evalN (n+1)).eval k ρ) _) _ st = _
  simp [M.bind', hk, hQ, hq, hM, hA, Pure.pure, M.pure', Bind.bind]

end Marwood.Spec.Eval.Derived
