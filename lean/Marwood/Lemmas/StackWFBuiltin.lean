import Marwood.Lemmas.StackWFLaws
/-!
# The stack effect of the builtins that re-dispatch (`apply`, `eval`, `call/cc`), of the generic
builtins, and of continuation invocation — inversion lemmas
-/
namespace Marwood.Vm
open Verify Stack

variable {H : Type} {ops : HeapOps H}

/-- the result of a re-dispatching builtin on a stack whose top is `argc m` over `m` cells: the
    block is replaced by another argument block, nothing below it changes, `ip` is back on the
    CALL/TCALL -/
structure Redisp (s s' : St H) (m : Nat) : Prop where
  cap : s'.stack.sp < s'.stack.cells.length
  blk : ∃ m', s'.stack.cellAt s'.stack.sp = .argc m' ∧ m' + 1 ≤ s'.stack.sp ∧
    s'.stack.sp - 1 - m' = s.stack.sp - 1 - m
  below : ∀ i, i ≤ s.stack.sp - 1 - m → s'.stack.cellAt i = s.stack.cellAt i
  bp : s'.bp = s.bp
  ipL : s'.ipL = s.ipL
  ipO : s'.ipO + 1 = s.ipO

theorem ite_err_inv {α : Type} {c : Prop} [Decidable c] {e : Err} {x : Outcome α} {r : α}
    (h : (if c then Outcome.err e else x) = .ok r) : x = .ok r := by
  split at h
  · cases h
  · exact h

theorem shift_ok : ∀ (k : Nat) (st st' : Stack), builtinApply.shift k st = .ok st' →
    st'.sp = st.sp ∧ st'.cells.length = st.cells.length ∧
      ∀ i, i + k < st.sp → st'.cellAt i = st.cellAt i := by
  intro k
  induction k with
  | zero => intro st st' h; simp only [builtinApply.shift] at h; cases h; exact ⟨rfl, rfl, fun _ _ => rfl⟩
  | succ k ih =>
    intro st st' h
    simp only [builtinApply.shift] at h
    obtain ⟨v, hg, h⟩ := bind_inv h
    obtain ⟨st1, hset, h⟩ := bind_inv h
    have e : (-(k : Int) - 1) = -((k + 1 : Nat) : Int) := by omega
    rw [e] at hset
    obtain ⟨s1, s2, s3⟩ := setOffset_ok hset
    obtain ⟨r1, r2, r3⟩ := ih st1 st' h
    subst s3
    simp only at r1 r2 r3
    refine ⟨r1, by rw [r2]; simp, ?_⟩
    intro i hi
    rw [r3 i (by omega), at_set_cells _ _ _ _ s2]
    have : ¬ i = st.sp - (k + 1) := by omega
    simp [this]

theorem pushList_ok {s : St H} : ∀ (fuel : Nat) (rest : VCell) (n : Nat) (st : Stack) (n' : Nat) (st' : Stack),
    builtinApply.pushList ops s fuel rest n st = .ok (n', st') → st.sp < st.cells.length →
    n ≤ n' ∧ st'.sp = st.sp + (n' - n) ∧ st'.sp < st'.cells.length ∧
      ∀ i, i ≤ st.sp → st'.cellAt i = st.cellAt i := by
  intro fuel
  induction fuel with
  | zero => intro rest n st n' st' h; simp only [builtinApply.pushList] at h; cases h
  | succ fuel ih =>
    intro rest n st n' st' h hcap
    simp only [builtinApply.pushList] at h
    split at h
    · rename_i car cdr
      obtain ⟨r1, r2, r3, r4⟩ := ih _ _ _ _ _ h (push_sp_lt _ _)
      simp only [push_sp] at r2 r4
      refine ⟨by omega, by omega, r3, ?_⟩
      intro i hi
      rw [r4 i (by omega), push_cellAt]
      have : ¬ i = st.sp + 1 := by omega
      simp [this]
    · cases h
      exact ⟨Nat.le_refl _, by simp, hcap, fun _ _ => rfl⟩
    · cases h

theorem builtinApply_ok {s s' : St H} {proc : VCell} {m : Nat} (h : builtinApply ops s = .ok (s', proc))
    (hcap : s.stack.sp < s.stack.cells.length) (hA : s.stack.cellAt s.stack.sp = .argc m)
    (hm : m + 1 ≤ s.stack.sp) : Redisp s s' m ∧ s'.heap = s.heap := by
  unfold builtinApply at h
  obtain ⟨⟨a, st1⟩, hp1, h⟩ := bind_inv h
  simp only at h
  obtain ⟨argc, ha, h⟩ := bind_inv h
  have p1 := pop_ok hp1
  have ea := asArgc_ok ha
  rw [p1.2.2, hA] at ea
  cases ea
  split at h
  · cases h
  · rename_i hm2
    obtain ⟨⟨top, st2⟩, hp2, h⟩ := bind_inv h
    simp only at h
    have p2 := pop_ok hp2
    replace h := ite_err_inv h
    · obtain ⟨proc', hg, h⟩ := bind_inv h
      obtain ⟨st3, hsh, h⟩ := bind_inv h
      obtain ⟨⟨x, st4⟩, hp4, h⟩ := bind_inv h
      simp only at h
      obtain ⟨⟨n', st5⟩, hpl, h⟩ := bind_inv h
      simp only at h
      obtain ⟨ipO, hu, h⟩ := bind_inv h
      cases h
      obtain ⟨u1, u2⟩ := usub_ok hu
      obtain ⟨q1, q2, q3⟩ := shift_ok _ _ _ hsh
      have p4 := pop_ok hp4
      have hcap4 : st4.sp < st4.cells.length := by
        rw [p4.2.1, q2, p2.2.1, p1.2.1]; omega
      obtain ⟨w1, w2, w3, w4⟩ := pushList_ok _ _ _ _ _ _ hpl hcap4
      have hc4 : ∀ i, st4.cellAt i = st3.cellAt i := by intro i; unfold Stack.cellAt; rw [p4.2.1]
      have hc2 : ∀ i, st2.cellAt i = s.stack.cellAt i := by
        intro i; unfold Stack.cellAt; rw [p2.2.1, p1.2.1]
      refine ⟨⟨push_sp_lt _ _, ⟨n', ?_, ?_, ?_⟩, ?_, rfl, rfl, ?_⟩, rfl⟩
      · simp [push_cellAt]
      · simp only [push_sp]; omega
      · simp only [push_sp]; omega
      · intro i hi
        show (st5.push (VCell.argc n')).cellAt i = _
        rw [push_cellAt]
        have n1 : ¬ i = st5.sp + 1 := by omega
        simp only [n1, if_false]
        rw [w4 i (by omega), hc4, q3 i (by omega), hc2]
      · show ipO + 1 = s.ipO
        omega

theorem builtinEvalProc_ok {cl : CodeLaws ops} {s s' : St H} {lam : VCell} {m : Nat}
    (hi : cl.HInv s.heap) (h : builtinEvalProc ops s = .ok (s', lam))
    (hcap : s.stack.sp < s.stack.cells.length) (hA : s.stack.cellAt s.stack.sp = .argc m)
    (hm : m + 1 ≤ s.stack.sp) : Redisp s s' m ∧ Ext cl s.heap s'.heap := by
  unfold builtinEvalProc at h
  obtain ⟨⟨a, st1⟩, hp1, h⟩ := bind_inv h
  simp only at h
  obtain ⟨argc, ha, h⟩ := bind_inv h
  have p1 := pop_ok hp1
  have ea := asArgc_ok ha
  rw [p1.2.2, hA] at ea
  cases ea
  split at h
  · cases h
  · rename_i hm1
    have hm1' : m = 1 := by simpa using hm1
    subst hm1'
    obtain ⟨⟨e, st2⟩, hp2, h⟩ := bind_inv h
    simp only at h
    have p2 := pop_ok hp2
    obtain ⟨⟨h', l⟩, hce, h⟩ := bind_inv h
    simp only at h
    obtain ⟨ipO, hu, h⟩ := bind_inv h
    cases h
    obtain ⟨u1, u2⟩ := usub_ok hu
    have hc2 : ∀ i, st2.cellAt i = s.stack.cellAt i := by
      intro i; unfold Stack.cellAt; rw [p2.2.1, p1.2.1]
    refine ⟨⟨push_sp_lt _ _, ⟨0, ?_, ?_, ?_⟩, ?_, rfl, rfl, ?_⟩, Ext.step hi (.compileEval hce)⟩
    · simp [push_cellAt]
    · simp only [push_sp]; omega
    · simp only [push_sp]; omega
    · intro i hi'
      show (st2.push (VCell.argc 0)).cellAt i = _
      rw [push_cellAt]
      have n1 : ¬ i = st2.sp + 1 := by omega
      simp only [n1, if_false]
      exact hc2 i
    · show ipO + 1 = s.ipO
      omega

theorem capture_ok {st c : Stack} (h : st.capture = .ok c) :
    c.sp = st.sp ∧ c.sp < c.cells.length ∧ ∀ i, i ≤ st.sp → c.cellAt i = st.cellAt i := by
  unfold Stack.capture at h
  split at h
  · rename_i hl
    cases h
    refine ⟨rfl, by simp; omega, ?_⟩
    intro i hi
    unfold Stack.cellAt
    simp only [List.getElem?_take]
    have : i < st.sp + 1 := by omega
    simp [this]
  · cases h

/-- `call/cc`: the continuation object holds the stack below the two operands and `ip` after the call -/
theorem builtinCallcc_ok {s s' : St H} {proc : VCell} {m : Nat} (h : builtinCallcc ops s = .ok (s', proc))
    (hcap : s.stack.sp < s.stack.cells.length) (hA : s.stack.cellAt s.stack.sp = .argc m)
    (hm : m + 1 ≤ s.stack.sp) :
    m = 1 ∧ ∃ cst : Stack, cst.sp + 2 = s.stack.sp ∧ cst.sp < cst.cells.length ∧
      (∀ i, i + 2 ≤ s.stack.sp → cst.cellAt i = s.stack.cellAt i) ∧
      s'.heap = (ops.newCont s.heap ⟨cst, s.ep, s.ipL, s.ipO, s.bp⟩).1 ∧ Redisp s s' m := by
  unfold builtinCallcc at h
  obtain ⟨⟨a, st1⟩, hp1, h⟩ := bind_inv h
  simp only at h
  obtain ⟨argc, ha, h⟩ := bind_inv h
  have p1 := pop_ok hp1
  have ea := asArgc_ok ha
  rw [p1.2.2, hA] at ea
  cases ea
  split at h
  · cases h
  · rename_i hm1
    have hm1' : m = 1 := by simpa using hm1
    subst hm1'
    obtain ⟨⟨pr, st2⟩, hp2, h⟩ := bind_inv h
    simp only at h
    have p2 := pop_ok hp2
    split at h
    · cases h
    · obtain ⟨cst, hcp, h⟩ := bind_inv h
      obtain ⟨ipO, hu, h⟩ := bind_inv h
      cases h
      obtain ⟨u1, u2⟩ := usub_ok hu
      obtain ⟨k1, k2, k3⟩ := capture_ok hcp
      have hc2 : ∀ i, st2.cellAt i = s.stack.cellAt i := by
        intro i; unfold Stack.cellAt; rw [p2.2.1, p1.2.1]
      refine ⟨rfl, cst, by omega, k2, ?_, rfl, ⟨push_sp_lt _ _, ⟨1, ?_, ?_, ?_⟩, ?_, rfl, rfl, ?_⟩⟩
      · intro i hi'
        rw [k3 i (by omega), hc2]
      · simp [push_cellAt]
      · simp only [push_sp]; omega
      · simp only [push_sp]; omega
      · intro i hi'
        show ((st2.push _).push (VCell.argc 1)).cellAt i = _
        rw [push_cellAt, push_cellAt, push_sp]
        have n1 : ¬ i = st2.sp + 1 + 1 := by omega
        have n2 : ¬ i = st2.sp + 1 := by omega
        simp only [n1, n2, if_false]
        exact hc2 i
      · show ipO + 1 = s.ipO
        omega

/-- a generic builtin pops the block and nothing else -/
theorem builtinGeneric_ok {cl : CodeLaws ops} {s s' : St H} {id : Nat} {v : VCell} {m : Nat}
    (hi : cl.HInv s.heap) (h : builtinGeneric ops id s = .ok (s', v))
    (hA : s.stack.cellAt s.stack.sp = .argc m) :
    s'.stack.sp + m + 1 = s.stack.sp ∧ s'.stack.cells = s.stack.cells ∧ s'.bp = s.bp ∧ s'.ipL = s.ipL ∧
      s'.ipO = s.ipO ∧ Ext cl s.heap s'.heap := by
  unfold builtinGeneric at h
  obtain ⟨⟨a, st1⟩, hp1, h⟩ := bind_inv h
  simp only at h
  obtain ⟨argc, ha, h⟩ := bind_inv h
  have p1 := pop_ok hp1
  have ea := asArgc_ok ha
  rw [p1.2.2, hA] at ea
  cases ea
  obtain ⟨⟨args, st2⟩, hpn, h⟩ := bind_inv h
  simp only at h
  obtain ⟨⟨h', r⟩, hbe, h⟩ := bind_inv h
  cases h
  have p2 := popN_ok hpn
  exact ⟨by show st2.sp + m + 1 = _; omega, by show st2.cells = _; rw [p2.2, p1.2.1], rfl, rfl, rfl,
    Ext.step hi (.builtinEval hbe)⟩

/-- the `acc` update after a builtin: stack and registers as the builtin left them -/
theorem runBuiltin_ok {cl : CodeLaws ops} {s s' : St H} {id : Nat} (h : runBuiltin ops id s = .ok s') :
    ∃ s2 v, (match ops.builtinKind s.heap id with
        | .apply => builtinApply ops s
        | .callcc => builtinCallcc ops s
        | .eval => builtinEvalProc ops s
        | .generic => builtinGeneric ops id s) = .ok (s2, v) ∧
      s'.stack = s2.stack ∧ s'.bp = s2.bp ∧ s'.ipL = s2.ipL ∧ s'.ipO = s2.ipO ∧
      (cl.HInv s2.heap → Ext cl s2.heap s'.heap) := by
  unfold runBuiltin at h
  dsimp only at h
  have key : ∀ (x : Outcome (St H × VCell)), (x >>= fun (p : St H × VCell) =>
      match p with
      | (s, v) =>
        match v with
        | VCell.ptr p => Outcome.ok { s with acc := VCell.ptr p }
        | v => match ops.maybePut s.heap v with
          | (h, r) => Outcome.ok { s with heap := h, acc := r }) = Outcome.ok s' →
      ∃ s2 v, x = .ok (s2, v) ∧ s'.stack = s2.stack ∧ s'.bp = s2.bp ∧ s'.ipL = s2.ipL ∧ s'.ipO = s2.ipO ∧
        (cl.HInv s2.heap → Ext cl s2.heap s'.heap) := by
    intro x hx
    obtain ⟨⟨s2, v⟩, hb, hx⟩ := bind_inv hx
    refine ⟨s2, v, hb, ?_⟩
    dsimp only at hx
    split at hx
    · cases hx; exact ⟨rfl, rfl, rfl, rfl, fun hi => Ext.refl hi⟩
    · cases hx; exact ⟨rfl, rfl, rfl, rfl, fun hi => Ext.step hi (.maybePut _ _)⟩
  cases hk : ops.builtinKind s.heap id <;> rw [hk] at h <;> dsimp only at h ⊢ <;> exact key _ h

/-- invoking a continuation restores its stack prefix and registers -/
theorem invokeCont_ok {s s' : St H} {c : Cont} (h : invokeCont s c = .ok s') :
    s'.stack.sp = c.stack.sp ∧ c.stack.cells.length ≤ s'.stack.cells.length ∧
      (∀ i, i < c.stack.cells.length → s'.stack.cellAt i = c.stack.cellAt i) ∧
      s'.bp = c.bp ∧ s'.ipL = c.ipL ∧ s'.ipO = c.ipO ∧ s'.heap = s.heap := by
  unfold invokeCont at h
  obtain ⟨⟨a, st1⟩, hp1, h⟩ := bind_inv h
  simp only at h
  obtain ⟨n, ha, h⟩ := bind_inv h
  split at h
  · cases h
  · obtain ⟨⟨r, st2⟩, hp2, h⟩ := bind_inv h
    simp only at h
    obtain ⟨s3, hrc, h⟩ := bind_inv h
    cases h
    unfold restoreCont at hrc
    obtain ⟨st3, hre, hrc⟩ := bind_inv hrc
    cases hrc
    unfold Stack.restore at hre
    split at hre
    · rename_i hl
      cases hre
      refine ⟨rfl, by simp, ?_, rfl, rfl, rfl, rfl⟩
      intro i hi
      unfold Stack.cellAt
      simp [List.getElem?_append_left hi]
    · cases hre

/-! ## provenance of the re-dispatched argument block (what its cells hold) -/

/-- `shift k` only moves cells of the `k + 1` topmost cells around -/
theorem shift_prov : ∀ (k : Nat) (st st' : Stack), builtinApply.shift k st = .ok st' →
    ∀ i, st.sp - k ≤ i → i ≤ st.sp → ∃ j, st.sp - k ≤ j ∧ j ≤ st.sp ∧ st'.cellAt i = st.cellAt j := by
  intro k
  induction k with
  | zero =>
    intro st st' h i h1 h2
    simp only [builtinApply.shift] at h; cases h
    exact ⟨i, h1, h2, rfl⟩
  | succ k ih =>
    intro st st' h i h1 h2
    simp only [builtinApply.shift] at h
    obtain ⟨v, hg, h⟩ := bind_inv h
    obtain ⟨st1, hset, h⟩ := bind_inv h
    have e : (-(k : Int) - 1) = -((k + 1 : Nat) : Int) := by omega
    rw [e] at hset
    obtain ⟨s1, s2, s3⟩ := setOffset_ok hset
    obtain ⟨g1, g2⟩ := getOffset_ok hg
    obtain ⟨r1, r2, r3⟩ := shift_ok _ _ _ h
    subst s3
    simp only at r1 r2 r3
    by_cases hi : i = st.sp - (k + 1)
    · refine ⟨st.sp - k, by omega, by omega, ?_⟩
      rw [r3 i (by omega), at_set_cells _ _ _ _ s2]
      simp only [hi, if_true]
      exact g2
    · obtain ⟨j, j1, j2, j3⟩ := ih _ _ h i (by simp only; omega) (by simp only; omega)
      simp only at j1 j2
      refine ⟨j, by omega, j2, ?_⟩
      rw [j3, at_set_cells _ _ _ _ s2]
      have : ¬ j = st.sp - (k + 1) := by omega
      simp [this]

/-- `pushList` pushes pointers -/
theorem pushList_prov {s : St H} : ∀ (fuel : Nat) (rest : VCell) (n : Nat) (st : Stack) (n' : Nat) (st' : Stack),
    builtinApply.pushList ops s fuel rest n st = .ok (n', st') → st.sp < st.cells.length →
    ∀ i, st.sp < i → i ≤ st'.sp → ∃ a, st'.cellAt i = .ptr a := by
  intro fuel
  induction fuel with
  | zero => intro rest n st n' st' h; simp only [builtinApply.pushList] at h; cases h
  | succ fuel ih =>
    intro rest n st n' st' h hcap i h1 h2
    simp only [builtinApply.pushList] at h
    split at h
    · rename_i car cdr
      obtain ⟨r1, r2, r3, r4⟩ := pushList_ok _ _ _ _ _ _ h (push_sp_lt _ _)
      simp only [push_sp] at r2 r4
      by_cases hi : i = st.sp + 1
      · refine ⟨car, ?_⟩
        rw [r4 i (by omega), push_cellAt]
        simp [hi]
      · exact ih _ _ _ _ _ h (push_sp_lt _ _) i (by simp only [push_sp]; omega) h2
    · cases h; omega
    · cases h

/-- `apply`: every cell of the new argument block is a cell of the old one, or a pointer -/
theorem builtinApply_prov {s s' : St H} {proc : VCell} {m : Nat} (h : builtinApply ops s = .ok (s', proc))
    (hcap : s.stack.sp < s.stack.cells.length) (hA : s.stack.cellAt s.stack.sp = .argc m)
    (hm : m + 1 ≤ s.stack.sp) :
    (∃ j, s.stack.sp - 1 - m < j ∧ j < s.stack.sp ∧ proc = s.stack.cellAt j) ∧
    ∀ m', s'.stack.cellAt s'.stack.sp = .argc m' → ∀ i, s'.stack.sp - 1 - m' < i → i < s'.stack.sp →
      (∃ j, s.stack.sp - 1 - m < j ∧ j < s.stack.sp ∧ s'.stack.cellAt i = s.stack.cellAt j) ∨
        ∃ a, s'.stack.cellAt i = .ptr a := by
  obtain ⟨⟨_, ⟨m0, b1, b2, b3⟩, _, _, _, _⟩, _⟩ := builtinApply_ok h hcap hA hm
  unfold builtinApply at h
  obtain ⟨⟨a, st1⟩, hp1, h⟩ := bind_inv h
  simp only at h
  obtain ⟨argc, ha, h⟩ := bind_inv h
  have p1 := pop_ok hp1
  have ea := asArgc_ok ha
  rw [p1.2.2, hA] at ea
  cases ea
  split at h
  · cases h
  · rename_i hm2
    obtain ⟨⟨top, st2⟩, hp2, h⟩ := bind_inv h
    simp only at h
    have p2 := pop_ok hp2
    replace h := ite_err_inv h
    obtain ⟨proc', hg, h⟩ := bind_inv h
    obtain ⟨st3, hsh, h⟩ := bind_inv h
    obtain ⟨⟨x, st4⟩, hp4, h⟩ := bind_inv h
    simp only at h
    obtain ⟨⟨n', st5⟩, hpl, h⟩ := bind_inv h
    simp only at h
    obtain ⟨ipO, hu, h⟩ := bind_inv h
    cases h
    obtain ⟨q1, q2, q3⟩ := shift_ok _ _ _ hsh
    have p4 := pop_ok hp4
    have hcap4 : st4.sp < st4.cells.length := by
      rw [p4.2.1, q2, p2.2.1, p1.2.1]; omega
    obtain ⟨w1, w2, w3, w4⟩ := pushList_ok _ _ _ _ _ _ hpl hcap4
    have hc4 : ∀ i, st4.cellAt i = st3.cellAt i := by intro i; unfold Stack.cellAt; rw [p4.2.1]
    have hc2 : ∀ i, st2.cellAt i = s.stack.cellAt i := by
      intro i; unfold Stack.cellAt; rw [p2.2.1, p1.2.1]
    have e0 : (-((m : Int) - 2)) = -((m - 2 : Nat) : Int) := by omega
    rw [e0] at hg
    obtain ⟨g1, g2⟩ := getOffset_ok hg
    refine ⟨⟨st2.sp - (m - 2), by omega, by omega, by rw [g2, hc2]⟩, ?_⟩
    intro m' hm' i hi1 hi2
    simp only at b1 b2 b3 hm' hi1 hi2
    rw [b1] at hm'; cases hm'
    have hsp' : (st5.push (VCell.argc n')).sp = st5.sp + 1 := push_sp _ _
    rw [hsp'] at hi1 hi2 b3
    show (∃ j, _ ∧ _ ∧ (st5.push (VCell.argc n')).cellAt i = _) ∨ ∃ a, (st5.push (VCell.argc n')).cellAt i = _
    rw [push_cellAt]
    have n1 : ¬ i = st5.sp + 1 := by omega
    simp only [n1, if_false]
    by_cases hlow : i ≤ st4.sp
    · left
      rw [w4 i hlow, hc4]
      obtain ⟨j, j1, j2, j3⟩ := shift_prov _ _ _ hsh i (by omega) (by omega)
      exact ⟨j, by omega, by omega, by rw [j3, hc2]⟩
    · right
      exact pushList_prov _ _ _ _ _ _ hpl hcap4 i (by omega) (by omega)

/-- `call/cc`: the new argument block is the continuation object -/
theorem builtinCallcc_new {s s' : St H} {proc : VCell} {m : Nat} (h : builtinCallcc ops s = .ok (s', proc))
    (hA : s.stack.cellAt s.stack.sp = .argc m) :
    (∃ j, s.stack.sp - 1 - m < j ∧ j < s.stack.sp ∧ proc = s.stack.cellAt j) ∧
    s'.stack.cellAt s'.stack.sp = .argc 1 ∧
    ∃ cst, s'.stack.cellAt (s'.stack.sp - 1) = (ops.newCont s.heap ⟨cst, s.ep, s.ipL, s.ipO, s.bp⟩).2 := by
  unfold builtinCallcc at h
  obtain ⟨⟨a, st1⟩, hp1, h⟩ := bind_inv h
  simp only at h
  obtain ⟨argc, ha, h⟩ := bind_inv h
  have p1 := pop_ok hp1
  have ea := asArgc_ok ha
  rw [p1.2.2, hA] at ea
  cases ea
  split at h
  · cases h
  · rename_i hm1
    have hm1' : m = 1 := by simpa using hm1
    subst hm1'
    obtain ⟨⟨pr, st2⟩, hp2, h⟩ := bind_inv h
    simp only at h
    have p2 := pop_ok hp2
    split at h
    · cases h
    · obtain ⟨cst, hcp, h⟩ := bind_inv h
      obtain ⟨ipO, hu, h⟩ := bind_inv h
      cases h
      refine ⟨⟨s.stack.sp - 1, by omega, by omega, ?_⟩, ?_, cst, ?_⟩
      · rw [p2.2.2]; unfold Stack.cellAt; rw [p1.2.1]
        have : st1.sp = s.stack.sp - 1 := by omega
        rw [this]
      · show ((st2.push _).push (VCell.argc 1)).cellAt (((st2.push _).push (VCell.argc 1)).sp) = _
        simp [push_cellAt]
      · show ((st2.push _).push (VCell.argc 1)).cellAt (((st2.push _).push (VCell.argc 1)).sp - 1) = _
        rw [push_sp, push_sp, push_cellAt, push_cellAt, push_sp]
        have n1 : ¬ (st2.sp + 1 + 1 - 1 = st2.sp + 1 + 1) := by omega
        have n2 : (st2.sp + 1 + 1 - 1 = st2.sp + 1) := by omega
        simp [n1, n2]

/-- the `acc` a builtin leaves is a value: a pointer, or what `maybe_put` returns -/
theorem runBuiltin_acc {cl : CodeLaws ops} {s s' : St H} {id : Nat} (h : runBuiltin ops id s = .ok s') :
    cl.Val s'.acc := by
  unfold runBuiltin at h
  dsimp only at h
  have key : ∀ (x : Outcome (St H × VCell)), (x >>= fun (p : St H × VCell) =>
      match p with
      | (s, v) =>
        match v with
        | VCell.ptr p => Outcome.ok { s with acc := VCell.ptr p }
        | v => match ops.maybePut s.heap v with
          | (h, r) => Outcome.ok { s with heap := h, acc := r }) = Outcome.ok s' → cl.Val s'.acc := by
    intro x hx
    obtain ⟨⟨s2, v⟩, hb, hx⟩ := bind_inv hx
    dsimp only at hx
    split at hx
    · cases hx; exact cl.val_imm _ rfl
    · cases hx; exact cl.maybePut_val _ _
  cases hk : ops.builtinKind s.heap id <;> rw [hk] at h <;> dsimp only at h <;> exact key _ h

/-- `eval` re-dispatches with an empty argument block -/
theorem builtinEvalProc_blk {s s' : St H} {lam : VCell} (h : builtinEvalProc ops s = .ok (s', lam)) :
    s'.stack.cellAt s'.stack.sp = .argc 0 := by
  unfold builtinEvalProc at h
  obtain ⟨⟨a, st1⟩, hp1, h⟩ := bind_inv h
  simp only at h
  obtain ⟨argc, ha, h⟩ := bind_inv h
  split at h
  · cases h
  · obtain ⟨⟨e, st2⟩, hp2, h⟩ := bind_inv h
    simp only at h
    obtain ⟨⟨h', l⟩, hce, h⟩ := bind_inv h
    simp only at h
    obtain ⟨ipO, hu, h⟩ := bind_inv h
    cases h
    simp [push_cellAt]

/-- invoking a continuation delivers the single argument of the call in `acc` -/
theorem invokeCont_acc {s s' : St H} {c : Cont} (h : invokeCont s c = .ok s') :
    ∃ m, s.stack.cellAt s.stack.sp = .argc m ∧ (1 ≤ m ∧ 2 ≤ s.stack.sp) ∧
      s'.acc = s.stack.cellAt (s.stack.sp - 1) := by
  unfold invokeCont at h
  obtain ⟨⟨a, st1⟩, hp1, h⟩ := bind_inv h
  simp only at h
  obtain ⟨n, ha, h⟩ := bind_inv h
  split at h
  · cases h
  · rename_i hn
    obtain ⟨⟨r, st2⟩, hp2, h⟩ := bind_inv h
    simp only at h
    obtain ⟨s3, hrc, h⟩ := bind_inv h
    cases h
    unfold restoreCont at hrc
    obtain ⟨st3, hre, hrc⟩ := bind_inv hrc
    cases hrc
    have p1 := pop_ok hp1
    have p2 := pop_ok hp2
    have ea := asArgc_ok ha
    refine ⟨n, by rw [← p1.2.2, ea], ⟨by omega, by omega⟩, ?_⟩
    show r = _
    rw [p2.2.2]
    unfold Stack.cellAt
    rw [p1.2.1]
    have : st1.sp = s.stack.sp - 1 := by omega
    rw [this]

end Marwood.Vm
