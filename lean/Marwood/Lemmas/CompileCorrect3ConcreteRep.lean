import Marwood.Lemmas.CompileCorrect3Pres
import Marwood.Lemmas.CompileCorrect2ConcreteAll
import Marwood.Lemmas.SimSym
/-!
# T01.3 stage 3 on the concrete heap — the representation, and what it keeps when cells are kept

`cD3`: the stage-3 representation data over `concreteOps ext` (`Vm/ConcreteHeap.lean`). It is the stage-2 data
`cD` with

* `envOK h e` = "`e` is a lexical environment that a closure CELL of `h` refers to" (what CLOSURE builds), and
* the heap invariant `SRx` = `CInv` (code objects), `FreeInv` (free cells are `Undefined`), the named global
  slots exist, `ClosEnv` (every closure cell refers to a lexical environment), and the invariants of the
  allocator's map and of the symbol table (`Sim.HInv`, `Sim.SymOk`: `heap.put` interns symbols).

`ext3_of_keeps`: `Ext3` from `Keeps` (non-`Undefined` cells are kept, a lexical environment may be replaced by
another one) and what happens to the slots and to the closure cells.
-/
namespace Marwood.Lemmas.CompileCorrect3.Conc
open Marwood Marwood.Vm Marwood.Vm.Concrete Marwood.Lemmas.CompileCorrect Marwood.Lemmas.CompileCorrect2
  Marwood.Lemmas.CompileCorrect2.Conc
open Marwood.Spec.Eval (Val Cell)

/-- every closure cell refers to a lexical environment -/
def ClosEnv (h : CHeap) : Prop :=
  ∀ (p lam e : Nat), h.cells[p]? = some (CCell.val (.closure lam e)) → ∃ ss, envAt h e = some ss

/-- `e` is a lexical environment a closure cell refers to -/
def cEnvOK (h : CHeap) (e : Nat) : Prop :=
  (∃ ss, envAt h e = some ss) ∧ ∃ (p lam : Nat), h.cells[p]? = some (CCell.val (.closure lam e))

/-- the heap invariant of stage 3 -/
def cSRx (named : Text → Prop) (slot : Text → Nat) (h : CHeap) : Prop :=
  CInv h ∧ FreeInv h ∧ (∀ x, named x → slot x < h.globals.size) ∧ ClosEnv h ∧ Sim.HInv h ∧ Sim.SymOk h

def cD3 (ext : ExtOps) (E : AtomEnc) (named : Text → Prop) (slot : Text → Nat) (LM : Nat → Nat)
    (final : List LambdaM) (setG : Text → Prop) : RepData2 (concreteOps ext) :=
  { CompileCorrect2.Conc.cD ext E named slot LM final setG with
    SRx := fun h _ => CInv h ∧ FreeInv h ∧ (∀ x, named x → slot x < h.globals.size) ∧ ClosEnv h ∧ Sim.HInv h ∧
      Sim.SymOk h
    envOK := fun h e => (∃ ss, envAt h e = some ss) ∧ ∃ (p lam : Nat), h.cells[p]? = some (CCell.val (.closure lam e)) }

variable {ext : ExtOps} {E : AtomEnc} {named : Text → Prop} {slot : Text → Nat} {LM : Nat → Nat}
  {final : List LambdaM} {setG : Text → Prop}

theorem cD3_srx (h : CHeap) (S : Array Cell) : (cD3 ext E named slot LM final setG).SRx h S = cSRx named slot h := rfl

theorem cD3_envOK (h : CHeap) (e : Nat) : (cD3 ext E named slot LM final setG).envOK h e = cEnvOK h e := rfl

/-- a closure cell of `h'` refers to an environment that did not exist in `h`, or that a closure cell of `h`
    referred to already -/
def NewClos (h h' : CHeap) : Prop :=
  ∀ (p lam e : Nat), h'.cells[p]? = some (CCell.val (.closure lam e)) →
    envAt h e = none ∨ ∃ (p' lam' : Nat), h.cells[p']? = some (CCell.val (.closure lam' e))

theorem NewClos.refl (h : CHeap) : NewClos h h := fun p lam _ x => .inr ⟨p, lam, x⟩

theorem keeps_cEnvOK {h h' : CHeap} (k : Keeps h h') {e : Nat} (x : cEnvOK h e) : cEnvOK h' e := by
  obtain ⟨⟨ss, hs⟩, p, lam, hc⟩ := x
  refine ⟨?_, p, lam, ?_⟩
  · rcases k.envAt hs with h1 | ⟨ss', h1⟩
    · exact ⟨ss, envAt_of_cell h1⟩
    · exact ⟨ss', envAt_of_cell h1⟩
  · rcases k p _ hc (by intro x; cases x) with h1 | ⟨s1, s2, e1, _⟩
    · exact h1
    · cases e1

theorem keeps_env {h h' : CHeap} (k : Keeps h h') {e : Nat} (x : ∃ ss, envAt h e = some ss) :
    ∃ ss, envAt h' e = some ss := by
  obtain ⟨ss, hs⟩ := x
  rcases k.envAt hs with h1 | ⟨ss', h1⟩
  · exact ⟨ss, envAt_of_cell h1⟩
  · exact ⟨ss', envAt_of_cell h1⟩

/-- what a heap operation keeps, from `Keeps`, what it does to the environment slots and which closure cells
    it creates -/
theorem ext3_of_keeps {h h' : CHeap} (S : Array Cell) (k : Keeps h h')
    (hp : ∀ e n a b, Concrete.envGet h e n = some (.lexEnvPtr a b) → Concrete.envGet h' e n = some (.lexEnvPtr a b))
    (hv : ∀ e n v, Concrete.envGet h e n = some v → isEnvPtr v = false →
      ∃ v', Concrete.envGet h' e n = some v' ∧ isEnvPtr v' = false)
    (hi : ∀ e n v, Concrete.envGet h e n = some v → isEnvPtr v = false → v ≠ .undefined →
      ∃ v', Concrete.envGet h' e n = some v' ∧ isEnvPtr v' = false ∧ v' ≠ .undefined)
    (hu : ∀ e n, cEnvOK h e → Concrete.envGet h e n = some .undefined → Concrete.envGet h' e n = some .undefined)
    (hc : NewClos h h') :
    Ext3 (cD3 ext E named slot LM final setG) h S h' S := by
  have hvr : ∀ v w, cVR ext E h S v w → cVR ext E h' S v w := fun _ _ x => k.vr (fun _ _ y _ => y) x
  refine ⟨⟨StoreExt.refl _, hvr,
    fun _ _ x => DatumAt.transport (D := (cD3 ext E named slot LM final setG).toRepData)
      (vecElems := fun _ _ => none) (h := h) (h' := h') (S := S) (S' := S) hvr
      (fun _ _ _ y => k.derefPair y) (fun _ _ y => y) x,
    fun l x => ?_, fun v l e x => k.closure x, fun e x => keeps_cEnvOK k x, hp, hv⟩, fun _ _ _ x => k.derefPair x, ?_, hu, ?_⟩
  · have x' : (lambdaAt h l).isSome = true := x
    cases hl : lambdaAt h l with
    | none => rw [hl] at x'; cases x'
    | some lam =>
      have hl' := k.lambdaAt hl
      refine ⟨?_, fun o => ?_, ?_, ?_⟩
      · show (lambdaAt h' l).isSome = true
        rw [hl']; rfl
      · show (match lambdaAt h' l with | some lam => lam.bc[o]? | none => none) =
          (match lambdaAt h l with | some lam => lam.bc[o]? | none => none)
        rw [hl, hl']
      · show (lambdaAt h' l).map _ = (lambdaAt h l).map _
        rw [hl, hl']
      · show (cD ext E named slot LM final setG).lamSrcs h' l = (cD ext E named slot LM final setG).lamSrcs h l
        show (lambdaAt h' l).map _ = (lambdaAt h l).map _
        rw [hl, hl']
  · rintro e n ⟨v, h1, h2, h3⟩
    exact hi e n v h1 h2 h3
  · intro e n v hg ok
    obtain ⟨ss, hs, _⟩ := envGet_some hg
    have ok' : cEnvOK h' e := ok
    obtain ⟨_, p, lam, hcell⟩ := ok'
    rcases hc p lam e hcell with h1 | ⟨p', lam', h1⟩
    · rw [hs] at h1; cases h1
    · exact ⟨⟨ss, hs⟩, p', lam', h1⟩

/-- a heap operation that leaves the slots of the existing environments alone -/
theorem ext3_of_frame {h h' : CHeap} (S : Array Cell) (k : Keeps h h')
    (hf : ∀ e n v, Concrete.envGet h e n = some v → Concrete.envGet h' e n = some v) (hc : NewClos h h') :
    Ext3 (cD3 ext E named slot LM final setG) h S h' S :=
  ext3_of_keeps S k (fun e n _ _ x => hf e n _ x) (fun e n v x y => ⟨v, hf e n v x, y⟩)
    (fun e n v x y z => ⟨v, hf e n v x, y, z⟩) (fun e n _ x => hf e n _ x) hc

/-! ## the parts of the invariant that do not look at the cells that changed -/

theorem hinv_of_eq {h h' : CHeap} (inv : Sim.HInv h) (hc : h'.cells = h.cells) (hg : h'.gc = h.gc)
    (hf : h'.free = h.free) (hk : h'.chunk = h.chunk) : Sim.HInv h' :=
  ⟨by rw [hg, hc]; exact inv.sizes, by rw [hk, hc]; exact inv.shape, by rw [hg, hf]; exact inv.free_iff,
    by rw [hf]; exact inv.nodup, by rw [hg]; exact inv.no_used⟩

theorem cinv_of_eq {h h' : CHeap} (inv : CInv h) (hc : h'.cells = h.cells) (hg : h'.gc = h.gc)
    (hf : h'.free = h.free) (hk : h'.chunk = h.chunk) : CInv h' :=
  (Grows.of_eq (P := NoCont) inv hc hg hf hk).inv inv (fun _ x => x.elim)

theorem freeInv_of_eq {h h' : CHeap} (fi : FreeInv h) (hc : h'.cells = h.cells) (hf : h'.free = h.free) :
    FreeInv h' :=
  ⟨by rw [hc, hf]; exact fi.undef, by rw [hf]; exact fi.nodup⟩

theorem closEnv_of_eq {h h' : CHeap} (ce : ClosEnv h) (hc : h'.cells = h.cells) : ClosEnv h' := by
  intro p lam e x
  rw [hc] at x
  obtain ⟨ss, hs⟩ := ce p lam e x
  exact ⟨ss, by unfold Concrete.envAt at hs ⊢; rw [hc]; exact hs⟩

theorem symOk_of_eq {h h' : CHeap} (so : Sim.SymOk h) (hc : h'.cells = h.cells) (hf : h'.free = h.free)
    (hs : h'.symtab = h.symtab) : Sim.SymOk h' := by
  intro name p
  rw [Sim.symLookup_congr hs name, hc, hf]
  exact so name p

/-- the symbol table after a cell that is not a symbol has been replaced by one that is not a symbol -/
theorem symOk_cwrite {h : CHeap} (so : Sim.SymOk h) {e : Nat} {c0 c : CCell} (h0 : h.cells[e]? = some c0)
    (hn0 : ∀ name, ¬ Sim.isSymCell c0 name) (hn : ∀ name, ¬ Sim.isSymCell c name) : Sim.SymOk (cwrite h e c) := by
  intro name p
  have hl : symLookup (cwrite h e c) name = symLookup h name := Sim.symLookup_congr rfl name
  rw [hl, so name p]
  have helt : e < h.cells.size := getElem?_lt h0
  have hcells : ∀ i, (cwrite h e c).cells[i]? = if i = e then some c else h.cells[i]? := by
    intro i
    show (h.cells.setIfInBounds e _)[i]? = _
    by_cases hi : i = e
    · subst hi; simp [helt]
    · rw [Array.getElem?_setIfInBounds_ne (fun x => hi x.symm)]; simp [hi]
  constructor
  · rintro ⟨c1, e1, hs, hfr⟩
    have hne : p ≠ e := by
      intro x; subst x
      rw [h0] at e1; cases e1
      exact hn0 name hs
    exact ⟨c1, by rw [hcells]; simp [hne, e1], hs, hfr⟩
  · rintro ⟨c1, e1, hs, hfr⟩
    rw [hcells] at e1
    by_cases hpe : p = e
    · simp [hpe] at e1; subst e1
      exact absurd hs (hn name)
    · simp [hpe] at e1
      exact ⟨c1, e1, hs, hfr⟩

end Marwood.Lemmas.CompileCorrect3.Conc
