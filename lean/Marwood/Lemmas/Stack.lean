import Marwood.Vm.Machine
/-!
# Functional view of the VM stack, and the copy loops of TCALL
-/
namespace Marwood.Vm

namespace Stack

/-- the cell at index `i` (`undefined` past the capacity — only used where `i < capacity`) -/
def cellAt (s : Stack) (i : Nat) : VCell := s.cells[i]?.getD .undefined

theorem get_of_lt (s : Stack) (i : Nat) (h : i < s.cells.length) : s.get i = .ok (s.cellAt i) := by
  unfold get Stack.cellAt
  rw [List.getElem?_eq_getElem h]; rfl

theorem set_of_lt (s : Stack) (i : Nat) (v : VCell) (h : i < s.cells.length) :
    s.set i v = .ok { s with cells := s.cells.set i v } := by
  unfold set; simp [h]

@[simp] theorem at_set_cells (s : Stack) (i j : Nat) (v : VCell) (h : i < s.cells.length) :
    (Stack.cellAt { s with cells := s.cells.set i v } j) = if j = i then v else s.cellAt j := by
  unfold Stack.cellAt
  simp only [List.getElem?_set]
  by_cases hij : i = j
  · subst hij; simp [h]
  · have : ¬ j = i := fun e => hij e.symm
    simp [hij, this]

theorem pad_getD (l : List VCell) (k i : Nat) :
    (l ++ List.replicate k VCell.undefined)[i]?.getD VCell.undefined = l[i]?.getD VCell.undefined := by
  by_cases hl : i < l.length
  · simp [List.getElem?_append_left hl]
  · have : l.length ≤ i := by omega
    rw [List.getElem?_append_right this, List.getElem?_eq_none this]
    cases hx : (List.replicate k VCell.undefined)[i - l.length]? with
    | none => rfl
    | some x =>
      have := List.mem_of_getElem? hx
      rw [(List.mem_replicate.mp this).2]; rfl

/-- pushing writes exactly cell `sp+1`, whatever the capacity -/
theorem push_cellAt (s : Stack) (v : VCell) (j : Nat) :
    (s.push v).cellAt j = if j = s.sp + 1 then v else s.cellAt j := by
  unfold push
  split
  · rename_i h
    unfold Stack.cellAt
    simp only [List.getElem?_set]
    by_cases hj : s.sp + 1 = j
    · subst hj; simp [h]
    · have : ¬ j = s.sp + 1 := fun e => hj e.symm
      simp [hj, this]
  · rename_i h
    unfold Stack.cellAt
    simp only [List.getElem?_set]
    by_cases hj : s.sp + 1 = j
    · subst hj
      have h1 := Nat.le_max_right s.cells.length (s.sp + 2 - s.cells.length)
      have hlt : s.sp + 1 < s.cells.length + max s.cells.length (s.sp + 2 - s.cells.length) := by
        generalize max s.cells.length (s.sp + 2 - s.cells.length) = m at *
        omega
      simp [hlt]
    · have hne : ¬ j = s.sp + 1 := fun e => hj e.symm
      simp only [hj, hne, if_false]
      exact pad_getD _ _ _

@[simp] theorem push_sp (s : Stack) (v : VCell) : (s.push v).sp = s.sp + 1 := by
  unfold push; split <;> rfl

theorem push_len (s : Stack) (v : VCell) : s.cells.length ≤ (s.push v).cells.length := by
  unfold push
  split
  · simp
  · simp

theorem push_sp_lt (s : Stack) (v : VCell) : (s.push v).sp < (s.push v).cells.length := by
  unfold push
  split
  · rename_i h; simpa using h
  · have h1 := Nat.le_max_right s.cells.length (s.sp + 2 - s.cells.length)
    simp
    generalize max s.cells.length (s.sp + 2 - s.cells.length) = m at *
    omega

end Stack

end Marwood.Vm
