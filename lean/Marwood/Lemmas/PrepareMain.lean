import Marwood.Lemmas.PrepareHG
import Marwood.Lemmas.PrepareEnvCode
import Marwood.Lemmas.PrepareCode
import Marwood.Lemmas.PreparePInv
import Marwood.Lemmas.ProcInvMain
import Marwood.Lemmas.PolicySessionOk
/-!
# `prepare_eval` re-establishes the machine invariant

`Installs e fuel s s' entry` (Lemmas/PrepareDefs.lean) describes what the compiler and the loader inside
`prepare_eval` do to an idle machine; `Vm.prepare s' entry` then points `ip` at the entry lambda. This file proves

* `instSteps_all` — a sequence of loader steps keeps every HEAP clause of the bundled invariant: `HG` (`WFHeap` of the
  erasure, `Plain`, the code discipline `LamAll`, the environment discipline), allocated global roots, the
  value-typed code invariant `CInvG IsValue` (old code kept), and `HP` ("no value leads to entry code"); values of
  the old heap keep pointing away from entry code;
* `IdleOk s` — the invariant of the machine BETWEEN evaluations (`VmOkP` minus the frame chain, which an idle
  machine does not have: the stack is the cleared one the epilogues leave, `sp = 0`); it follows from `VmOkP` of a
  state with `sp = 0`, survives the loader steps (`IdleOk.installs`), the collector (`IdleOk.gc`), and is what the
  success / error epilogue of an evaluation started in a `VmOkP` state leaves behind (`idleOk_after_done`,
  `idleOk_after_error`);
* **`prepare_vmOkP`** — `IdleOk s`, `Installs e fuel s s' entry`, `Small s'.heap` ⇒ `VmOkP ext ecl (prepare s' entry)`:
  `GoodI` (roots: the new `ip.0` is the allocated entry lambda), WF-stack (`WFS.initial`: the entry lambda is a loading
  of `entryLam`, hence verified ENTRY code by T04.6 `entry_verifyLam`), `CInv`, `PInv`.
-/
namespace Marwood.Lemmas.Good
open Marwood Marwood.Vm Marwood.Vm.Verify Marwood.Vm.Concrete Marwood.Lemmas.Sim
open Marwood.Lemmas.MachineGarbage Marwood.Lemmas.PolicySessionOk
open Marwood.Heap (GcState WFHeap RootsOk vrefs vrefsList crefs)

/-! ## the heap clauses along a sequence of loader steps -/

/-- what a sequence of loader steps guarantees of the heap it ends in -/
structure InstRes (h h' : CHeap) : Prop where
  hg : HG h'
  mono : Mono h h'
  gr : GlobRoots h'
  ci : CInvG IsValue h'
  code : ∀ l bc, codeC h l = some bc → codeC h' l = some bc
  hp : HP h'
  ne : ∀ v, VRefsOk h v → neB h v = true → neB h' v = true

theorem InstRes.refl {h : CHeap} (g : HG h) (gr : GlobRoots h) (ci : CInvG IsValue h) (hp : HP h) : InstRes h h :=
  ⟨g, .refl h, gr, ci, fun _ _ x => x, hp, fun _ _ x => x⟩

theorem instStep_all {Q : CHeap → CLambda → Prop} (hQ : ∀ h cl, Q h cl → CodeOk cl) {h h' : CHeap} (st : InstStep Q h h')
    (g : HG h) (gr : GlobRoots h) (ci : CInvG IsValue h) (hp : HP h) (sm : Small h') : InstRes h h' := by
  obtain ⟨g', m, gr'⟩ := instStep_hg (fun h cl q => (hQ h cl q).lamOk) st g gr sm
  obtain ⟨ci', code⟩ := instStep_cinv hQ st (HInv.of_wf g.wf) ci
  obtain ⟨hp', ne⟩ := instStep_hp st g gr (.of_cinv ci) hp sm
  exact ⟨g', m, gr', ci', code, hp', ne⟩

/-- **a sequence of loader steps keeps the heap clauses of the bundled invariant** -/
theorem instSteps_all {Q : CHeap → CLambda → Prop} (hQ : ∀ h cl, Q h cl → CodeOk cl) {h h' : CHeap} (st : InstSteps Q h h')
    (g : HG h) (gr : GlobRoots h) (ci : CInvG IsValue h) (hp : HP h) (sm : Small h') : InstRes h h' := by
  induction st with
  | refl h => exact .refl g gr ci hp
  | @step h h1 h2 s rest ih =>
    have sm1 : Small h1 := sm.of_le (instSteps_size rest)
    have r1 := instStep_all hQ s g gr ci hp sm1
    have r2 := ih r1.hg r1.gr r1.ci r1.hp sm
    exact ⟨r2.hg, r1.mono.trans r2.mono, r2.gr, r2.ci, fun l bc x => r2.code l bc (r1.code l bc x), r2.hp,
      fun v hv hn => r2.ne v (hv.mono r1.mono) (r1.ne v hv hn)⟩

/-- the decoding discipline and the allocator invariant along loader steps -/
theorem instSteps_codePlain {Q : CHeap → CLambda → Prop} (hQ : ∀ h cl, Q h cl → CodeOk cl) {h h' : CHeap} (st : InstSteps Q h h')
    (inv : HInv h) (cp : CodePlain h) : HInv h' ∧ CodePlain h' := by
  induction st with
  | refl h => exact ⟨inv, cp⟩
  | step s _ ih => exact ih (instStep_inv s inv) (instStep_codePlain hQ s inv cp)

/-! ## the machine between evaluations -/

variable {ext : ExtOps} {ecl : ExtCodeLawsV ext}

/-- **the invariant of the idle machine**: the heap-simulation invariant, the value-typed code invariant, "no value
    leads to entry code", and the stack the epilogues leave (`sp = 0`, a non-empty stack vector) -/
structure IdleOk (s : St CHeap) : Prop where
  good : GoodI s
  ci : CInvG IsValue s.heap
  pinv : PInv s
  sp0 : s.stack.sp = 0
  cap : 0 < s.stack.cells.length

theorem VmOkP.idleOk {s : St CHeap} (h : VmOkP ext ecl s) (hsp : s.stack.sp = 0) (hcap : 0 < s.stack.cells.length) :
    IdleOk s :=
  ⟨h.1.1, h.1.cinv, h.2, hsp, hcap⟩

/-- the roots of a state whose heap was replaced by a later one -/
theorem roots_later {s : St CHeap} {h' : CHeap} (g : GoodI s) (m : Mono s.heap h') (gr : GlobRoots h') :
    RootsOk (toHeap h') ((rootsOf { s with heap := h' }).refs true) := by
  intro y hy
  show NF h' y
  simp only [Heap.Roots.refs, rootsOf, List.mem_append, List.mem_cons, List.not_mem_nil, or_false] at hy
  rcases hy with (((hy | hy) | hy) | hy) | hy
  · exact gr.1 y hy
  · obtain ⟨c, hc', he⟩ := List.mem_filterMap.mp hy
    obtain ⟨v, hv', rfl⟩ := List.mem_map.mp hc'
    have := eraseV_asPtr he
    subst this
    exact VRefsOk.ptr.mp (gr.2 _ hv')
  · obtain ⟨c, hc', hx⟩ := vrefsList_mem_iff.mp hy
    obtain ⟨i, hi⟩ := List.mem_iff_getElem?.mp hc'
    rw [List.getElem?_take] at hi
    split at hi
    · rename_i hlt
      exact ((roots_stack g.roots (Nat.le_of_lt_succ hlt) hi).mono m) y hx
    · cases hi
  · exact ((roots_acc g.roots).mono m) y hy
  · rcases hy with rfl | rfl
    · exact (roots_ipL g.roots).mono m
    · exact (roots_ep g.roots).mono m

/-- loader steps (of an accepted or of a rejected form) keep the idle invariant -/
theorem IdleOk.installs {s s' : St CHeap} (i : IdleOk s) (st : InstallsGarbage s s') (sm : Small s'.heap) :
    IdleOk s' ∧ InstRes s.heap s'.heap := by
  have r := instSteps_all (fun _ _ q => q.code) st.steps i.good.hg i.good.globRoots i.ci i.pinv.hp sm
  refine ⟨?_, r⟩
  rw [st.regs]
  refine ⟨⟨r.hg, roots_later i.good r.mono r.gr, i.good.accv⟩, r.ci, ⟨r.hp, ?_, ?_⟩, i.sp0, i.cap⟩
  · exact r.ne _ (roots_acc i.good.roots) i.pinv.acc
  · intro k v hk hv
    exact r.ne v (roots_stack i.good.roots hk hv) (i.pinv.stk k v hk hv)

/-- the collector keeps the idle invariant -/
theorem IdleOk.gc (force : Bool) {s : St CHeap} (i : IdleOk s) (sm : Small (cgc force s).heap) :
    IdleOk (cgc force s) := by
  obtain ⟨g1, _, _, _, _, _⟩ := cgc_regs force s
  exact ⟨good_gc force i.good sm, cgc_inv force s i.ci, pinv_gc force i.ci i.pinv, by rw [g1]; exact i.sp0,
    by rw [g1]; exact i.cap⟩

/-! ## `prepare_eval` -/

/-- the entry lambda of `compile_runnable` in any loading is verified ENTRY code -/
theorem loaded_entry_ty {e : Datum} {fuel : Nat} {st : CState} {lam ent : LambdaM} {cl : CLambda}
    (hc : compileRunnable e fuel = .ok (st, lam, ent)) (hl : LoadedLam ent cl) :
    ∃ t, verifyLam cl.bc = some t ∧ t.entry = true := by
  unfold compileRunnable at hc
  cases ht : compileTop e fuel with
  | error err => rw [ht] at hc; cases hc
  | ok r =>
    obtain ⟨st', lam'⟩ := r
    rw [ht] at hc
    cases hc
    exact entry_verifyLam hl.bc

/-- **`prepare_eval` re-establishes the bundled invariant.** From the idle invariant of `s`, the loader relation
    `Installs e fuel s s' entry` and the physical size bound of the new heap: the state in which the evaluation of
    `e` starts — `ip` at offset 0 of the entry lambda — satisfies `VmOkP = VmOk ∧ PInv`. -/
theorem prepare_vmOkP_idle {e : Datum} {fuel : Nat} {s s' : St CHeap} {entry : Nat} (i : IdleOk s)
    (st : Installs e fuel s s' entry) (sm : Small s'.heap) : VmOkP ext ecl (prepare s' entry) := by
  obtain ⟨i', r⟩ := i.installs st.garbage sm
  obtain ⟨cst, lam, ent, cl, hc, hcell, hl⟩ := st.entryLam
  obtain ⟨t, ht, hent⟩ := loaded_entry_ty hc hl
  have hty : tyOf ((concreteLawsV ext ecl).code s'.heap) entry = some t := by
    show tyOf (codeC s'.heap) entry = some t
    unfold tyOf codeC
    rw [lambdaAt_iff.mpr hcell]
    exact ht
  have hw : WFS (concreteLawsV ext ecl) (prepare s' entry) [] :=
    WFS.initial (cl := concreteLawsV ext ecl) (entry := entry) i'.ci hty hent i'.sp0
      (by rw [i'.sp0]; exact i'.cap) i'.good.accv
  refine ⟨⟨⟨i'.good.hg, ?_, i'.good.accv⟩, .inl ⟨[], hw⟩⟩, ⟨i'.pinv.hp, i'.pinv.acc, i'.pinv.stk⟩⟩
  -- roots of the prepared state: those of `s'`, with `ip.0` the allocated entry lambda
  intro y hy
  show NF s'.heap y
  simp only [Heap.Roots.refs, rootsOf, prepare, List.mem_append, List.mem_cons, List.not_mem_nil, or_false] at hy
  rcases hy with hy | hy
  · exact i'.good.roots y (by
      simp only [Heap.Roots.refs, rootsOf, List.mem_append]
      exact .inl hy)
  · rcases hy with rfl | rfl
    · exact .inl st.entryNF
    · exact roots_ep i'.good.roots

/-- **`prepare_vmOkP`**, in the form: bundled invariant of a state with an empty stack (the initial state of a
    session; the state HALT left) -/
theorem prepare_vmOkP {e : Datum} {fuel : Nat} {s s' : St CHeap} {entry : Nat} (h : VmOkP ext ecl s)
    (hsp : s.stack.sp = 0) (hcap : 0 < s.stack.cells.length) (st : Installs e fuel s s' entry) (sm : Small s'.heap) :
    VmOkP ext ecl (prepare s' entry) :=
  prepare_vmOkP_idle (h.idleOk hsp hcap) st sm

/-- the decoding discipline of code objects (C12's `CodePlain`) survives `prepare_eval` -/
theorem installs_codePlain {s s' : St CHeap} (i : IdleOk s) (st : InstallsGarbage s s') (cp : CodePlain s.heap) :
    CodePlain s'.heap :=
  (instSteps_codePlain (fun _ _ q => q.code) st.steps (HInv.of_wf i.good.hg.wf) cp).2

/-! ## the epilogues leave an idle machine -/

/-- WF-stack at HALT / at a failure, read off `runLoop_wf`: what the success epilogue starts from -/
theorem idleOk_onDone {s : St CHeap} (g : GoodI s) (ci : CInvG IsValue s.heap) (p : PInv s) (hsp : s.stack.sp = 0)
    (hcap : 0 < s.stack.cells.length) : IdleOk (onDone s) := by
  refine ⟨onDone_goodI g, ci, ⟨p.hp, p.acc, ?_⟩, hsp, ?_⟩
  · intro k v _ hv
    have hm : v ∈ List.replicate s.stack.cells.length VCell.undefined := List.mem_of_getElem? hv
    have : v = .undefined := (List.mem_replicate.mp hm).2
    subst this; rfl
  · show 0 < (List.replicate s.stack.cells.length VCell.undefined).length
    rw [List.length_replicate]; exact hcap

theorem idleOk_onError {s : St CHeap} (g : GoodI s) (ci : CInvG IsValue s.heap) (p : PInv s)
    (hcap : 0 < s.stack.cells.length) : IdleOk (onError s) := by
  refine ⟨onError_goodI g, ci, onError_pinv p, rfl, ?_⟩
  show 0 < (List.replicate s.stack.cells.length VCell.undefined).length
  rw [List.length_replicate]; exact hcap

end Marwood.Lemmas.Good
