import Marwood.Lemmas.EvalExtraShift
import Marwood.Lemmas.EvalDerivedCond
/-!
# T01.2, second half, closed for the expansions that bind an identifier of their own:
`or` (binder `var1`), `cond` with a test-only clause and with a `=>` clause (binder `temp`)

`AgreesUpToExtra k use exp ρ st`: whenever the native meaning of `use` has a definite outcome from `st`
(fuel `n`; "definite" = value or error, and no store-size-fuelled helper — `display`/`write`/`eval` of a
value, `equal?`, `length`/`append`/`reverse`/`list?`/`list->vector`/`apply`/`map`/`for-each` on a list,
`memv`/`assv`… — ran into its fuel bound on cyclic data: `guardN`), the expansion `exp` has, with fuel
`n + k`, the same outcome up to an injective renaming of locations that fixes the initial store:
same kind of outcome, same error class, same output log, values / globals / stores related
(`ResRel f (VRel f)`; the expansion's store has the native cells at their images, plus the variable
the expansion allocates). By `definite_unique` it is the only definite outcome `exp` has.

Hypotheses: the state has no dangling locations (`WFSt`, `EnvOK`: true of every state a session
reaches, `wf_runSession`) and the binder identifier does not occur in the sub-forms that the
expansion evaluates under the binding (`mentions … = false`; the known finding
`C01-prelude-macro-capture` is the negation witness).
-/
namespace Marwood.Spec.Eval.Derived
open Marwood Marwood.Spec.Eval Marwood.Spec.Eval.Prelude Marwood.Spec.Eval.Extra

/-- the expansion agrees with the native meaning up to extra cells, from state `st` -/
def AgreesUpToExtra (k : Nat) (use exp : Datum) (ρ : Env) (st : St) : Prop :=
  ∀ n, (guardN n).eval use ρ st ≠ .timeout →
    (evalN n).eval use ρ st = (guardN n).eval use ρ st ∧
    ∃ f, Inj f ∧ (∀ l, l < st.store.size → f l = l) ∧
      ResRel f (VRel f) ((evalN n).eval use ρ st) ((evalN (n + k)).eval exp ρ st)

/-- what `ResRel` says about the observable parts of a definite outcome -/
theorem ResRel.observe {f : LMap} {res res' : Res Val} (h : ResRel f (VRel f) res res') (hd : res ≠ .timeout) :
    (∃ v s v' s', res = .ok v s ∧ res' = .ok v' s' ∧ VRel f v v' ∧ s'.out = s.out ∧
        (valCut (s.store.size + 1) s.store v = false →
          valToDatum (s'.store.size + 1) s'.store v' = valToDatum (s.store.size + 1) s.store v)) ∨
    (∃ e s s', res = .err e s ∧ res' = .err e s' ∧ s'.out = s.out) := by
  cases res with
  | ok v s =>
    obtain ⟨v', s', rfl, hv, hs⟩ := h.ok_inv
    refine Or.inl ⟨v, s, v', s', rfl, rfl, hv, hs.out, fun hc => ?_⟩
    have h1 := valToDatum_rel hs (s'.store.size + 1) hv
    rw [hs.fuel_eq, valToDatum_stable _ _ _ _ hc, ← hs.fuel_eq] at h1
    exact h1
  | err e s =>
    obtain ⟨s', rfl, hs⟩ := h.err_inv
    exact Or.inr ⟨e, s, s', rfl, rfl, hs.out⟩
  | timeout => exact absurd rfl hd

/-- value or error (decidable, for examples) -/
def definiteB {α : Type} : Res α → Bool
  | .timeout => false
  | _ => true

theorem definiteB_ne {α : Type} {r : Res α} (h : definiteB r = true) : r ≠ .timeout := by
  intro e; subst e; cases h

/-- the outcome of the expansion that `AgreesUpToExtra` describes is the only definite one it has -/
theorem AgreesUpToExtra.unique {k : Nat} {use exp : Datum} {ρ : Env} {st : St} (h : AgreesUpToExtra k use exp ρ st)
    (n : Nat) (hd : (guardN n).eval use ρ st ≠ .timeout) (m : Nat) (hm : (evalN m).eval exp ρ st ≠ .timeout) :
    (evalN m).eval exp ρ st = (evalN (n + k)).eval exp ρ st := by
  obtain ⟨h1, f, _, _, hr⟩ := h n hd
  exact definite_unique exp ρ st hm (hr.definite (by rw [h1]; exact hd))

/-- as top-level forms: the printed results agree (value text or error class) when the native value is
    not cyclic -/
theorem AgreesUpToExtra.printed {k : Nat} {use exp : Datum} {st : St} (h : AgreesUpToExtra k use exp [] st)
    (htop : ∀ r, evalTop r use = r.eval use [] ∧ evalTop r exp = r.eval exp [])
    (n : Nat) (hd : (guardN n).eval use [] st ≠ .timeout)
    (hac : ∀ v s, (evalN n).eval use [] st = .ok v s → valCut (s.store.size + 1) s.store v = false) :
    (runForm (n + k) exp st).1 = (runForm n use st).1 := by
  obtain ⟨h1, f, _, _, hr⟩ := h n hd
  have hd2 : (evalN n).eval use [] st ≠ .timeout := by rw [h1]; exact hd
  simp only [runForm, (htop _).1, (htop _).2]
  rcases ResRel.observe hr hd2 with ⟨v, s, v', s', e1, e2, _, _, hp⟩ | ⟨e, s, s', e1, e2, _⟩
  · rw [e1, e2]
    simp only [hp (hac v s e1)]
  · rw [e1, e2]

theorem guardN_succ_eval (n : Nat) (e : Datum) (ρ : Env) : (guardN (n+1)).eval e ρ = evalStep (guardN n) e ρ := rfl

theorem cleanBs_of_mentions {x : Text} {ds : List Datum} (h : ∀ d ∈ ds, mentions x d = false) : CleanBs [x] ds := by
  intro d hd b hb
  simp only [List.mem_singleton] at hb
  subst hb
  exact h d hd

theorem cleanB_of_mentions {x : Text} {d : Datum} (h : mentions x d = false) : CleanB [x] d := by
  intro b hb
  simp only [List.mem_singleton] at hb
  subst hb
  exact h

/-! ## or -/

/-- **or**, third rule: `(or e e2 …)` and `(let ((var1 e)) (if var1 var1 (or e2 …)))`, `var1` not
    occurring in `e2 …` -/
theorem or_agrees (ρ : Env) (e e2 : Datum) (es : List Datum) (st : St) (hst : WFSt st) (hρ : EnvOK st.store.size ρ)
    (hfree : ∀ d ∈ e2 :: es, mentions k_var1 d = false) :
    AgreesUpToExtra 3 (orUse (e :: e2 :: es)) (orExp (e :: e2 :: es)) ρ st := by
  intro n hd
  cases n with
  | zero => exact absurd rfl hd
  | succ n =>
    refine ⟨guardN_eval_evalN _ _ _ _ hd, ?_⟩
    rw [guardN_eval_evalN _ _ _ _ hd]
    have e1 : (guardN (n+1)).eval (orUse (e :: e2 :: es)) ρ =
        ((guardN n).eval e ρ >>= fun v =>
          (fun (r : Rec) (ρ : Env) (v : Val) => if truthy v then pure v else evalOr r ρ (e2 :: es)) (guardN n) ρ v) := by
      rw [guardN_succ_eval, native_or]; rfl
    rw [e1] at hd ⊢
    rw [show n + 1 + 3 = n + 4 by omega, or_exp_eval]
    refine binder_agree k_var1 e (fun r ρ v => if truthy v then pure v else evalOr r ρ (e2 :: es)) ?_ n 3 ρ st hst hρ
      (fun l v => if truthy v then pure v else evalOr (evalN (n+1)) ((k_var1, l) :: ρ) (e2 :: es)) ?_ hd
    · intro f hf r r' hr ρ1 ρ1' he v v' hv
      simp only [hv.truthy]
      split
      · exact Sim.pure _ _ hv
      · exact sim_evalOr hr he _ (cleanBs_of_mentions hfree)
    · intro v s1 h
      by_cases htr : truthy v = true
      · rw [if_pos htr, if_pos htr]
      · rw [if_neg htr] at h ⊢
        rw [if_neg htr]
        exact le_evalOr (recLe_evalN_succ n) _ _ _ h

/-! ## cond, test-only clause followed by more clauses -/

/-- **cond**, rule 5: `(cond (t) c cs …)` and `(let ((temp t)) (if temp temp (cond c cs …)))`, `temp` not
    occurring in `c cs …` -/
theorem cond_test_agrees (ρ : Env) (t c : Datum) (cs : List Datum) (ht : t ≠ s k_else_) (st : St) (hst : WFSt st)
    (hρ : EnvOK st.store.size ρ) (hfree : ∀ d ∈ c :: cs, mentions k_temp d = false) :
    AgreesUpToExtra 3 (condUse (L [t] :: c :: cs)) (condTestExp t (c :: cs)) ρ st := by
  intro n hd
  cases n with
  | zero => exact absurd rfl hd
  | succ n =>
    refine ⟨guardN_eval_evalN _ _ _ _ hd, ?_⟩
    rw [guardN_eval_evalN _ _ _ _ hd]
    have e1 : (guardN (n+1)).eval (condUse (L [t] :: c :: cs)) ρ =
        ((guardN n).eval t ρ >>= fun v =>
          (fun (r : Rec) (ρ : Env) (v : Val) => if truthy v then pure v else evalCond r ρ (c :: cs)) (guardN n) ρ v) := by
      rw [guardN_succ_eval, native_cond, evalCond_test _ _ t _ ht]
    rw [e1] at hd ⊢
    rw [show n + 1 + 3 = n + 4 by omega, cond_test_exp_eval]
    refine binder_agree k_temp t (fun r ρ v => if truthy v then pure v else evalCond r ρ (c :: cs)) ?_ n 3 ρ st hst hρ
      (fun l v => if truthy v then pure v else evalCond (evalN (n+1)) ((k_temp, l) :: ρ) (c :: cs)) ?_ hd
    · intro f hf r r' hr ρ1 ρ1' he v v' hv
      simp only [hv.truthy]
      split
      · exact Sim.pure _ _ hv
      · exact sim_evalCond hr he _ (cleanBs_of_mentions hfree)
    · intro v s1 h
      by_cases htr : truthy v = true
      · rw [if_pos htr, if_pos htr]
      · rw [if_neg htr] at h ⊢
        rw [if_neg htr]
        exact le_evalCond (recLe_evalN_succ n) _ _ _ h

/-! ## cond, `=>` clause -/

theorem evalCond_arrow (r : Rec) (ρ : Env) (t f : Datum) (cs : List Datum) (ht : t ≠ s k_else_) :
    evalCond r ρ (L [t, s k_arrow, f] :: cs) = (do
      let v ← r.eval t ρ
      if truthy v then (do let fv ← r.eval f ρ; r.apply fv [v]) else evalCond r ρ cs) := by
  have hl : properList (L [t, s k_arrow, f]) = some [t, s k_arrow, f] := properList_ofList _
  have ht' : (t == Datum.sym k_else_) = false := by simpa [s] using ht
  have ha : (s k_arrow == Datum.sym k_arrow) = true := by simp [s]
  simp only [evalCond, hl, ht', ha]
  rfl

/-- reading the variable the expansion has just allocated -/
theorem eval_binder (n : Nat) (x : Text) (hx : reserved x = false) (ρ : Env) (v : Val) (s1 : St) :
    (evalN (n+1)).eval (s x) ((x, s1.store.size) :: ρ) { s1 with store := s1.store.push (.var v) } =
      .ok v { s1 with store := s1.store.push (.var v) } := by
  rw [evalN_succ_eval, native_sym]
  simp only [evalVar, hx, List.lookup, beq_self_eq_true]
  show M.bind' (readCell _) _ _ = _
  simp [M.bind', readCell, Pure.pure, M.pure']

/-- **cond**, rules 2 and 3: `(cond (t => f) clause …)` and
    `(let ((temp t)) (if temp (f temp) [(cond clause …)]))`, `temp` occurring neither in `f` nor in the
    remaining clauses, `f` not a syntactic keyword -/
theorem cond_arrow_agrees (ρ : Env) (t f : Datum) (cs : List Datum) (ht : t ≠ s k_else_)
    (hf : ∀ x, f = .sym x → kwOf x = none) (st : St) (hst : WFSt st)
    (hρ : EnvOK st.store.size ρ) (hfree : ∀ d ∈ f :: cs, mentions k_temp d = false) :
    AgreesUpToExtra 2 (condUse (L [t, s k_arrow, f] :: cs)) (condArrowExp t f cs) ρ st := by
  intro n hd
  cases n with
  | zero => exact absurd rfl hd
  | succ n =>
    refine ⟨guardN_eval_evalN _ _ _ _ hd, ?_⟩
    rw [guardN_eval_evalN _ _ _ _ hd]
    have e1 : (guardN (n+1)).eval (condUse (L [t, s k_arrow, f] :: cs)) ρ =
        ((guardN n).eval t ρ >>= fun v =>
          (fun (r : Rec) (ρ : Env) (v : Val) =>
            if truthy v then (do let fv ← r.eval f ρ; r.apply fv [v]) else evalCond r ρ cs) (guardN n) ρ v) := by
      rw [guardN_succ_eval, native_cond, evalCond_arrow _ _ t f cs ht]
    rw [e1] at hd ⊢
    rw [show n + 1 + 2 = n + 3 by omega, cond_arrow_exp_eval]
    have hx : reserved k_temp = false := by decide
    refine binder_agree k_temp t
      (fun r ρ v => if truthy v then (do let fv ← r.eval f ρ; r.apply fv [v]) else evalCond r ρ cs) ?_ n 2 ρ st hst hρ
      (fun l v => if truthy v then (evalN (n+1)).eval (L [f, s k_temp]) ((k_temp, l) :: ρ)
        else (match cs with
          | [] => pure .void
          | c :: cs' => (evalN (n+1)).eval (condUse (c :: cs')) ((k_temp, l) :: ρ))) ?_ hd
    · intro g hg r r' hr ρ1 ρ1' he v v' hv
      simp only [hv.truthy]
      split
      · refine Sim.bind (hr.eval f ρ1 ρ1' _ he (cleanB_of_mentions (hfree f (by simp)))) (fun fv fv' hfv => ?_)
        exact hr.apply _ _ _ _ hfv (.cons hv .nil)
      · exact sim_evalCond hr he _ (cleanBs_of_mentions (fun d hd => hfree d (by simp [hd])))
    · intro v s1 h
      by_cases htr : truthy v = true
      · rw [if_pos htr] at h ⊢
        rw [if_pos htr]
        cases n with
        | zero => exact absurd rfl h
        | succ m =>
          rw [evalN_succ_eval, native_app _ _ f [s k_temp] hf, evalArgs_one]
          show M.bind' (M.bind' ((evalN (m+1)).eval (s k_temp) _) _) _ _ = _
          unfold M.bind'
          rw [eval_binder m k_temp hx ρ v s1]
          rfl
      · rw [if_neg htr, if_neg htr]
        cases cs with
        | nil => rfl
        | cons c cs' =>
          show evalStep (evalN n) (condUse (c :: cs')) _ _ = _
          rw [native_cond]

end Marwood.Spec.Eval.Derived
