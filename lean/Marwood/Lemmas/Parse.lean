import Marwood.Parse
/-!
# Token consumption of the datum parser (used by C11, C10)

`Consumes run ts d rest`: `run ts` succeeded with datum `d` having consumed a non-empty prefix
`pre` of `ts`; the same prefix followed by anything else gives the same datum and leaves exactly
what follows; every proper prefix of `pre` is reported `Incomplete`.
-/
namespace Marwood

abbrev Run := List Token → Option (PRes (Datum × List Token))

def Consumes (run : Run) (ts : List Token) (d : Datum) (rest : List Token) : Prop :=
  ∃ pre, pre ≠ [] ∧ ts = pre ++ rest ∧
    (∀ rest', run (pre ++ rest') = some (.ok (d, rest'))) ∧
    (∀ p q, pre = p ++ q → q ≠ [] → run p = some (.err .incomplete))

/-- the same for the atom arm, where the head token is already taken: `pre` may be empty -/
def ConsumesTail (run : List Token → PRes (Datum × List Token)) (ts : List Token) (d : Datum)
    (rest : List Token) : Prop :=
  ∃ pre, ts = pre ++ rest ∧
    (∀ rest', run (pre ++ rest') = .ok (d, rest')) ∧
    (∀ p q, pre = p ++ q → q ≠ [] → run p = .err .incomplete)

theorem numberFinal_consumes (fo : FloatOps) (text : Text) (ex : Exactness) (radix : Nat)
    (t : Token) (ts : List Token) (d : Datum) (rest : List Token)
    (h : numberFinal fo text ex radix t ts = .ok (d, rest)) :
    rest = ts ∧ ∀ rest', numberFinal fo text ex radix t rest' = .ok (d, rest') := by
  unfold numberFinal at h ⊢
  repeat' split at h
  all_goals first | cases h | skip
  all_goals simp_all

theorem parseNumberTok_consumes (fo : FloatOps) (text : Text) :
    ∀ (ts : List Token) (ex : Exactness) (radix : Nat) (t : Token) (d : Datum) (rest : List Token),
      parseNumberTok fo text ex radix t ts = .ok (d, rest) →
      ConsumesTail (parseNumberTok fo text ex radix t) ts d rest := by
  intro ts
  induction ts with
  | nil =>
    intro ex radix t d rest h
    by_cases hty : t.ty = .numberPrefix
    · unfold parseNumberTok at h
      simp only [hty, if_true] at h
      repeat' split at h
      all_goals cases h
    · unfold parseNumberTok at h
      simp only [hty, if_false] at h
      obtain ⟨h1, h2⟩ := numberFinal_consumes _ _ _ _ _ _ _ _ h
      refine ⟨[], by simp [h1], ?_, ?_⟩
      · intro rest'
        unfold parseNumberTok
        simp only [hty, if_false]
        exact h2 rest'
      · intro p q hp hq
        exact absurd (List.append_eq_nil_iff.mp hp.symm).2 hq
  | cons t' ts ih =>
    intro ex radix t d rest h
    by_cases hty : t.ty = .numberPrefix
    · -- a prefix token: the loop continues with t'
      unfold parseNumberTok at h
      simp only [hty, if_true] at h
      cases hs : tokSpan text t with
      | panic m => simp [hs] at h
      | err e => simp [hs] at h
      | ok sp =>
        simp only [hs] at h
        cases hstep : prefixStep sp ex radix with
        | none => simp [hstep] at h
        | some er =>
          obtain ⟨ex', radix'⟩ := er
          simp only [hstep] at h
          obtain ⟨pre, hts, hall, hpre⟩ := ih ex' radix' t' d rest h
          refine ⟨t' :: pre, by simp [hts], ?_, ?_⟩
          · intro rest'
            have := hall rest'
            rw [parseNumberTok]
            simp only [hty, if_true, hs, hstep, List.cons_append]
            exact this
          · intro p q hp hq
            rw [parseNumberTok]
            simp only [hty, if_true, hs, hstep]
            cases p with
            | nil => rfl
            | cons x p' =>
              simp only [List.cons_append, List.cons.injEq] at hp
              obtain ⟨rfl, hp⟩ := hp
              exact hpre p' q hp hq
    · -- the number spelling itself
      unfold parseNumberTok at h
      simp only [hty, if_false] at h
      obtain ⟨h1, h2⟩ := numberFinal_consumes _ _ _ _ _ _ _ _ h
      refine ⟨[], by simp [h1], ?_, ?_⟩
      · intro rest'
        unfold parseNumberTok
        simp only [hty, if_false]
        exact h2 rest'
      · intro p q hp hq
        exact absurd (List.append_eq_nil_iff.mp hp.symm).2 hq

theorem parseAtom_consumes (fo : FloatOps) (text : Text) (t : Token) (ts : List Token) (d : Datum)
    (rest : List Token) (h : parseAtom fo text t ts = .ok (d, rest)) :
    ConsumesTail (parseAtom fo text t) ts d rest := by
  by_cases hn : t.ty = .number ∨ t.ty = .numberPrefix
  · have e : ∀ ts', parseAtom fo text t ts' = parseNumberTok fo text .unspecified 10 t ts' := by
      intro ts'; unfold parseAtom; rcases hn with hn | hn <;> simp [hn]
    rw [e] at h
    obtain ⟨pre, h1, h2, h3⟩ := parseNumberTok_consumes fo text ts _ _ t d rest h
    exact ⟨pre, h1, fun r => by rw [e]; exact h2 r, fun p q hp hq => by rw [e]; exact h3 p q hp hq⟩
  · refine ⟨[], ?_, ?_, ?_⟩
    · unfold parseAtom at h
      repeat' split at h
      all_goals first | (cases h; rfl) | cases h | (simp_all; done)
    · intro rest'
      unfold parseAtom at h ⊢
      repeat' split at h
      all_goals first | cases h | skip
      all_goals simp_all
    · intro p q hp hq
      exact absurd (List.append_eq_nil_iff.mp hp.symm).2 hq

theorem wrapRes_ok {name : String} {r : Option (PRes (Datum × List Token))} {d : Datum}
    {rest : List Token} (h : wrapRes name r = some (.ok (d, rest))) :
    ∃ d', r = some (.ok (d', rest)) ∧ d = quoteForm name d' := by
  unfold wrapRes at h
  split at h
  · cases h
  · cases h; exact ⟨_, rfl, rfl⟩
  · cases h
  · cases h

theorem cons_prefix_cases {α} {t : α} {pre p q : List α} (hp : t :: pre = p ++ q) :
    (p = [] ∧ q = t :: pre) ∨ ∃ p', p = t :: p' ∧ pre = p' ++ q := by
  cases p with
  | nil => exact .inl ⟨rfl, by simpa using hp.symm⟩
  | cons x p' =>
    simp only [List.cons_append, List.cons.injEq] at hp
    exact .inr ⟨p', by rw [hp.1], hp.2⟩

/-- a prefix of `a ++ b` is a prefix of `a`, or `a` followed by a prefix of `b` -/
theorem append_prefix_cases {α} {a b p q : List α} (h : a ++ b = p ++ q) :
    (∃ a2, a = p ++ a2 ∧ q = a2 ++ b ∧ a2 ≠ []) ∨ (∃ p2, p = a ++ p2 ∧ b = p2 ++ q) := by
  induction a generalizing p with
  | nil => exact .inr ⟨p, by simp, by simpa using h⟩
  | cons x a ih =>
    cases p with
    | nil => exact .inl ⟨x :: a, by simp, by simpa using h.symm, by simp⟩
    | cons y p' =>
      simp only [List.cons_append, List.cons.injEq] at h
      obtain ⟨rfl, h⟩ := h
      rcases ih h with ⟨a2, h1, h2, h3⟩ | ⟨p2, h1, h2⟩
      · exact .inl ⟨a2, by simp [h1], h2, h3⟩
      · exact .inr ⟨p2, by simp [h1], h2⟩

theorem consumes_all (fo : FloatOps) (text : Text) : ∀ f : Nat,
    (∀ ts d rest, parseF fo text f ts = some (.ok (d, rest)) →
        Consumes (parseF fo text f) ts d rest) ∧
    (∀ start acc ts d rest, listF fo text f start acc ts = some (.ok (d, rest)) →
        Consumes (listF fo text f start acc) ts d rest) ∧
    (∀ acc ts d rest, tailF fo text f acc ts = some (.ok (d, rest)) →
        Consumes (tailF fo text f acc) ts d rest) ∧
    (∀ acc ts d rest, vectorF fo text f acc ts = some (.ok (d, rest)) →
        Consumes (vectorF fo text f acc) ts d rest) := by
  intro f
  induction f with
  | zero =>
    refine ⟨?_, ?_, ?_, ?_⟩ <;> intros <;> simp_all [parseF, listF, tailF, vectorF]
  | succ f ih =>
    obtain ⟨ihP, ihL, ihT, ihV⟩ := ih
    refine ⟨?_, ?_, ?_, ?_⟩
    · -- parse
      intro ts d rest h
      cases ts with
      | nil => simp [parseF] at h
      | cons t ts =>
        rw [parseF] at h
        cases hk : tokKind t.ty with
        | wrap name =>
          simp only [hk] at h
          obtain ⟨d', hr, rfl⟩ := wrapRes_ok h
          obtain ⟨pre, hne, hts, hall, hpre⟩ := ihP _ _ _ hr
          refine ⟨t :: pre, by simp, by simp [hts], ?_, ?_⟩
          · intro rest'
            rw [List.cons_append, parseF]
            simp only [hk, hall rest', wrapRes]
          · intro p q hp hq
            rcases cons_prefix_cases hp with ⟨rfl, _⟩ | ⟨p', rfl, hp'⟩
            · simp [parseF]
            · rw [parseF]
              simp only [hk, hpre p' q hp' hq, wrapRes]
        | list =>
          simp only [hk] at h
          obtain ⟨pre, hne, hts, hall, hpre⟩ := ihL _ _ _ _ _ h
          refine ⟨t :: pre, by simp, by simp [hts], ?_, ?_⟩
          · intro rest'
            rw [List.cons_append, parseF]
            simp only [hk, hall rest']
          · intro p q hp hq
            rcases cons_prefix_cases hp with ⟨rfl, _⟩ | ⟨p', rfl, hp'⟩
            · simp [parseF]
            · rw [parseF]
              simp only [hk, hpre p' q hp' hq]
        | vector =>
          simp only [hk] at h
          obtain ⟨pre, hne, hts, hall, hpre⟩ := ihV _ _ _ _ h
          refine ⟨t :: pre, by simp, by simp [hts], ?_, ?_⟩
          · intro rest'
            rw [List.cons_append, parseF]
            simp only [hk, hall rest']
          · intro p q hp hq
            rcases cons_prefix_cases hp with ⟨rfl, _⟩ | ⟨p', rfl, hp'⟩
            · simp [parseF]
            · rw [parseF]
              simp only [hk, hpre p' q hp' hq]
        | atom =>
          simp only [hk, Option.some.injEq] at h
          obtain ⟨pre, hts, hall, hpre⟩ := parseAtom_consumes fo text t ts d rest h
          refine ⟨t :: pre, by simp, by simp [hts], ?_, ?_⟩
          · intro rest'
            rw [List.cons_append, parseF]
            simp only [hk, hall rest']
          · intro p q hp hq
            rcases cons_prefix_cases hp with ⟨rfl, _⟩ | ⟨p', rfl, hp'⟩
            · simp [parseF]
            · rw [parseF]
              simp only [hk, hpre p' q hp' hq]
    · -- parse_list
      intro start acc ts d rest h
      cases ts with
      | nil => simp [listF] at h
      | cons t ts =>
        rw [listF] at h
        by_cases hr : t.ty = .rightParen
        · simp only [hr, if_true, Option.some.injEq] at h
          have hrest : rest = ts ∧ ∀ r', closeList text start t acc r' = .ok (d, r') := by
            unfold closeList at h ⊢
            repeat' split at h
            all_goals first | cases h | skip
            all_goals simp_all
          refine ⟨[t], by simp, by simp [hrest.1], ?_, ?_⟩
          · intro rest'
            rw [List.cons_append, List.nil_append, listF]
            simp only [hr, if_true, hrest.2 rest']
          · intro p q hp hq
            rcases cons_prefix_cases hp with ⟨rfl, _⟩ | ⟨p', rfl, hp'⟩
            · simp [listF]
            · exact absurd (List.append_eq_nil_iff.mp hp'.symm).2 hq
        · by_cases hd : t.ty = .dot
          · simp only [hd, if_true, reduceCtorEq, if_false] at h
            obtain ⟨pre, hne, hts, hall, hpre⟩ := ihT _ _ _ _ h
            refine ⟨t :: pre, by simp, by simp [hts], ?_, ?_⟩
            · intro rest'
              rw [List.cons_append, listF]
              simp only [hd, if_true, reduceCtorEq, if_false, hall rest']
            · intro p q hp hq
              rcases cons_prefix_cases hp with ⟨rfl, _⟩ | ⟨p', rfl, hp'⟩
              · simp [listF]
              · rw [listF]
                simp only [hd, if_true, reduceCtorEq, if_false, hpre p' q hp' hq]
          · simp only [hr, hd, if_false] at h
            cases h1 : parseF fo text f (t :: ts) with
            | none => simp [h1] at h
            | some r1 =>
              cases r1 with
              | err e => simp [h1] at h
              | panic m => simp [h1] at h
              | ok v =>
                obtain ⟨d1, rest1⟩ := v
                simp only [h1] at h
                obtain ⟨pre1, hne1, hts1, hall1, hpre1⟩ := ihP _ _ _ h1
                obtain ⟨pre2, hne2, hts2, hall2, hpre2⟩ := ihL _ _ _ _ _ h
                -- pre1 starts with t
                obtain ⟨pre1', rfl⟩ : ∃ pre1', pre1 = t :: pre1' := by
                  cases pre1 with
                  | nil => exact absurd rfl hne1
                  | cons x xs =>
                    simp only [List.cons_append, List.cons.injEq] at hts1
                    exact ⟨xs, by rw [hts1.1]⟩
                refine ⟨t :: pre1' ++ pre2, by simp, ?_, ?_, ?_⟩
                · rw [hts1, hts2]; simp
                · intro rest'
                  simp only [List.cons_append, List.append_assoc]
                  rw [listF]
                  simp only [hr, hd, if_false]
                  have := hall1 (pre2 ++ rest')
                  simp only [List.cons_append, List.append_assoc] at this ⊢
                  rw [this]
                  exact hall2 rest'
                · intro p q hp hq
                  rcases append_prefix_cases hp with ⟨a2, h1', h2', h3'⟩ | ⟨p2, h1', h2'⟩
                  · -- p is a proper prefix of the first element's tokens
                    rcases cons_prefix_cases h1' with ⟨rfl, _⟩ | ⟨p', rfl, hp'⟩
                    · simp [listF]
                    · rw [listF]
                      simp only [hr, hd, if_false]
                      have := hpre1 (t :: p') a2 (by simp [hp']) h3'
                      rw [this]
                  · -- the first element is complete; the rest of the loop is cut
                    subst h1'
                    show listF fo text (f + 1) start acc (t :: (pre1' ++ p2)) = _
                    rw [listF]
                    simp only [hr, hd, if_false]
                    have := hall1 p2
                    simp only [List.cons_append] at this
                    rw [this]
                    exact hpre2 p2 q h2' hq
    · -- parse_improper_list_tail
      intro acc ts d rest h
      by_cases he : acc.isEmpty = true
      · cases ts <;> simp [tailF, he] at h
      · cases ts with
        | nil => simp [tailF, he] at h
        | cons t ts =>
          rw [tailF] at h
          simp only [he, Bool.false_eq_true, if_false] at h
          by_cases hdr : t.ty = .dot ∨ t.ty = .rightParen
          · simp [hdr] at h
          · simp only [hdr, if_false] at h
            cases h1 : parseF fo text f (t :: ts) with
            | none => simp [h1] at h
            | some r1 =>
              cases r1 with
              | err e => simp [h1] at h
              | panic m => simp [h1] at h
              | ok v =>
                obtain ⟨d1, rest1⟩ := v
                simp only [h1] at h
                obtain ⟨pre1, hne1, hts1, hall1, hpre1⟩ := ihP _ _ _ h1
                obtain ⟨pre1', rfl⟩ : ∃ pre1', pre1 = t :: pre1' := by
                  cases pre1 with
                  | nil => exact absurd rfl hne1
                  | cons x xs =>
                    simp only [List.cons_append, List.cons.injEq] at hts1
                    exact ⟨xs, by rw [hts1.1]⟩
                cases rest1 with
                | nil => simp at h
                | cons c rest1' =>
                  simp only at h
                  by_cases hc : c.ty = .rightParen
                  · simp only [hc, if_true, Option.some.injEq, Res.ok.injEq, Prod.mk.injEq] at h
                    obtain ⟨rfl, rfl⟩ := h
                    refine ⟨t :: pre1' ++ [c], by simp, by rw [hts1]; simp, ?_, ?_⟩
                    · intro rest'
                      simp only [List.cons_append, List.append_assoc]
                      rw [tailF]
                      simp only [he, Bool.false_eq_true, if_false, hdr]
                      have := hall1 (c :: rest')
                      simp only [List.cons_append, List.append_assoc, List.singleton_append,
                        List.nil_append] at this ⊢
                      rw [this]
                      simp [hc]
                    · intro p q hp hq
                      rcases append_prefix_cases hp with ⟨a2, h1', h2', h3'⟩ | ⟨p2, h1', h2'⟩
                      · rcases cons_prefix_cases h1' with ⟨rfl, _⟩ | ⟨p', rfl, hp'⟩
                        · simp [tailF, he]
                        · rw [tailF]
                          simp only [he, Bool.false_eq_true, if_false, hdr]
                          have := hpre1 (t :: p') a2 (by simp [hp']) h3'
                          rw [this]
                      · subst h1'
                        have hp2 : p2 = [] := by
                          cases p2 with
                          | nil => rfl
                          | cons x xs =>
                            simp only [List.cons_append, List.cons.injEq] at h2'
                            have := (List.append_eq_nil_iff.mp h2'.2.symm).2
                            exact absurd this hq
                        subst hp2
                        show tailF fo text (f + 1) acc (t :: (pre1' ++ [])) = _
                        rw [tailF]
                        simp only [he, Bool.false_eq_true, if_false, hdr]
                        have := hall1 []
                        simp only [List.cons_append] at this
                        rw [this]
                  · simp [hc] at h
    · -- parse_vector
      intro acc ts d rest h
      cases ts with
      | nil => simp [vectorF] at h
      | cons t ts =>
        rw [vectorF] at h
        by_cases hr : t.ty = .rightParen
        · simp only [hr, if_true, Option.some.injEq] at h
          have hrest : rest = ts ∧ ∀ r', closeVector text t acc r' = .ok (d, r') := by
            unfold closeVector at h ⊢
            repeat' split at h
            all_goals first | cases h | skip
            all_goals simp_all
          refine ⟨[t], by simp, by simp [hrest.1], ?_, ?_⟩
          · intro rest'
            rw [List.cons_append, List.nil_append, vectorF]
            simp only [hr, if_true, hrest.2 rest']
          · intro p q hp hq
            rcases cons_prefix_cases hp with ⟨rfl, _⟩ | ⟨p', rfl, hp'⟩
            · simp [vectorF]
            · exact absurd (List.append_eq_nil_iff.mp hp'.symm).2 hq
        · by_cases hd : t.ty = .dot
          · simp [hd] at h
          · simp only [hr, hd, if_false] at h
            cases h1 : parseF fo text f (t :: ts) with
            | none => simp [h1] at h
            | some r1 =>
              cases r1 with
              | err e => simp [h1] at h
              | panic m => simp [h1] at h
              | ok v =>
                obtain ⟨d1, rest1⟩ := v
                simp only [h1] at h
                obtain ⟨pre1, hne1, hts1, hall1, hpre1⟩ := ihP _ _ _ h1
                obtain ⟨pre2, hne2, hts2, hall2, hpre2⟩ := ihV _ _ _ _ h
                obtain ⟨pre1', rfl⟩ : ∃ pre1', pre1 = t :: pre1' := by
                  cases pre1 with
                  | nil => exact absurd rfl hne1
                  | cons x xs =>
                    simp only [List.cons_append, List.cons.injEq] at hts1
                    exact ⟨xs, by rw [hts1.1]⟩
                refine ⟨t :: pre1' ++ pre2, by simp, ?_, ?_, ?_⟩
                · rw [hts1, hts2]; simp
                · intro rest'
                  simp only [List.cons_append, List.append_assoc]
                  rw [vectorF]
                  simp only [hr, hd, if_false]
                  have := hall1 (pre2 ++ rest')
                  simp only [List.cons_append, List.append_assoc] at this ⊢
                  rw [this]
                  exact hall2 rest'
                · intro p q hp hq
                  rcases append_prefix_cases hp with ⟨a2, h1', h2', h3'⟩ | ⟨p2, h1', h2'⟩
                  · rcases cons_prefix_cases h1' with ⟨rfl, _⟩ | ⟨p', rfl, hp'⟩
                    · simp [vectorF]
                    · rw [vectorF]
                      simp only [hr, hd, if_false]
                      have := hpre1 (t :: p') a2 (by simp [hp']) h3'
                      rw [this]
                  · subst h1'
                    show vectorF fo text (f + 1) acc (t :: (pre1' ++ p2)) = _
                    rw [vectorF]
                    simp only [hr, hd, if_false]
                    have := hall1 p2
                    simp only [List.cons_append] at this
                    rw [this]
                    exact hpre2 p2 q h2' hq

/-! ## fuel: more never hurts, and `2·|ts| + 2` always suffices -/

theorem wrapRes_some {name : String} {r : Option (PRes (Datum × List Token))}
    {x : PRes (Datum × List Token)} (h : wrapRes name r = some x) : ∃ r0, r = some r0 := by
  cases r with
  | none => simp [wrapRes] at h
  | some r0 => exact ⟨r0, rfl⟩

theorem fuel_succ (fo : FloatOps) (text : Text) : ∀ f : Nat,
    (∀ ts r, parseF fo text f ts = some r → parseF fo text (f+1) ts = some r) ∧
    (∀ start acc ts r, listF fo text f start acc ts = some r →
        listF fo text (f+1) start acc ts = some r) ∧
    (∀ acc ts r, tailF fo text f acc ts = some r → tailF fo text (f+1) acc ts = some r) ∧
    (∀ acc ts r, vectorF fo text f acc ts = some r → vectorF fo text (f+1) acc ts = some r) := by
  intro f
  induction f with
  | zero => refine ⟨?_, ?_, ?_, ?_⟩ <;> intros <;> simp_all [parseF, listF, tailF, vectorF]
  | succ f ih =>
    obtain ⟨ihP, ihL, ihT, ihV⟩ := ih
    refine ⟨?_, ?_, ?_, ?_⟩
    · intro ts r h
      cases ts with
      | nil => rw [parseF] at h ⊢; exact h
      | cons t ts =>
        rw [parseF] at h ⊢
        cases hk : tokKind t.ty with
        | wrap name =>
          simp only [hk] at h ⊢
          obtain ⟨r0, hr0⟩ := wrapRes_some h
          rw [ihP _ _ hr0, ← hr0]; exact h
        | list => simp only [hk] at h ⊢; exact ihL _ _ _ _ h
        | vector => simp only [hk] at h ⊢; exact ihV _ _ _ h
        | atom => simp only [hk] at h ⊢; exact h
    · intro start acc ts r h
      cases ts with
      | nil => rw [listF] at h ⊢; exact h
      | cons t ts =>
        rw [listF] at h ⊢
        by_cases hr : t.ty = .rightParen
        · simp only [hr, if_true] at h ⊢; exact h
        · by_cases hd : t.ty = .dot
          · simp only [hd, if_true, reduceCtorEq, if_false] at h ⊢; exact ihT _ _ _ h
          · simp only [hr, hd, if_false] at h ⊢
            cases h1 : parseF fo text f (t :: ts) with
            | none => simp [h1] at h
            | some r1 =>
              rw [ihP _ _ h1]
              rw [h1] at h
              cases r1 with
              | err e => exact h
              | panic m => exact h
              | ok v => obtain ⟨d1, rest1⟩ := v; exact ihL _ _ _ _ h
    · intro acc ts r h
      cases ts with
      | nil => rw [tailF] at h ⊢; exact h
      | cons t ts =>
        rw [tailF] at h ⊢
        by_cases he : acc.isEmpty = true
        · simp only [he, if_true] at h ⊢; exact h
        · simp only [he, Bool.false_eq_true, if_false] at h ⊢
          by_cases hdr : t.ty = .dot ∨ t.ty = .rightParen
          · simp only [hdr, if_true] at h ⊢; exact h
          · simp only [hdr, if_false] at h ⊢
            cases h1 : parseF fo text f (t :: ts) with
            | none => simp [h1] at h
            | some r1 => rw [ihP _ _ h1]; rw [h1] at h; exact h
    · intro acc ts r h
      cases ts with
      | nil => rw [vectorF] at h ⊢; exact h
      | cons t ts =>
        rw [vectorF] at h ⊢
        by_cases hr : t.ty = .rightParen
        · simp only [hr, if_true] at h ⊢; exact h
        · by_cases hd : t.ty = .dot
          · simp only [hd, if_true, reduceCtorEq, if_false] at h ⊢; exact h
          · simp only [hr, hd, if_false] at h ⊢
            cases h1 : parseF fo text f (t :: ts) with
            | none => simp [h1] at h
            | some r1 =>
              rw [ihP _ _ h1]
              rw [h1] at h
              cases r1 with
              | err e => exact h
              | panic m => exact h
              | ok v => obtain ⟨d1, rest1⟩ := v; exact ihV _ _ _ h

theorem parseF_mono (fo : FloatOps) (text : Text) {f f' : Nat} {ts : List Token}
    {r : PRes (Datum × List Token)} (hle : f ≤ f') (h : parseF fo text f ts = some r) :
    parseF fo text f' ts = some r := by
  induction hle with
  | refl => exact h
  | step _ ih => exact (fuel_succ fo text _).1 _ _ ih

/-- a successful parse leaves strictly fewer tokens -/
theorem parseF_rest_lt (fo : FloatOps) (text : Text) {f : Nat} {ts rest : List Token} {d : Datum}
    (h : parseF fo text f ts = some (.ok (d, rest))) : rest.length < ts.length := by
  obtain ⟨pre, hne, hts, _, _⟩ := (consumes_all fo text f).1 _ _ _ h
  rw [hts]
  cases pre with
  | nil => exact absurd rfl hne
  | cons x xs => simp; omega

theorem fuel_enough (fo : FloatOps) (text : Text) : ∀ f : Nat,
    (∀ ts, 2 * ts.length + 1 ≤ f → parseF fo text f ts ≠ none) ∧
    (∀ start acc ts, 2 * ts.length + 2 ≤ f → listF fo text f start acc ts ≠ none) ∧
    (∀ acc ts, 2 * ts.length + 2 ≤ f → tailF fo text f acc ts ≠ none) ∧
    (∀ acc ts, 2 * ts.length + 2 ≤ f → vectorF fo text f acc ts ≠ none) := by
  intro f
  induction f with
  | zero => refine ⟨?_, ?_, ?_, ?_⟩ <;> intros <;> omega
  | succ f ih =>
    obtain ⟨ihP, ihL, ihT, ihV⟩ := ih
    refine ⟨?_, ?_, ?_, ?_⟩
    · intro ts hf
      cases ts with
      | nil => simp [parseF]
      | cons t ts =>
        rw [parseF]
        simp only [List.length_cons] at hf
        cases hk : tokKind t.ty with
        | wrap name =>
          simp only
          have := ihP ts (by omega)
          cases hp : parseF fo text f ts with
          | none => exact absurd hp this
          | some r => cases r <;> simp [wrapRes]
        | list => simp only; exact ihL _ _ _ (by omega)
        | vector => simp only; exact ihV _ _ (by omega)
        | atom => simp
    · intro start acc ts hf
      cases ts with
      | nil => simp [listF]
      | cons t ts =>
        rw [listF]
        simp only [List.length_cons] at hf
        by_cases hr : t.ty = .rightParen
        · simp [hr]
        · by_cases hd : t.ty = .dot
          · simp only [hd, if_true, reduceCtorEq, if_false]; exact ihT _ _ (by omega)
          · simp only [hr, hd, if_false]
            have := ihP (t :: ts) (by simp only [List.length_cons]; omega)
            cases h1 : parseF fo text f (t :: ts) with
            | none => exact absurd h1 this
            | some r1 =>
              cases r1 with
              | err e => simp
              | panic m => simp
              | ok v =>
                obtain ⟨d1, rest1⟩ := v
                have hlt := parseF_rest_lt fo text h1
                simp only [List.length_cons] at hlt
                exact ihL _ _ _ (by omega)
    · intro acc ts hf
      cases ts with
      | nil => rw [tailF]; split <;> simp
      | cons t ts =>
        rw [tailF]
        simp only [List.length_cons] at hf
        by_cases he : acc.isEmpty = true
        · simp [he]
        · simp only [he, Bool.false_eq_true, if_false]
          by_cases hdr : t.ty = .dot ∨ t.ty = .rightParen
          · simp [hdr]
          · simp only [hdr, if_false]
            have := ihP (t :: ts) (by simp only [List.length_cons]; omega)
            cases h1 : parseF fo text f (t :: ts) with
            | none => exact absurd h1 this
            | some r1 =>
              cases r1 with
              | err e => simp
              | panic m => simp
              | ok v =>
                obtain ⟨d1, rest1⟩ := v
                cases rest1 with
                | nil => simp
                | cons c rest' => simp only; split <;> simp
    · intro acc ts hf
      cases ts with
      | nil => simp [vectorF]
      | cons t ts =>
        rw [vectorF]
        simp only [List.length_cons] at hf
        by_cases hr : t.ty = .rightParen
        · simp [hr]
        · by_cases hd : t.ty = .dot
          · simp [hd]
          · simp only [hr, hd, if_false]
            have := ihP (t :: ts) (by simp only [List.length_cons]; omega)
            cases h1 : parseF fo text f (t :: ts) with
            | none => exact absurd h1 this
            | some r1 =>
              cases r1 with
              | err e => simp
              | panic m => simp
              | ok v =>
                obtain ⟨d1, rest1⟩ := v
                have hlt := parseF_rest_lt fo text h1
                simp only [List.length_cons] at hlt
                exact ihV _ _ (by omega)

/-- whatever fuel produced an answer, `parseTokens` gives that answer -/
theorem parseTokens_of_fuel (fo : FloatOps) (text : Text) {f : Nat} {ts : List Token}
    {r : PRes (Datum × List Token)} (h : parseF fo text f ts = some r) :
    parseTokens fo text ts = r := by
  unfold parseTokens
  have htot := (fuel_enough fo text (parseFuel ts)).1 ts (by unfold parseFuel; omega)
  cases hp : parseF fo text (parseFuel ts) ts with
  | none => exact absurd hp htot
  | some r' =>
    simp only
    have h1 := parseF_mono fo text (Nat.le_max_left f (parseFuel ts)) h
    have h2 := parseF_mono fo text (Nat.le_max_right f (parseFuel ts)) hp
    rw [h1] at h2
    exact (Option.some.inj h2).symm

theorem parseTokens_fuel (fo : FloatOps) (text : Text) (ts : List Token) :
    parseF fo text (parseFuel ts) ts = some (parseTokens fo text ts) := by
  have htot := (fuel_enough fo text (parseFuel ts)).1 ts (by unfold parseFuel; omega)
  cases hp : parseF fo text (parseFuel ts) ts with
  | none => exact absurd hp htot
  | some r' => rw [parseTokens_of_fuel fo text hp]

end Marwood
